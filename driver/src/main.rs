// pvfacts: rustc_private fact extractor for the rusty_paseto static checks.
//
// Used as RUSTC_WORKSPACE_WRAPPER under `cargo +nightly check`. For the crate named in
// PVFACTS_CRATE (default rusty_paseto) it writes one JSON file (PVFACTS_OUT) with:
//   bodies  : every local MIR body (fns, closures, consts, statics, promoteds) as a CFG
//   adts    : structs / enums with fields, visibilities, non_exhaustive
//   impls   : inherent and trait impls with self type, trait ref, generics, predicates, items
//   api     : items reachable from outside the crate with their signatures
// Nothing of the analysed crate is executed.
#![feature(rustc_private)]
#![allow(rustc::internal)]

extern crate rustc_abi;
extern crate rustc_data_structures;
extern crate rustc_driver;
extern crate rustc_hir;
extern crate rustc_index;
extern crate rustc_interface;
extern crate rustc_middle;
extern crate rustc_session;
extern crate rustc_span;

use rustc_driver::Compilation;
use rustc_hir::def::DefKind;
use rustc_hir::def_id::{DefId, LocalDefId};
use rustc_interface::interface::Compiler;
use rustc_middle::mir::{
    self, AggregateKind, AssertKind, BasicBlock, Body, BorrowKind, CastKind, Const, ConstValue,
    Operand, Place, ProjectionElem, Rvalue, StatementKind, TerminatorKind, UnwindAction,
};
use rustc_middle::ty::print::{with_crate_prefix, with_forced_trimmed_paths, with_no_trimmed_paths, with_no_visible_paths};
use rustc_middle::ty::print::PrintTraitRefExt;
use rustc_middle::ty::{self, GenericArgsRef, Instance, Ty, TyCtxt, TypeVisitableExt, TypingEnv};
use rustc_span::Span;
use std::fmt::Write as _;

// ------------------------------------------------------------------ tiny JSON value
enum J {
    Null,
    Bool(bool),
    Int(i128),
    Str(String),
    Arr(Vec<J>),
    Obj(Vec<(&'static str, J)>),
}
fn s<T: Into<String>>(x: T) -> J {
    J::Str(x.into())
}
fn esc(out: &mut String, st: &str) {
    out.push('"');
    for c in st.chars() {
        match c {
            '"' => out.push_str("\\\""),
            '\\' => out.push_str("\\\\"),
            '\n' => out.push_str("\\n"),
            '\r' => out.push_str("\\r"),
            '\t' => out.push_str("\\t"),
            c if (c as u32) < 0x20 => {
                let _ = write!(out, "\\u{:04x}", c as u32);
            }
            c => out.push(c),
        }
    }
    out.push('"');
}
impl J {
    fn write(&self, out: &mut String) {
        match self {
            J::Null => out.push_str("null"),
            J::Bool(b) => out.push_str(if *b { "true" } else { "false" }),
            J::Int(i) => {
                let _ = write!(out, "{}", i);
            }
            J::Str(st) => esc(out, st),
            J::Arr(v) => {
                out.push('[');
                for (i, x) in v.iter().enumerate() {
                    if i > 0 {
                        out.push(',');
                    }
                    x.write(out);
                }
                out.push(']');
            }
            J::Obj(v) => {
                out.push('{');
                for (i, (k, x)) in v.iter().enumerate() {
                    if i > 0 {
                        out.push(',');
                    }
                    esc(out, k);
                    out.push(':');
                    x.write(out);
                }
                out.push('}');
            }
        }
    }
}

// ------------------------------------------------------------------ helpers
fn dps(tcx: TyCtxt<'_>, d: DefId) -> String {
    with_no_visible_paths!(with_crate_prefix!(with_no_trimmed_paths!(tcx.def_path_str(d))))
}
fn dpsa<'tcx>(tcx: TyCtxt<'tcx>, d: DefId, a: GenericArgsRef<'tcx>) -> String {
    with_no_visible_paths!(with_crate_prefix!(with_no_trimmed_paths!(tcx.def_path_str_with_args(d, a))))
}
fn show<T: std::fmt::Display>(t: T) -> String {
    with_no_visible_paths!(with_crate_prefix!(with_no_trimmed_paths!(format!("{}", t))))
}
fn tys(t: Ty<'_>) -> String {
    show(t)
}
fn loc(tcx: TyCtxt<'_>, sp: Span) -> (String, i128) {
    let sm = tcx.sess.source_map();
    let lo = sm.lookup_char_pos(sp.lo());
    let name = match &lo.file.name {
        rustc_span::FileName::Real(r) => match r.local_path() {
            Some(p) => p.to_string_lossy().to_string(),
            None => format!("{:?}", lo.file.name),
        },
        other => format!("{:?}", other),
    };
    (name, lo.line as i128)
}

struct Cx<'a, 'tcx> {
    tcx: TyCtxt<'tcx>,
    body: &'a Body<'tcx>,
    owner: DefId,
}

impl<'a, 'tcx> Cx<'a, 'tcx> {
    fn place(&self, p: Place<'tcx>) -> J {
        let tcx = self.tcx;
        let mut projs = Vec::new();
        for (base, elem) in p.iter_projections() {
            let bty = base.ty(self.body, tcx);
            let j = match elem {
                ProjectionElem::Deref => J::Obj(vec![("k", s("deref"))]),
                ProjectionElem::Field(f, fty) => {
                    let mut o = vec![("k", s("field")), ("i", J::Int(f.as_usize() as i128)), ("ty", s(tys(fty)))];
                    match bty.ty.kind() {
                        ty::Adt(adt, _) => {
                            let vidx = bty.variant_index.unwrap_or(rustc_abi::FIRST_VARIANT);
                            let v = adt.variant(vidx);
                            o.push(("adt", s(dps(tcx, adt.did()))));
                            o.push(("variant", s(v.name.to_string())));
                            o.push(("name", s(v.fields[f].name.to_string())));
                        }
                        ty::Tuple(_) => o.push(("adt", s("(tuple)"))),
                        ty::Closure(d, _) => {
                            o.push(("adt", s("(closure)")));
                            o.push(("closure", s(dps(tcx, *d))));
                        }
                        _ => o.push(("adt", s(tys(bty.ty)))),
                    }
                    J::Obj(o)
                }
                ProjectionElem::Index(l) => J::Obj(vec![("k", s("index")), ("l", J::Int(l.as_usize() as i128))]),
                ProjectionElem::ConstantIndex { offset, min_length, from_end } => J::Obj(vec![
                    ("k", s("cidx")),
                    ("offset", J::Int(offset as i128)),
                    ("min_length", J::Int(min_length as i128)),
                    ("from_end", J::Bool(from_end)),
                ]),
                ProjectionElem::Subslice { from, to, from_end } => J::Obj(vec![
                    ("k", s("subslice")),
                    ("from", J::Int(from as i128)),
                    ("to", J::Int(to as i128)),
                    ("from_end", J::Bool(from_end)),
                ]),
                ProjectionElem::Downcast(name, v) => J::Obj(vec![
                    ("k", s("downcast")),
                    ("variant", match name {
                        Some(n) => s(n.to_string()),
                        None => J::Null,
                    }),
                    ("vi", J::Int(v.as_usize() as i128)),
                ]),
                ProjectionElem::OpaqueCast(t) => J::Obj(vec![("k", s("opaque")), ("ty", s(tys(t)))]),
                ProjectionElem::UnwrapUnsafeBinder(t) => J::Obj(vec![("k", s("unwrap_binder")), ("ty", s(tys(t)))]),
            };
            projs.push(j);
        }
        J::Obj(vec![("l", J::Int(p.local.as_usize() as i128)), ("p", J::Arr(projs))])
    }

    fn konst(&self, c: &mir::ConstOperand<'tcx>) -> J {
        let tcx = self.tcx;
        let ty = c.const_.ty();
        let mut o: Vec<(&'static str, J)> = vec![("k", s("const")), ("ty", s(tys(ty)))];
        o.push(("disp", s(show(c.const_))));
        // function items / closures named by a ZST constant
        match ty.kind() {
            ty::FnDef(d, a) => {
                o.push(("fn", s(dps(tcx, *d))));
                o.push(("fn_inst", s(dpsa(tcx, *d, a))));
                o.push(("fn_callee", self.callee_of(*d, a)));
            }
            ty::Closure(d, _) => o.push(("closure", s(dps(tcx, *d)))),
            ty::Ref(_, inner, _) => {
                if let ty::Closure(d, _) = inner.kind() {
                    o.push(("closure", s(dps(tcx, *d))));
                }
            }
            _ => {}
        }
        match c.const_ {
            Const::Unevaluated(u, _) => {
                if let Some(p) = u.promoted {
                    o.push(("promoted", J::Int(p.as_usize() as i128)));
                    o.push(("promoted_of", s(dps(tcx, u.def))));
                } else {
                    o.push(("uneval", s(dps(tcx, u.def))));
                    o.push(("uneval_inst", s(dpsa(tcx, u.def, u.args))));
                }
            }
            _ => {}
        }
        // try to evaluate
        let env = TypingEnv::post_analysis(tcx, self.owner);
        let val: Option<ConstValue> = match c.const_ {
            Const::Val(v, _) => Some(v),
            Const::Ty(_, ct) => match ct.kind() {
                ty::ConstKind::Value(cv) => {
                    if let Some(si) = cv.try_to_leaf() {
                        o.push(("int", J::Int(scalar_int_to_i128(si, ty))));
                    } else if let Some(bytes) = cv.try_to_raw_bytes(tcx) {
                        match std::str::from_utf8(bytes) {
                            Ok(st) => o.push(("str", s(st))),
                            Err(_) => o.push(("bytes", J::Arr(bytes.iter().map(|b| J::Int(*b as i128)).collect()))),
                        }
                    }
                    None
                }
                ty::ConstKind::Param(p) => {
                    o.push(("param", s(p.name.to_string())));
                    None
                }
                _ => None,
            },
            Const::Unevaluated(u, _) => {
                if u.promoted.is_none() && !u.args.has_param() {
                    c.const_.eval(tcx, env, c.span).ok()
                } else {
                    None
                }
            }
        };
        if let Some(v) = val {
            match v {
                ConstValue::Scalar(mir::interpret::Scalar::Int(si)) => {
                    o.push(("int", J::Int(scalar_int_to_i128(si, ty))));
                }
                ConstValue::Scalar(mir::interpret::Scalar::Ptr(ptr, _)) => {
                    let alloc_id = ptr.provenance.alloc_id();
                    match tcx.try_get_global_alloc(alloc_id) {
                        Some(mir::interpret::GlobalAlloc::Static(d)) => o.push(("static", s(dps(tcx, d)))),
                        Some(mir::interpret::GlobalAlloc::Function { instance }) => {
                            o.push(("fnptr", s(dps(tcx, instance.def_id()))))
                        }
                        Some(mir::interpret::GlobalAlloc::Memory(a)) => {
                            // byte-string literals: &[u8; N]
                            let is_bytes = match ty.kind() {
                                ty::Ref(_, inner, _) => match inner.kind() {
                                    ty::Array(et, _) => et.is_integral() && tys(*et) == "u8",
                                    _ => false,
                                },
                                _ => false,
                            };
                            if is_bytes {
                                let al = a.inner();
                                let (_, off) = ptr.into_raw_parts();
                                let start = off.bytes() as usize;
                                if start <= al.len() && al.provenance().ptrs().is_empty() {
                                    let bytes = al.inspect_with_uninit_and_ptr_outside_interpreter(start..al.len());
                                    o.push(("bytes", J::Arr(bytes.iter().map(|b| J::Int(*b as i128)).collect())));
                                }
                            }
                        }
                        _ => {}
                    }
                }
                ConstValue::ZeroSized => o.push(("zst", J::Bool(true))),
                ConstValue::Slice { .. } => {
                    if let Some(bytes) = v.try_get_slice_bytes_for_diagnostics(tcx) {
                        match std::str::from_utf8(bytes) {
                            Ok(st) => o.push(("str", s(st))),
                            Err(_) => o.push(("bytes", J::Arr(bytes.iter().map(|b| J::Int(*b as i128)).collect()))),
                        }
                    }
                }
                ConstValue::Indirect { .. } => {}
            }
        }
        J::Obj(o)
    }

    fn operand(&self, op: &Operand<'tcx>) -> J {
        match op {
            Operand::Copy(p) => J::Obj(vec![("k", s("copy")), ("place", self.place(*p))]),
            Operand::Move(p) => J::Obj(vec![("k", s("move")), ("place", self.place(*p))]),
            Operand::Constant(c) => self.konst(c),
            Operand::RuntimeChecks(rc) => J::Obj(vec![("k", s("runtime_checks")), ("which", s(format!("{:?}", rc)))]),
        }
    }

    fn rvalue(&self, rv: &Rvalue<'tcx>) -> J {
        let tcx = self.tcx;
        match rv {
            Rvalue::Use(op, _) => J::Obj(vec![("k", s("use")), ("op", self.operand(op))]),
            Rvalue::Repeat(op, n) => {
                let mut o = vec![("k", s("repeat")), ("op", self.operand(op)), ("count_disp", s(format!("{}", n)))];
                match n.kind() {
                    ty::ConstKind::Value(cv) => {
                        if let Some(si) = cv.try_to_leaf() {
                            o.push(("count", J::Int(si.to_bits_unchecked() as i128)));
                        }
                    }
                    ty::ConstKind::Param(p) => o.push(("count_param", s(p.name.to_string()))),
                    _ => {}
                }
                J::Obj(o)
            }
            Rvalue::Ref(_, bk, p) => J::Obj(vec![
                ("k", s("ref")),
                ("bk", s(match bk {
                    BorrowKind::Shared => "shared",
                    BorrowKind::Fake(_) => "fake",
                    BorrowKind::Mut { .. } => "mut",
                })),
                ("place", self.place(*p)),
            ]),
            Rvalue::ThreadLocalRef(d) => J::Obj(vec![("k", s("thread_local")), ("def", s(dps(tcx, *d)))]),
            Rvalue::RawPtr(k, p) => J::Obj(vec![("k", s("rawptr")), ("kind", s(format!("{:?}", k))), ("place", self.place(*p))]),
            Rvalue::Cast(ck, op, t) => J::Obj(vec![
                ("k", s("cast")),
                ("ck", s(match ck {
                    CastKind::PointerCoercion(pc, _) => format!("PointerCoercion({:?})", pc),
                    other => format!("{:?}", other),
                })),
                ("op", self.operand(op)),
                ("ty", s(tys(*t))),
            ]),
            Rvalue::BinaryOp(op, b) => J::Obj(vec![
                ("k", s("binop")),
                ("op", s(format!("{:?}", op))),
                ("l", self.operand(&b.0)),
                ("r", self.operand(&b.1)),
            ]),
            Rvalue::UnaryOp(op, x) => J::Obj(vec![("k", s("unop")), ("op", s(format!("{:?}", op))), ("x", self.operand(x))]),
            Rvalue::Discriminant(p) => J::Obj(vec![("k", s("discriminant")), ("place", self.place(*p))]),
            Rvalue::Aggregate(ak, fields) => {
                let mut o: Vec<(&'static str, J)> = vec![("k", s("aggregate"))];
                match &**ak {
                    AggregateKind::Array(t) => {
                        o.push(("ak", s("array")));
                        o.push(("elem_ty", s(tys(*t))));
                    }
                    AggregateKind::Tuple => o.push(("ak", s("tuple"))),
                    AggregateKind::Adt(d, vi, args, _, active) => {
                        o.push(("ak", s("adt")));
                        o.push(("adt", s(dps(tcx, *d))));
                        o.push(("adt_inst", s(dpsa(tcx, *d, args))));
                        let adt = tcx.adt_def(*d);
                        let v = adt.variant(*vi);
                        o.push(("variant", s(v.name.to_string())));
                        o.push(("vi", J::Int(vi.as_usize() as i128)));
                        o.push(("field_names", J::Arr(v.fields.iter().map(|f| s(f.name.to_string())).collect())));
                        if let Some(a) = active {
                            o.push(("active_field", J::Int(a.as_usize() as i128)));
                        }
                    }
                    AggregateKind::Closure(d, _) => {
                        o.push(("ak", s("closure")));
                        o.push(("closure", s(dps(tcx, *d))));
                    }
                    AggregateKind::Coroutine(d, _) | AggregateKind::CoroutineClosure(d, _) => {
                        o.push(("ak", s("coroutine")));
                        o.push(("closure", s(dps(tcx, *d))));
                    }
                    AggregateKind::RawPtr(t, _) => {
                        o.push(("ak", s("rawptr")));
                        o.push(("elem_ty", s(tys(*t))));
                    }
                }
                o.push(("fields", J::Arr(fields.iter().map(|f| self.operand(f)).collect())));
                J::Obj(o)
            }
            Rvalue::CopyForDeref(p) => J::Obj(vec![("k", s("copy_for_deref")), ("place", self.place(*p))]),
            Rvalue::WrapUnsafeBinder(op, t) => J::Obj(vec![("k", s("wrap_binder")), ("op", self.operand(op)), ("ty", s(tys(*t)))]),
        }
    }

    fn unwind(&self, u: &UnwindAction) -> J {
        match u {
            UnwindAction::Continue => s("continue"),
            UnwindAction::Unreachable => s("unreachable"),
            UnwindAction::Terminate(_) => s("terminate"),
            UnwindAction::Cleanup(b) => J::Int(b.as_usize() as i128),
        }
    }

    fn callee(&self, func: &Operand<'tcx>) -> J {
        let tcx = self.tcx;
        if let Some((d, args)) = func.const_fn_def() {
            self.callee_of(d, args)
        } else {
            J::Obj(vec![("indirect", self.operand(func)), ("fn_ty", s(tys(func.ty(self.body, tcx))))])
        }
    }

    fn callee_of(&self, d: DefId, args: ty::GenericArgsRef<'tcx>) -> J {
        let tcx = self.tcx;
        {
            let mut o: Vec<(&'static str, J)> = vec![
                ("def", s(dps(tcx, d))),
                ("inst", s(dpsa(tcx, d, args))),
                ("krate", s(tcx.crate_name(d.krate).to_string())),
                ("local", J::Bool(d.is_local())),
                ("gargs", J::Arr(args.iter().map(|a| s(show(a))).collect())),
            ];
            if let Some(tr) = tcx.trait_of_assoc(d) {
                o.push(("trait", s(dps(tcx, tr))));
            }
            if let Some(imp) = tcx.impl_of_assoc(d) {
                o.push(("impl_self", s(tys(tcx.type_of(imp).instantiate_identity().skip_norm_wip()))));
            }
            let env = TypingEnv::post_analysis(tcx, self.owner);
            let erased = tcx.erase_and_anonymize_regions(args);
            if let Ok(Some(inst)) = Instance::try_resolve(tcx, env, d, erased) {
                let rd = inst.def_id();
                o.push(("resolved", s(dps(tcx, rd))));
                o.push(("resolved_inst", s(dpsa(tcx, rd, inst.args))));
                o.push(("resolved_local", J::Bool(rd.is_local())));
                o.push(("resolved_kind", s(match inst.def {
                    ty::InstanceKind::Item(_) => "item".to_string(),
                    other => format!("{:?}", other).split('(').next().unwrap_or("").to_string(),
                })));
            }
            J::Obj(o)
        }
    }

    fn body_json(&self, id: String, kind: &str, promoted: Option<usize>) -> J {
        let tcx = self.tcx;
        let body = self.body;
        let (file, line) = loc(tcx, body.span);
        let mut locals = Vec::new();
        for (_l, d) in body.local_decls.iter_enumerated() {
            locals.push(J::Obj(vec![("ty", s(tys(d.ty))), ("mut", J::Bool(d.mutability.is_mut()))]));
        }
        let mut names = Vec::new();
        for vdi in &body.var_debug_info {
            if let mir::VarDebugInfoContents::Place(p) = vdi.value {
                names.push(J::Obj(vec![("name", s(vdi.name.to_string())), ("place", self.place(p))]));
            }
        }
        let mut blocks = Vec::new();
        for (_bb, data) in body.basic_blocks.iter_enumerated() {
            let mut stmts = Vec::new();
            for st in &data.statements {
                let (_f, ln) = loc(tcx, st.source_info.span);
                match &st.kind {
                    StatementKind::Assign(b) => {
                        let (p, rv) = &**b;
                        stmts.push(J::Obj(vec![
                            ("k", s("assign")),
                            ("place", self.place(*p)),
                            ("rv", self.rvalue(rv)),
                            ("ln", J::Int(ln)),
                            ("exp", J::Bool(st.source_info.span.from_expansion())),
                        ]));
                    }
                    StatementKind::SetDiscriminant { place, variant_index } => stmts.push(J::Obj(vec![
                        ("k", s("set_discriminant")),
                        ("place", self.place(**place)),
                        ("vi", J::Int(variant_index.as_usize() as i128)),
                        ("ln", J::Int(ln)),
                    ])),
                    StatementKind::Intrinsic(i) => stmts.push(J::Obj(vec![("k", s("intrinsic")), ("what", s(format!("{:?}", i))), ("ln", J::Int(ln))])),
                    _ => {}
                }
            }
            let term = data.terminator();
            let (tf, tln) = loc(tcx, term.source_info.span);
            let mut t: Vec<(&'static str, J)> = vec![("ln", J::Int(tln)), ("exp", J::Bool(term.source_info.span.from_expansion()))];
            if tf != file {
                t.push(("file", s(tf)));
            }
            let bbi = |b: BasicBlock| J::Int(b.as_usize() as i128);
            match &term.kind {
                TerminatorKind::Goto { target } => {
                    t.push(("k", s("goto")));
                    t.push(("target", bbi(*target)));
                }
                TerminatorKind::SwitchInt { discr, targets } => {
                    t.push(("k", s("switch")));
                    t.push(("discr", self.operand(discr)));
                    t.push(("discr_ty", s(tys(discr.ty(body, tcx)))));
                    t.push(("targets", J::Arr(targets.iter().map(|(v, b)| J::Arr(vec![J::Int(v as i128), bbi(b)])).collect())));
                    t.push(("otherwise", bbi(targets.otherwise())));
                }
                TerminatorKind::UnwindResume => t.push(("k", s("resume"))),
                TerminatorKind::UnwindTerminate(_) => t.push(("k", s("terminate"))),
                TerminatorKind::Return => t.push(("k", s("return"))),
                TerminatorKind::Unreachable => t.push(("k", s("unreachable"))),
                TerminatorKind::Drop { place, target, unwind, .. } => {
                    t.push(("k", s("drop")));
                    t.push(("place", self.place(*place)));
                    t.push(("target", bbi(*target)));
                    t.push(("unwind", self.unwind(unwind)));
                }
                TerminatorKind::Call { func, args, destination, target, unwind, fn_span, .. } => {
                    t.push(("k", s("call")));
                    t.push(("callee", self.callee(func)));
                    t.push(("args", J::Arr(args.iter().map(|a| self.operand(&a.node)).collect())));
                    t.push(("dest", self.place(*destination)));
                    t.push(("target", match target {
                        Some(b) => bbi(*b),
                        None => J::Null,
                    }));
                    t.push(("unwind", self.unwind(unwind)));
                    let (_f2, l2) = loc(tcx, *fn_span);
                    t.push(("fn_ln", J::Int(l2)));
                }
                TerminatorKind::TailCall { func, args, .. } => {
                    t.push(("k", s("tailcall")));
                    t.push(("callee", self.callee(func)));
                    t.push(("args", J::Arr(args.iter().map(|a| self.operand(&a.node)).collect())));
                }
                TerminatorKind::Assert { cond, expected, msg, target, unwind } => {
                    t.push(("k", s("assert")));
                    t.push(("cond", self.operand(cond)));
                    t.push(("expected", J::Bool(*expected)));
                    let (kind, ops): (String, Vec<J>) = match &**msg {
                        AssertKind::BoundsCheck { len, index } => ("BoundsCheck".into(), vec![self.operand(len), self.operand(index)]),
                        AssertKind::Overflow(op, a, b) => (format!("Overflow({:?})", op), vec![self.operand(a), self.operand(b)]),
                        AssertKind::OverflowNeg(a) => ("OverflowNeg".into(), vec![self.operand(a)]),
                        AssertKind::DivisionByZero(a) => ("DivisionByZero".into(), vec![self.operand(a)]),
                        AssertKind::RemainderByZero(a) => ("RemainderByZero".into(), vec![self.operand(a)]),
                        other => (format!("{:?}", other).split(|c| c == '(' || c == ' ' || c == '{').next().unwrap_or("").to_string(), vec![]),
                    };
                    t.push(("msg", s(kind)));
                    t.push(("msg_ops", J::Arr(ops)));
                    t.push(("target", bbi(*target)));
                    t.push(("unwind", self.unwind(unwind)));
                }
                TerminatorKind::FalseEdge { real_target, .. } => {
                    t.push(("k", s("goto")));
                    t.push(("target", bbi(*real_target)));
                }
                TerminatorKind::FalseUnwind { real_target, .. } => {
                    t.push(("k", s("goto")));
                    t.push(("target", bbi(*real_target)));
                }
                TerminatorKind::Yield { .. } => t.push(("k", s("yield"))),
                TerminatorKind::CoroutineDrop => t.push(("k", s("coroutine_drop"))),
                TerminatorKind::InlineAsm { .. } => t.push(("k", s("inline_asm"))),
            }
            blocks.push(J::Obj(vec![("cleanup", J::Bool(data.is_cleanup)), ("stmts", J::Arr(stmts)), ("term", J::Obj(t))]));
        }
        let mut o: Vec<(&'static str, J)> = vec![
            ("id", s(id)),
            ("kind", s(kind)),
            ("file", s(file)),
            ("line", J::Int(line)),
            ("arg_count", J::Int(body.arg_count as i128)),
            ("locals", J::Arr(locals)),
            ("names", J::Arr(names)),
            ("blocks", J::Arr(blocks)),
            ("from_expansion", J::Bool(body.span.from_expansion())),
        ];
        if let Some(p) = promoted {
            o.push(("promoted", J::Int(p as i128)));
        }
        J::Obj(o)
    }
}

fn scalar_int_to_i128(si: ty::ScalarInt, ty: Ty<'_>) -> i128 {
    let size = si.size();
    let bits = si.to_bits(size);
    if ty.is_signed() {
        size.sign_extend(bits) as i128
    } else {
        bits as i128
    }
}

fn vis_str(tcx: TyCtxt<'_>, d: DefId) -> String {
    match tcx.visibility(d) {
        ty::Visibility::Public => "pub".to_string(),
        ty::Visibility::Restricted(m) => {
            if m.is_top_level_module() {
                "crate".to_string()
            } else {
                format!("in {}", dps(tcx, m))
            }
        }
    }
}

fn generics_json(tcx: TyCtxt<'_>, d: DefId) -> J {
    let g = tcx.generics_of(d);
    let mut v = Vec::new();
    for p in &g.own_params {
        v.push(J::Obj(vec![
            ("name", s(p.name.to_string())),
            ("kind", s(match p.kind {
                ty::GenericParamDefKind::Lifetime => "lifetime",
                ty::GenericParamDefKind::Type { .. } => "type",
                ty::GenericParamDefKind::Const { .. } => "const",
            })),
        ]));
    }
    J::Arr(v)
}

fn predicates_json(tcx: TyCtxt<'_>, d: DefId) -> J {
    let preds = tcx.predicates_of(d);
    let mut v = Vec::new();
    for (p, _) in preds.predicates {
        v.push(s(show(p)));
    }
    J::Arr(v)
}

fn dump(tcx: TyCtxt<'_>) -> J {
    let mut bodies = Vec::new();
    for ld in tcx.mir_keys(()).iter() {
        let ld: LocalDefId = *ld;
        let d = ld.to_def_id();
        let kind = tcx.def_kind(d);
        let kind_s = format!("{:?}", kind);
        let is_fn_like = matches!(kind, DefKind::Fn | DefKind::AssocFn | DefKind::Closure | DefKind::Ctor(..));
        if matches!(kind, DefKind::Ctor(..)) {
            continue;
        }
        let body: &Body<'_> = if is_fn_like {
            tcx.optimized_mir(d)
        } else if matches!(kind, DefKind::Const { .. } | DefKind::AssocConst { .. } | DefKind::Static { .. } | DefKind::AnonConst | DefKind::InlineConst) {
            // mir_for_ctfe is what const-eval reads; generic anon consts may not be evaluatable but have MIR
            tcx.mir_for_ctfe(d)
        } else {
            continue;
        };
        let cx = Cx { tcx, body, owner: d };
        let mut j = cx.body_json(dps(tcx, d), &kind_s, None);
        if let J::Obj(o) = &mut j {
            if matches!(kind, DefKind::Fn | DefKind::AssocFn) {
                o.push(("vis", s(vis_str(tcx, d))));
                let sig = tcx.fn_sig(d).instantiate_identity().skip_norm_wip();
                o.push(("sig", s(show(sig))));
                o.push(("generics", generics_json(tcx, d)));
                o.push(("predicates", predicates_json(tcx, d)));
            }
            if let Some(imp) = tcx.impl_of_assoc(d) {
                o.push(("impl", s(dps(tcx, imp))));
                o.push(("impl_self", s(tys(tcx.type_of(imp).instantiate_identity().skip_norm_wip()))));
                o.push(("impl_predicates", predicates_json(tcx, imp)));
                o.push(("impl_generics", generics_json(tcx, imp)));
                if let Some(tr) = tcx.impl_opt_trait_ref(imp) {
                    o.push(("impl_trait", s(show(tr.instantiate_identity().skip_norm_wip().print_only_trait_path()))));
                }
            }
            if let Some(tr) = tcx.trait_of_assoc(d) {
                o.push(("trait_default_of", s(dps(tcx, tr))));
            }
            if kind == DefKind::Closure {
                o.push(("parent", s(dps(tcx, tcx.parent(d)))));
            }
            o.push(("name", s(tcx.opt_item_name(d).map(|n| n.to_string()).unwrap_or_default())));
        }
        bodies.push(j);
        if is_fn_like || matches!(kind, DefKind::Const { .. } | DefKind::AssocConst { .. } | DefKind::Static { .. }) {
            let proms = tcx.promoted_mir(d);
            for (pi, pb) in proms.iter_enumerated() {
                let cx = Cx { tcx, body: pb, owner: d };
                let mut j = cx.body_json(format!("{}::promoted[{}]", dps(tcx, d), pi.as_usize()), "Promoted", Some(pi.as_usize()));
                if let J::Obj(o) = &mut j {
                    o.push(("parent", s(dps(tcx, d))));
                }
                bodies.push(j);
            }
        }
    }

    let ev = tcx.effective_visibilities(());
    let mut adts = Vec::new();
    let mut impls = Vec::new();
    let mut api = Vec::new();
    let mut traits = Vec::new();
    for ld in tcx.hir_crate_items(()).definitions() {
        let d = ld.to_def_id();
        let kind = tcx.def_kind(d);
        let (file, line) = loc(tcx, tcx.def_span(d));
        match kind {
            DefKind::Struct | DefKind::Enum | DefKind::Union => {
                let adt = tcx.adt_def(d);
                let mut variants = Vec::new();
                for v in adt.variants() {
                    let mut fields = Vec::new();
                    for f in &v.fields {
                        fields.push(J::Obj(vec![
                            ("name", s(f.name.to_string())),
                            ("ty", s(tys(tcx.type_of(f.did).instantiate_identity().skip_norm_wip()))),
                            ("vis", s(match f.vis {
                                ty::Visibility::Public => "pub".to_string(),
                                ty::Visibility::Restricted(m) => {
                                    if m.is_top_level_module() { "crate".to_string() } else { format!("in {}", dps(tcx, m)) }
                                }
                            })),
                        ]));
                    }
                    variants.push(J::Obj(vec![("name", s(v.name.to_string())), ("fields", J::Arr(fields))]));
                }
                adts.push(J::Obj(vec![
                    ("path", s(dps(tcx, d))),
                    ("kind", s(format!("{:?}", kind))),
                    ("vis", s(vis_str(tcx, d))),
                    ("reachable", J::Bool(ev.is_reachable(ld))),
                    ("non_exhaustive", J::Bool(adt.is_variant_list_non_exhaustive())),
                    ("generics", generics_json(tcx, d)),
                    ("predicates", predicates_json(tcx, d)),
                    ("variants", J::Arr(variants)),
                    ("file", s(file.clone())),
                    ("line", J::Int(line)),
                ]));
            }
            DefKind::Trait => {
                traits.push(J::Obj(vec![
                    ("path", s(dps(tcx, d))),
                    ("vis", s(vis_str(tcx, d))),
                    ("reachable", J::Bool(ev.is_reachable(ld))),
                    ("predicates", predicates_json(tcx, d)),
                    ("file", s(file.clone())),
                    ("line", J::Int(line)),
                ]));
            }
            DefKind::Impl { of_trait } => {
                let self_ty = tcx.type_of(d).instantiate_identity().skip_norm_wip();
                let mut o: Vec<(&'static str, J)> = vec![
                    ("path", s(dps(tcx, d))),
                    ("self_ty", s(tys(self_ty))),
                    ("of_trait", J::Bool(of_trait)),
                    ("generics", generics_json(tcx, d)),
                    ("predicates", predicates_json(tcx, d)),
                    ("file", s(file.clone())),
                    ("line", J::Int(line)),
                ];
                if let ty::Adt(adt, args) = self_ty.kind() {
                    o.push(("self_adt", s(dps(tcx, adt.did()))));
                    o.push(("self_args", J::Arr(args.iter().map(|a| s(show(a))).collect())));
                }
                if let Some(tr) = tcx.impl_opt_trait_ref(d) {
                    let tr = tr.instantiate_identity().skip_norm_wip();
                    o.push(("trait", s(dps(tcx, tr.def_id))));
                    o.push(("trait_ref", s(show(tr.print_only_trait_path()))));
                    o.push(("trait_args", J::Arr(tr.args.iter().skip(1).map(|a| s(show(a))).collect())));
                }
                let mut items = Vec::new();
                for it in tcx.associated_items(d).in_definition_order() {
                    let mut io: Vec<(&'static str, J)> = vec![("name", s(it.name().to_string())), ("kind", s(format!("{:?}", it.kind).split(|c| c == ' ' || c == '{' || c == '(').next().unwrap_or("").to_string()))];
                    if it.is_fn() {
                        let sig = tcx.fn_sig(it.def_id).instantiate_identity().skip_norm_wip();
                        io.push(("sig", s(show(sig))));
                        io.push(("vis", s(vis_str(tcx, it.def_id))));
                        io.push(("path", s(dps(tcx, it.def_id))));
                        if let Some(l) = it.def_id.as_local() {
                            io.push(("reachable", J::Bool(ev.is_reachable(l))));
                        }
                    }
                    items.push(J::Obj(io));
                }
                o.push(("items", J::Arr(items)));
                impls.push(J::Obj(o));
            }
            _ => {}
        }
        if ev.is_reachable(ld) {
            let mut o: Vec<(&'static str, J)> = vec![("path", s(dps(tcx, d))), ("kind", s(format!("{:?}", kind)))];
            if matches!(kind, DefKind::Fn | DefKind::AssocFn) {
                let sig = tcx.fn_sig(d).instantiate_identity().skip_norm_wip();
                o.push(("sig", s(show(sig))));
                o.push(("predicates", predicates_json(tcx, d)));
            }
            if matches!(kind, DefKind::Variant) {
                o.push(("parent", s(dps(tcx, tcx.parent(d)))));
            }
            api.push(J::Obj(o));
        }
    }
    let _ = with_forced_trimmed_paths!(0);
    J::Obj(vec![
        ("crate", s(tcx.crate_name(rustc_hir::def_id::LOCAL_CRATE).to_string())),
        ("config", s(std::env::var("PVFACTS_CONFIG").unwrap_or_default())),
        ("tree_hash", s(std::env::var("PVFACTS_TREE_HASH").unwrap_or_default())),
        ("bodies", J::Arr(bodies)),
        ("adts", J::Arr(adts)),
        ("traits", J::Arr(traits)),
        ("impls", J::Arr(impls)),
        ("api", J::Arr(api)),
    ])
}

struct Cb;
impl rustc_driver::Callbacks for Cb {
    fn after_analysis<'tcx>(&mut self, _c: &Compiler, tcx: TyCtxt<'tcx>) -> Compilation {
        let want = std::env::var("PVFACTS_CRATE").unwrap_or_else(|_| "rusty_paseto".to_string());
        let name = tcx.crate_name(rustc_hir::def_id::LOCAL_CRATE).to_string();
        // only the library target (cargo check --lib), not build scripts or tests of other crates
        if name == want && tcx.dcx().has_errors().is_none() {
            if let Ok(out) = std::env::var("PVFACTS_OUT") {
                let j = dump(tcx);
                let mut st = String::with_capacity(1 << 24);
                j.write(&mut st);
                st.push('\n');
                // single write: parallel rustc processes never interleave (one file per process anyway)
                let tmp = format!("{}.tmp.{}", out, std::process::id());
                std::fs::write(&tmp, st).expect("pvfacts: cannot write fact file");
                std::fs::rename(&tmp, &out).expect("pvfacts: cannot rename fact file");
            }
        }
        Compilation::Continue
    }
}

fn main() {
    let mut args: Vec<String> = std::env::args().collect();
    // RUSTC_WORKSPACE_WRAPPER protocol: argv[1] is the real rustc
    if args.len() > 1 && (args[1].ends_with("rustc") || args[1].contains("/rustc")) {
        args.remove(1);
    }
    let code = rustc_driver::catch_with_exit_code(|| rustc_driver::run_compiler(&args, &mut Cb));
    std::process::exit(if code == std::process::ExitCode::SUCCESS { 0 } else { 1 });
}
