"""E6/E7 - path-sensitive abstract interpretation of MIR bodies over finite partitions and affine lengths.

Nothing is executed: bodies are interpreted over abstract values
  Aff      affine integer expression over symbols with interval bounds kept in the state
  Bits     (sym >> shift) & mask   (bit-slice domain, for the PAE little-endian encoder)
  BoolV    concrete bool;  SymBool  opaque condition (forked on)
  StrV     concrete string / bytes
  Seq      sequence (slice / Vec / String / array) with an affine length and optional element / chunk knowledge
  Struct   ADT / tuple / Option / Result value with named fields
  Ptr      reference to a store cell + projection path
  Sym      opaque value; may carry a finite class domain (partition) refined by forks
  Top      unknown
Branches on unknown conditions fork the state; the result of `run` is the list of path outcomes.
External callees are interpreted by the model table of rules/models.py; a callee without a model returns Top
and is recorded in the outcome (`unmodelled`), so that a verdict never silently depends on it.
"""
import itertools
import re

from . import mir as M

USIZE_MAX = (1 << 64) - 1
LEN_MAX = (1 << 63) - 1


# ------------------------------------------------------------------ values
class Val:
    pass


class Top(Val):
    def __init__(self, why=""):
        self.why = why

    def __repr__(self):
        return "T(%s)" % self.why


class Aff(Val):
    """sum(coef * sym) + const ; syms are strings"""
    __slots__ = ("terms", "const", "ty")

    def __init__(self, const=0, terms=None, ty="usize"):
        self.const = const
        self.terms = dict((k, v) for k, v in (terms or {}).items() if v != 0)
        self.ty = ty

    @staticmethod
    def sym(name, ty="usize"):
        return Aff(0, {name: 1}, ty)

    def is_const(self):
        return not self.terms

    def add(self, o):
        t = dict(self.terms)
        for k, v in o.terms.items():
            t[k] = t.get(k, 0) + v
        return Aff(self.const + o.const, t, self.ty)

    def neg(self):
        return Aff(-self.const, {k: -v for k, v in self.terms.items()}, self.ty)

    def sub(self, o):
        return self.add(o.neg())

    def scale(self, c):
        return Aff(self.const * c, {k: v * c for k, v in self.terms.items()}, self.ty)

    def key(self):
        return (self.const, tuple(sorted(self.terms.items())))

    def __eq__(self, o):
        return isinstance(o, Aff) and self.key() == o.key()

    def __hash__(self):
        return hash(self.key())

    def __repr__(self):
        if not self.terms:
            return str(self.const)
        s = " + ".join(("%s" % k if v == 1 else "%d*%s" % (v, k)) for k, v in sorted(self.terms.items()))
        if self.const:
            s += " %s %d" % ("+" if self.const > 0 else "-", abs(self.const))
        return s


class Bits(Val):
    """(src >> shift) & mask, src is an Aff (usually a single symbol)"""

    def __init__(self, src, shift=0, mask=USIZE_MAX, ty="u64"):
        self.src, self.shift, self.mask, self.ty = src, shift, mask, ty

    def key(self):
        return (self.src.key(), self.shift, self.mask)

    def __eq__(self, o):
        return isinstance(o, Bits) and self.key() == o.key()

    def __hash__(self):
        return hash(self.key())

    def __repr__(self):
        return "((%r >> %d) & %#x)" % (self.src, self.shift, self.mask)


class BoolV(Val):
    def __init__(self, b):
        self.b = bool(b)

    def __repr__(self):
        return "true" if self.b else "false"


class SymBool(Val):
    def __init__(self, desc, key=None):
        self.desc = desc
        self.key = key or desc

    def __repr__(self):
        return "?(%s)" % (self.desc,)


class StrV(Val):
    def __init__(self, s):
        self.s = s

    def __repr__(self):
        return repr(self.s)


class Seq(Val):
    """kind in {str, bytes, vec, array, slice}; length Aff; elems (list of Val) or chunks (list) when known"""

    def __init__(self, name, length, elems=None, chunks=None, attrs=None, kind="bytes"):
        self.name, self.length, self.elems, self.chunks, self.attrs, self.kind = name, length, elems, chunks, dict(attrs or {}), kind

    def __repr__(self):
        if self.elems is not None:
            return "[%s]" % ", ".join(repr(e) for e in self.elems)
        if self.chunks is not None:
            return "chunks%r" % (self.chunks,)
        return "seq(%s, len=%r%s)" % (self.name, self.length, (", " + repr(self.attrs)) if self.attrs else "")


class Struct(Val):
    def __init__(self, adt, variant=None, fields=None):
        self.adt, self.variant, self.fields = adt, variant, dict(fields or {})

    def __repr__(self):
        n = self.adt.split("::")[-1] if self.adt else "?"
        v = ("::" + self.variant) if self.variant and self.variant != n else ""
        if not self.fields:
            return n + v
        return "%s%s{%s}" % (n, v, ", ".join("%s: %r" % kv for kv in self.fields.items()))


class Ptr(Val):
    def __init__(self, cell, path=()):
        self.cell, self.path = cell, tuple(path)

    def __repr__(self):
        return "&c%d%s" % (self.cell, "".join("." + str(p) for p in self.path))


class Sym(Val):
    _ids = itertools.count()

    def __init__(self, name, ty="", classes=None, attrs=None):
        self.name, self.ty = name, ty
        self.classes = classes    # None or frozenset of class tags
        self.attrs = dict(attrs or {})
        self.id = next(Sym._ids)

    def __repr__(self):
        return "$%s%s" % (self.name, ("{" + "|".join(sorted(self.classes)) + "}") if self.classes else "")


class FnV(Val):
    def __init__(self, kind, defn, captures=None):
        self.kind, self.defn, self.captures = kind, defn, captures or []

    def __repr__(self):
        return "%s %s" % (self.kind, M.short(self.defn))


def some(v):
    return Struct("core::option::Option", "Some", {"0": v})


def none():
    return Struct("core::option::Option", "None", {})


def ok(v):
    return Struct("core::result::Result", "Ok", {"0": v})


def err(v):
    return Struct("core::result::Result", "Err", {"0": v})


UNIT = Struct("(tuple)", None, {})


# ------------------------------------------------------------------ state
class State:
    def __init__(self):
        self.store = {}        # cell id -> Val
        self.next_cell = 0
        self.bounds = {}       # sym -> (lo, hi)
        self.cond = []         # human readable path condition
        self.facts = {}        # arbitrary refinement facts: key -> value
        self.events = []       # modelled effects: (name, detail...)
        self.unmodelled = []   # callee names that returned Top
        self.notes = []
        self.symfields = {}    # (sym id, field) -> Val   lazily materialised fields of opaque structs
        self.refine = {}       # sym id -> Val (a Sym refined to a concrete shape)
        self.visits = {}
        self.eqs = []          # affine expressions known to be zero (multi-symbol equalities)
        self.sumle = {}        # symbol-name prefix -> bound: any sum of distinct symbols with that prefix is at most the bound

    def clone(self):
        s = State()
        s.store = dict(self.store)
        s.next_cell = self.next_cell
        s.bounds = dict(self.bounds)
        s.cond = list(self.cond)
        s.facts = dict(self.facts)
        s.events = list(self.events)
        s.unmodelled = list(self.unmodelled)
        s.notes = list(self.notes)
        s.symfields = dict(self.symfields)
        s.refine = dict(self.refine)
        s.visits = dict(self.visits)
        s.eqs = list(self.eqs)
        s.sumle = dict(self.sumle)
        return s

    def new_cell(self, v):
        c = self.next_cell
        self.next_cell += 1
        self.store[c] = v
        return c

    # intervals -----------------------------------------------------------
    def bound(self, sym):
        return self.bounds.get(sym, (0, LEN_MAX))

    def range_of(self, a):
        lo = hi = a.const
        for k, c in a.terms.items():
            l, h = self.bound(k)
            if c > 0:
                lo += c * l
                hi += c * h
            else:
                lo += c * h
                hi += c * l
        if self.sumle and len(a.terms) > 1:
            for pre, bound in self.sumle.items():
                if all(c == 1 and k.startswith(pre) for k, c in a.terms.items()):
                    hi = min(hi, bound + a.const)
        return lo, hi


class Outcome:
    def __init__(self, kind, state, value=None, site=None):
        self.kind = kind      # return / panic / abort
        self.state = state
        self.value = value
        self.site = site

    def __repr__(self):
        return "%s %r if %s" % (self.kind, self.value if self.kind == "return" else self.site, " & ".join(self.state.cond))


class Frame:
    def __init__(self, body, view, consts=None, tparams=None):
        self.body = body
        self.view = view
        self.consts = consts or {}
        self.tparams = tparams or {}
        self.cells = []
        self.block = 0
        self.stmt = 0


class Panic(Exception):
    pass


class Abort(Exception):
    def __init__(self, why):
        self.why = why


# ------------------------------------------------------------------ interpreter
class Interp:
    def __init__(self, facts, models, max_depth=14, max_paths=4000, loop_unroll=40, sym_loop_unroll=2, on_site=None, stubs=()):
        self.facts = facts
        self.models = models          # list of (compiled regex, handler)
        self.stubs = [re.compile(x) for x in stubs]   # crate-local callees summarised as events (returning their receiver)
        self.fn_stubs = []            # (compiled regex, fn(interp, state, args) -> value): crate-local callees replaced by a summary value
        self.generic_pipelines = False   # opt-in: iterator chains over opaque collections are summarised per element (rules/models.py)
        self.max_depth = max_depth
        self.max_paths = max_paths
        self.loop_unroll = loop_unroll
        self.sym_loop_unroll = sym_loop_unroll
        self.on_site = on_site        # callback(kind, info, state, frame) -> for panic-site inventory
        self.paths = 0
        self.sites = {}               # site key -> {"ok": n, "fail": [...]}

    # -- entry --------------------------------------------------------------
    def run(self, body, args, state=None):
        """Interpret `body` with argument values; returns list of Outcome."""
        st = state or State()
        outs = []
        self.paths = 0
        for s2, kind, val in self._call_body(st, body, args, 0):
            outs.append(Outcome(kind, s2, val if kind != "panic" else None, val if kind == "panic" else None))
        return outs

    # -- memory ---------------------------------------------------------------
    def resolve(self, st, v):
        guard = 0
        while isinstance(v, Sym) and v.id in st.refine and guard < 10:
            v = st.refine[v.id]
            guard += 1
        return v

    def get_path(self, st, v, path):
        v = self.resolve(st, v)
        for p in path:
            v = self.project(st, v, p)
            v = self.resolve(st, v)
        return v

    def project(self, st, v, p):
        v = self.resolve(st, v)
        if isinstance(p, tuple) and p and p[0] == "subslice":
            # `[a, b, rest @ ..]`: the elements from `from` on (without the last `to` ones when counted from the end)
            _k, frm, to, from_end = p
            if isinstance(v, Seq):
                if v.elems is not None:
                    e = v.elems[frm:len(v.elems) - to] if from_end else v.elems[frm:to]
                    return Seq("%s[%d..]" % (v.name, frm), Aff(len(e)), list(e), None, v.attrs, v.kind)
                ln = v.length.sub(Aff(frm + to)) if from_end else Aff(to - frm)
                at = dict(v.attrs)
                bn, off = v.attrs.get("elem_base", (v.name, 0))
                at["elem_base"] = (bn, off + frm)
                return Seq("%s[%d..%s]" % (bn, off + frm, ("-%d" % to) if (from_end and to) else ("" if from_end else str(off + to))), ln, None, None, at, v.kind)
            return Top("subslice of %r" % (v,))
        if isinstance(p, tuple) and p and p[0] == "range":
            if isinstance(v, Seq):
                return Seq("%s[%r..%r]" % (v.name, p[1], p[2]), p[2].sub(p[1]), kind="bytes")
            return Top("range of %r" % (v,))
        if isinstance(v, Struct):
            if p in v.fields:
                return v.fields[p]
            if isinstance(p, str) and p.startswith("@"):
                return v
            if v.adt == "MapV" and p == "0":
                # a private newtype around the map (struct Claims(HashMap<..>)) given a concrete map by the analysis: the wrapper's
                # only field is the map
                return v
            # a field of the type that the analysis did not give a value (e.g. one added to the struct): unknown initial value
            ad = self.facts.adts.get(v.adt) if v.variant is None else None
            if ad and ad.get("variants"):
                for fd in ad["variants"][0]["fields"]:
                    if fd["name"] == p:
                        at = {"adt": "core::option::Option"} if fd["ty"].startswith("core::option::Option<") else None
                        v.fields[p] = Sym("self.%s" % p, fd["ty"], attrs=at)
                        return v.fields[p]
            return Top("no field %s in %r" % (p, v))
        if isinstance(v, Seq) and isinstance(p, int):
            if v.elems is not None and 0 <= p < len(v.elems):
                return v.elems[p]
            k = (("seq", v.name), p)
            if k not in st.symfields:
                st.symfields[k] = self.seq_elem(st, v, p)
            return st.symfields[k]
        if isinstance(v, Sym):
            if isinstance(p, str) and p.startswith("@"):
                return v
            k = (v.id, p)
            if k not in st.symfields:
                # the internals of an opaque owning pointer (Box -> Unique -> NonNull -> pointer, as MIR spells `*boxed`) stand for the
                # value itself: what is known about it is kept
                keep = v.attrs if (p in ("0", "pointer") and v.attrs and not (set(v.attrs) & {"adt", "make_variant"})) else None
                st.symfields[k] = Sym("%s.%s" % (v.name, p), "", attrs=keep)
            return st.symfields[k]
        if isinstance(v, Top):
            return Top(v.why)
        if isinstance(v, (Ptr, Seq, StrV)) and p in ("0", "pointer"):
            # the internals of an owning pointer (Box -> Unique -> NonNull -> pointer) modelled by what it points to
            return v
        return Top("project %s of %r" % (p, v))

    def seq_elem(self, st, seq, i):
        et = seq.attrs.get("elem")
        nm = seq.name
        if seq.attrs.get("elem_base") is not None and isinstance(i, int) and i >= 0:
            nm, off = seq.attrs["elem_base"]      # an element of `rest @ ..` is an element of the whole sequence
            i = off + i
        if et == "str":
            return Seq("%s[%s]" % (nm, i), Aff.sym("len(%s[%s])" % (nm, i)), kind="str", attrs=seq.attrs.get("elem_attrs"))
        return Sym("%s[%s]" % (nm, i))

    def set_path(self, st, v, path, new):
        if not path:
            return new
        v = self.resolve(st, v)
        p = path[0]
        if isinstance(p, tuple) and p and p[0] == "range" and isinstance(v, Seq) and len(path) == 1:
            attrs = dict(v.attrs)
            attrs["writes"] = list(attrs.get("writes", [])) + [(p[1], p[2], new)]
            return Seq(v.name, v.length, v.elems, v.chunks, attrs, v.kind)
        if isinstance(v, Struct) and v.adt == "MapV" and p == "0":
            return self.set_path(st, v, path[1:], new)
        if isinstance(v, Struct):
            f = dict(v.fields)
            f[p] = self.set_path(st, v.fields.get(p, Top("uninit")), path[1:], new)
            return Struct(v.adt, v.variant, f)
        if isinstance(v, Seq) and isinstance(p, int) and v.elems is not None and 0 <= p < len(v.elems):
            e = list(v.elems)
            e[p] = self.set_path(st, e[p], path[1:], new)
            return Seq(v.name, v.length, e, None, v.attrs, v.kind)
        if isinstance(v, Sym):
            # opaque struct: remember the written field
            if isinstance(p, str) and p.startswith("@"):
                return self.set_path(st, v, path[1:], new)
            cur = self.project(st, v, p)
            st.symfields[(v.id, p)] = self.set_path(st, cur, path[1:], new)
            return v
        if isinstance(v, Top) or v is None:
            return Struct("(partial)", None, {p: self.set_path(st, Top("uninit"), path[1:], new)})
        return Top("set_path into %r" % (v,))

    def load(self, st, ptr):
        return self.get_path(st, st.store.get(ptr.cell, Top("dangling")), ptr.path)

    def store_to(self, st, ptr, v):
        st.store[ptr.cell] = self.set_path(st, st.store.get(ptr.cell, Top("uninit")), ptr.path, v)

    # place -> (cell, path)
    def place_ref(self, st, fr, pl):
        cell = fr.cells[pl["l"]]
        path = ()
        for pr in pl["p"]:
            k = pr["k"]
            if k == "deref":
                cur = self.get_path(st, st.store.get(cell), path)
                cur = self.resolve(st, cur)
                if isinstance(cur, Ptr):
                    cell, path = cur.cell, cur.path
                else:
                    # unknown pointee: materialise a cell for it
                    # the pointee of an opaque pointer-like value (Box, &dyn ..) keeps what is known about that value
                    tgt = Sym("*" + (cur.name if isinstance(cur, Sym) else "p%d" % cell), attrs=(cur.attrs if isinstance(cur, Sym) else None)) if not isinstance(cur, (Seq, Struct, StrV, FnV)) else cur
                    if isinstance(cur, (Seq, Struct, StrV, FnV)):
                        # a reference-typed value modelled by its referent (slices, strs): deref is the identity
                        nc = st.new_cell(cur)
                    else:
                        nc = st.new_cell(tgt)
                    newptr = Ptr(nc, ())
                    st.store[cell] = self.set_path(st, st.store.get(cell), path, newptr)
                    if isinstance(cur, Sym):
                        st.refine[cur.id] = newptr
                    cell, path = nc, ()
            elif k == "field":
                path = path + (pr.get("name", str(pr["i"])),)
            elif k == "downcast":
                path = path + ("@" + str(pr["variant"]),)
            elif k == "index":
                iv = self.resolve(st, self.load(st, Ptr(fr.cells[pr["l"]])))
                if isinstance(iv, Aff) and iv.is_const():
                    path = path + (iv.const,)
                else:
                    path = path + ("[?]",)
            elif k == "cidx":
                path = path + ((-pr["offset"] if pr["from_end"] else pr["offset"]),)
            elif k == "subslice":
                path = path + (("subslice", pr["from"], pr["to"], bool(pr["from_end"])),)
            else:
                path = path + ("<%s>" % k,)
        path = tuple(p for p in path if not (isinstance(p, str) and p.startswith("@")))
        return cell, path

    def read_place(self, st, fr, pl):
        cell, path = self.place_ref(st, fr, pl)
        return self.get_path(st, st.store.get(cell, Top("uninit")), path)

    def write_place(self, st, fr, pl, v):
        cell, path = self.place_ref(st, fr, pl)
        st.store[cell] = self.set_path(st, st.store.get(cell, Top("uninit")), path, v)

    # -- operands / rvalues ---------------------------------------------------------
    def const_val(self, st, fr, op):
        ty = op.get("ty", "")
        if "str" in op:
            if ty.startswith("&[u8") or ty.startswith("&&[u8") or "[u8;" in ty:
                b = op["str"].encode()
                return Seq("const", Aff(len(b)), [Aff(x, ty="u8") for x in b], kind="bytes", attrs={"const": op["str"]})
            return StrV(op["str"])
        if "bytes" in op:
            return Seq("constbytes", Aff(len(op["bytes"])), [Aff(x, ty="u8") for x in op["bytes"]], kind="bytes")
        if "int" in op:
            if ty == "bool":
                return BoolV(op["int"] != 0)
            return Aff(op["int"], ty=ty)
        if "fn" in op:
            f = FnV("fn", op["fn"])
            f.callee = op.get("fn_callee")
            return f
        if "closure" in op:
            return FnV("closure", op["closure"])
        if "promoted" in op:
            pid = "%s::promoted[%d]" % (op["promoted_of"], op["promoted"])
            pb = self.facts.bodies.get(pid)
            if pb is not None:
                outs = [o for o in self._call_body(st, pb, [], 99, fork_ok=False)]
                if len(outs) == 1 and outs[0][1] == "return":
                    return outs[0][2]
            return Top("promoted")
        if "static" in op:
            sb = self.facts.bodies.get(op["static"])
            if sb is not None:
                outs = [o for o in self._call_body(st, sb, [], 99, fork_ok=False)]
                if len(outs) == 1 and outs[0][1] == "return":
                    c = st.new_cell(outs[0][2])
                    return Ptr(c, ())
            # a static of another crate (algorithm descriptors and the like): an opaque object identified by its path
            return Ptr(st.new_cell(Sym("static " + op["static"])), ())
        if "uneval" in op:
            ub = self.facts.bodies.get(op["uneval"])
            m_ = re.match(r"^<(.+) as ([\w:]+)(<.*>)?>::(\w+)$", op.get("uneval_inst") or "")
            if m_ and fr.tparams:
                # an associated constant of a trait, named through a bound type parameter (`Self::NONCE_LEN` in a provided method): the
                # value the implementation for that type gives it, else the trait's default
                def subst(txt):
                    for k_, v_ in fr.tparams.items():
                        txt = re.sub(r"(?<![\w:'])%s(?![\w:])" % re.escape(k_), lambda _m, v_=v_: v_, txt)
                    return re.sub(r"'\w+", "'_", txt).replace(" ", "")
                nrm = lambda txt: re.sub(r"'\w+", "'_", txt or "").replace(" ", "")
                want_self = subst(m_.group(1))
                cands = [b for b in self.facts.bodies.values() if str(b.get("kind", "")).startswith("AssocConst") and (b.get("name") or b["id"].rsplit("::", 1)[-1]) == m_.group(4)
                         and (b.get("impl_trait") or "").split("<")[0] == m_.group(2) and nrm(b.get("impl_self")) == want_self]
                if len(cands) == 1:
                    ub = cands[0]
            if ub is not None:
                outs = [o for o in self._call_body(st, ub, [], 99, fork_ok=False, tparams=fr.tparams or None)]
                if len(outs) == 1 and outs[0][1] == "return":
                    return outs[0][2]
            return Sym("const " + M.short(op.get("uneval_inst", op["uneval"])), ty)
        if "param" in op:
            if op["param"] in fr.consts:
                return Aff(fr.consts[op["param"]], ty=ty)
            return Aff.sym(op["param"], ty)
        if op.get("zst"):
            if ty.startswith("core::marker::PhantomData"):
                return Struct("core::marker::PhantomData", None, {})
            return Struct(ty, None, {})
        return Sym("const " + op.get("disp", "?"), ty)

    def operand(self, st, fr, op):
        k = op["k"]
        if k in ("copy", "move"):
            return self.read_place(st, fr, op["place"])
        if k == "const":
            return self.const_val(st, fr, op)
        return Top(k)

    def rvalue(self, st, fr, rv):
        k = rv["k"]
        if k == "use":
            return self.operand(st, fr, rv["op"])
        if k in ("ref", "rawptr"):
            cell, path = self.place_ref(st, fr, rv["place"])
            return Ptr(cell, path)
        if k == "copy_for_deref":
            return self.read_place(st, fr, rv["place"])
        if k == "cast":
            v = self.resolve(st, self.operand(st, fr, rv["op"]))
            ck = rv["ck"]
            ty = rv["ty"]
            if ck.startswith("PointerCoercion") or ck in ("PtrToPtr", "Transmute", "Subtype"):
                return v
            if ck == "IntToInt":
                m = re.match(r"[ui](\d+|size)$", ty)
                if isinstance(v, Aff):
                    if ty in ("u8", "u16", "u32") and not v.is_const():
                        bits = int(ty[1:])
                        return Bits(v, 0, (1 << bits) - 1, ty)
                    if ty in ("u8", "u16", "u32") and v.is_const():
                        bits = int(ty[1:])
                        return Aff(v.const & ((1 << bits) - 1), ty=ty)
                    return Aff(v.const, v.terms, ty)
                if isinstance(v, Bits):
                    if ty in ("u8", "u16", "u32"):
                        bits = int(ty[1:])
                        return Bits(v.src, v.shift, v.mask & ((1 << bits) - 1), ty)
                    return v
                if isinstance(v, BoolV):
                    return Aff(1 if v.b else 0, ty=ty)
            return Top("cast %s" % ck) if not isinstance(v, (Aff, Bits)) else v
        if k == "binop":
            return self.binop(st, rv["op"], self.resolve(st, self.operand(st, fr, rv["l"])), self.resolve(st, self.operand(st, fr, rv["r"])))
        if k == "unop":
            x = self.resolve(st, self.operand(st, fr, rv["x"]))
            op = rv["op"]
            if op == "Not":
                if isinstance(x, BoolV):
                    return BoolV(not x.b)
                if isinstance(x, SymBool):
                    return SymBool(("not", x.desc), ("not", x.key))
                return Top("not")
            if op == "PtrMetadata":
                if isinstance(x, Ptr):
                    x = self.resolve(st, self.load(st, x))
                if isinstance(x, Seq):
                    return x.length
                if isinstance(x, StrV):
                    return Aff(len(x.s.encode()))
                return Top("len of %r" % (x,))
            if op == "Neg" and isinstance(x, Aff):
                return x.neg()
            return Top("unop " + op)
        if k == "discriminant":
            v = self.resolve(st, self.read_place(st, fr, rv["place"]))
            return ("discr", v)
        if k == "aggregate":
            ak = rv["ak"]
            vals = [self.operand(st, fr, f) for f in rv["fields"]]
            if ak == "adt":
                return Struct(rv["adt"], rv["variant"], dict(zip(rv["field_names"], vals)))
            if ak == "tuple":
                return Struct("(tuple)", None, {str(i): v for i, v in enumerate(vals)})
            if ak == "array":
                return Seq("array", Aff(len(vals)), vals, kind="array")
            if ak == "closure":
                return FnV("closure", rv["closure"], vals)
            return Top("aggregate " + ak)
        if k == "repeat":
            n = rv.get("count")
            v = self.operand(st, fr, rv["op"])
            if n is not None and n <= 4096:
                return Seq("array", Aff(n), [v] * n, kind="array")
            if n is not None:
                return Seq("array", Aff(n), None, kind="array")
            cp = rv.get("count_param", "N")
            if cp in fr.consts:
                n = fr.consts[cp]
                return Seq("array", Aff(n), [v] * n if n <= 4096 else None, kind="array")
            return Seq("array", Aff.sym(cp), None, kind="array", attrs={"fill": v})
        return Top(k)

    def binop(self, st, op, a, b):
        if op.endswith("WithOverflow"):
            base = op[:-len("WithOverflow")]
            r = self.binop(st, base, a, b)
            ov = Top("overflow?")
            if isinstance(r, Aff):
                lo, hi = st.range_of(r)
                if lo >= 0 and hi <= USIZE_MAX:
                    ov = BoolV(False)
                elif hi < 0 or lo > USIZE_MAX:
                    ov = BoolV(True)
                else:
                    ov = SymBool(("overflow", base, repr(r)), ("cmp", "Lt", r.key()) if base == "Sub" else ("overflow", r.key()))
                    ov.aff = r
                    ov.kind = "neg" if base == "Sub" else "big"
            return Struct("(tuple)", None, {"0": r, "1": ov})
        if isinstance(a, Aff) and isinstance(b, Aff):
            if op in ("Add", "AddUnchecked"):
                return a.add(b)
            if op in ("Sub", "SubUnchecked"):
                return a.sub(b)
            if op in ("Mul", "MulUnchecked"):
                if a.is_const():
                    return b.scale(a.const)
                if b.is_const():
                    return a.scale(b.const)
                return Top("nonlinear")
            if op in ("Eq", "Ne", "Lt", "Le", "Gt", "Ge"):
                return self.compare(st, op, a, b)
            if op in ("BitAnd", "Shr", "ShrUnchecked", "Shl", "BitOr", "Div", "Rem") and a.is_const() and b.is_const():
                f = {"BitAnd": lambda x, y: x & y, "Shr": lambda x, y: x >> y, "ShrUnchecked": lambda x, y: x >> y, "Shl": lambda x, y: x << y, "BitOr": lambda x, y: x | y,
                     "Div": lambda x, y: x // y if y else 0, "Rem": lambda x, y: x % y if y else 0}[op]
                return Aff(f(a.const, b.const), ty=a.ty)
            if op == "BitAnd" and b.is_const():
                return Bits(a, 0, b.const, a.ty)
            if op in ("Shr", "ShrUnchecked") and b.is_const():
                return Bits(a, b.const, USIZE_MAX, a.ty)
        if isinstance(a, Bits) and isinstance(b, Aff) and b.is_const():
            if op == "BitAnd":
                return Bits(a.src, a.shift, a.mask & b.const, a.ty)
            if op in ("Shr", "ShrUnchecked"):
                return Bits(a.src, a.shift + b.const, a.mask >> b.const, a.ty)
        if isinstance(a, BoolV) and isinstance(b, BoolV):
            if op == "Eq":
                return BoolV(a.b == b.b)
            if op == "Ne":
                return BoolV(a.b != b.b)
            if op == "BitAnd":
                return BoolV(a.b and b.b)
            if op == "BitOr":
                return BoolV(a.b or b.b)
        if op in ("Eq", "Ne") and isinstance(a, StrV) and isinstance(b, StrV):
            return BoolV((a.s == b.s) == (op == "Eq"))
        if op in ("Eq", "Ne", "Lt", "Le", "Gt", "Ge"):
            return SymBool((op, repr(a), repr(b)))
        return Top("binop %s(%r, %r)" % (op, a, b))

    def compare(self, st, op, a, b):
        d = a.sub(b)   # a - b
        for e in st.eqs:
            if d.key() == e.key() or d.key() == e.neg().key():
                d = Aff(0)
                break
        lo, hi = st.range_of(d)
        def decided(cond_true, cond_false):
            if cond_true:
                return BoolV(True)
            if cond_false:
                return BoolV(False)
            return None
        r = {"Eq": decided(lo == hi == 0, lo > 0 or hi < 0), "Ne": decided(lo > 0 or hi < 0, lo == hi == 0), "Lt": decided(hi < 0, lo >= 0), "Le": decided(hi <= 0, lo > 0),
             "Gt": decided(lo > 0, hi <= 0), "Ge": decided(lo >= 0, hi < 0)}[op]
        if r is not None:
            return r
        sb = SymBool((op, repr(a), repr(b)), ("cmp", op, d.key()))
        sb.aff = d
        sb.op = op
        return sb

    # constrain the state with a SymBool known to be `truth`; returns False when infeasible
    def assume(self, st, cond, truth):
        if isinstance(cond, BoolV):
            return cond.b == truth
        if isinstance(cond, SymBool):
            d = cond.desc
            if isinstance(d, tuple) and d and d[0] == "not":
                inner = SymBool(d[1], cond.key[1] if isinstance(cond.key, tuple) and len(cond.key) > 1 else d[1])
                for a in ("aff", "op", "kind", "refine"):
                    if hasattr(cond, "inner_" + a):
                        setattr(inner, a, getattr(cond, "inner_" + a))
                return self.assume(st, getattr(cond, "inner", inner), not truth)
            prev = st.facts.get(("cond", cond.key))
            if prev is not None:
                return prev == truth
            st.facts[("cond", cond.key)] = truth
            st.cond.append(("" if truth else "!") + _fmt_desc(d))
            if hasattr(cond, "kind") and hasattr(cond, "aff"):
                # overflow flags: "neg": aff < 0 ; "big": aff > USIZE_MAX
                if cond.kind == "neg":
                    return self._constrain(st, "Lt" if truth else "Ge", cond.aff)
                return True
            if hasattr(cond, "aff") and hasattr(cond, "op"):
                op = cond.op
                if not truth:
                    op = {"Eq": "Ne", "Ne": "Eq", "Lt": "Ge", "Le": "Gt", "Gt": "Le", "Ge": "Lt"}[op]
                return self._constrain(st, op, cond.aff)
            if hasattr(cond, "refine"):
                return cond.refine(st, truth)
            return True
        return True

    def _constrain(self, st, op, d):
        """assume d op 0 ; refine the bound when d has a single symbol"""
        lo, hi = st.range_of(d)
        if op == "Lt" and lo >= 0:
            return False
        if op == "Le" and lo > 0:
            return False
        if op == "Gt" and hi <= 0:
            return False
        if op == "Ge" and hi < 0:
            return False
        if op == "Eq" and (lo > 0 or hi < 0):
            return False
        if op == "Eq" and len(d.terms) > 1:
            st.eqs.append(d)
        if len(d.terms) == 1:
            (s, c), = d.terms.items()
            l, h = st.bound(s)
            k = -d.const   # c*s op k
            import math
            if c < 0:
                c, k = -c, -k
                op = {"Lt": "Gt", "Le": "Ge", "Gt": "Lt", "Ge": "Le", "Eq": "Eq", "Ne": "Ne"}[op]
            if op == "Lt":
                h = min(h, math.ceil(k / c) - 1)
            elif op == "Le":
                h = min(h, math.floor(k / c))
            elif op == "Gt":
                l = max(l, math.floor(k / c) + 1)
            elif op == "Ge":
                l = max(l, math.ceil(k / c))
            elif op == "Eq":
                if k % c:
                    return False
                l = max(l, k // c)
                h = min(h, k // c)
            elif op == "Ne":
                if k % c == 0:
                    # holes of the interval are kept in facts[("excl", sym)] (a frozenset) and eat into the bounds when they touch them
                    ex = set(st.facts.get(("excl", s), ())) | {k // c}
                    while l in ex:
                        l += 1
                    while h in ex:
                        h -= 1
                    st.facts[("excl", s)] = frozenset(x for x in ex if l < x < h)
            if op != "Ne":
                ex = st.facts.get(("excl", s))
                if ex:
                    while l in ex:
                        l += 1
                    while h in ex:
                        h -= 1
                    if op == "Eq" and (k % c == 0) and (k // c) in ex:
                        return False
            if l > h:
                return False
            st.bounds[s] = (l, h)
        return True

    # -- execution --------------------------------------------------------------------
    def _call_body(self, st, body, args, depth, fork_ok=True, consts=None, tparams=None):
        """generator of (state, kind, value)"""
        if depth > self.max_depth and depth < 90:
            yield st, "return", Top("depth")
            return
        view = M.view(self.facts, body)
        fr = Frame(body, view, consts, tparams if tparams is not None else getattr(self, "root_tparams", None))
        for i, l in enumerate(body["locals"]):
            fr.cells.append(st.new_cell(None))
        for i, a in enumerate(args):
            if i + 1 < len(fr.cells):
                st.store[fr.cells[i + 1]] = a
        yield from self._run_frame(st, fr, 0, depth, {})

    def _run_frame(self, st, fr, block, depth, visits):
        blocks = fr.body["blocks"]
        work = [(st, block, dict(visits))]
        while work:
            st, bi, vis = work.pop()
            while True:
                self.paths += 0
                n = vis.get(bi, 0) + 1
                vis[bi] = n
                if n > self.loop_unroll:
                    st.notes.append("loop bound reached in %s" % M.short(fr.body["id"]))
                    yield st, "abort", "loop"
                    break
                b = blocks[bi]
                for s_ in b["stmts"]:
                    if s_["k"] == "assign":
                        v = self.rvalue(st, fr, s_["rv"])
                        self.write_place(st, fr, s_["place"], v)
                t = b["term"]
                k = t["k"]
                if k == "goto":
                    bi = t["target"]
                    continue
                if k == "return":
                    yield st, "return", st.store.get(fr.cells[0])
                    break
                if k == "drop":
                    bi = t["target"]
                    continue
                if k in ("unreachable", "resume", "terminate"):
                    yield st, "abort", k
                    break
                if k == "switch":
                    d = self.resolve(st, self.operand(st, fr, t["discr"]))
                    succs = self.switch(st, d, t, fr)
                    if not succs:
                        break
                    if len(succs) == 1:
                        st, bi = succs[0]
                        continue
                    self.paths += len(succs) - 1
                    if self.paths > self.max_paths:
                        st.notes.append("path limit")
                        yield st, "abort", "path limit"
                        break
                    for s2, tgt in succs[1:]:
                        work.append((s2, tgt, dict(vis)))
                    st, bi = succs[0]
                    continue
                if k == "assert":
                    c = self.resolve(st, self.operand(st, fr, t["cond"]))
                    exp = t["expected"]
                    site = ("assert", fr.body["id"], t["msg"], t["ln"], fr.view.file())
                    if isinstance(c, BoolV):
                        if c.b == exp:
                            self.site_ok(site)
                            bi = t["target"]
                            continue
                        self.site_fail(site, st, "always fails")
                        yield st, "panic", site
                        break
                    # may fail: fork
                    sf = st.clone()
                    feasible_fail = self.assume(sf, c, not exp) if isinstance(c, SymBool) else True
                    if feasible_fail:
                        self.site_fail(site, sf, "cannot exclude: %r" % (c,))
                        yield sf, "panic", site
                    else:
                        self.site_ok(site)
                    if isinstance(c, SymBool):
                        if not self.assume(st, c, exp):
                            break
                    bi = t["target"]
                    continue
                if k == "call":
                    results = self.call(st, fr, t, depth)
                    cont = []
                    for s2, kind, val in results:
                        if kind == "panic":
                            yield s2, "panic", val
                        elif kind == "abort":
                            yield s2, "abort", val
                        else:
                            if t["target"] is None:
                                yield s2, "abort", "diverging call returned"
                                continue
                            self.write_place(s2, fr, t["dest"], val)
                            cont.append(s2)
                    if not cont:
                        break
                    for s2 in cont[1:]:
                        work.append((s2, t["target"], dict(vis)))
                    self.paths += max(0, len(cont) - 1)
                    st, bi = cont[0], t["target"]
                    continue
                yield st, "abort", "terminator " + k
                break

    def switch(self, st, d, t, fr):
        targets = t["targets"]
        other = t["otherwise"]
        if isinstance(d, tuple) and d and d[0] == "discr":
            v = self.resolve(st, d[1])
            if isinstance(v, Struct) and v.variant is not None:
                idx = self.variant_index(v)
                if idx is None:
                    return self._fork_all(st, targets, other, "discr of %r" % (v,))
                for val, bb in targets:
                    if val == idx or (idx < 0 and val in (idx & 0xff, idx & ((1 << 128) - 1))):
                        return [(st, bb)]
                return [(st, other)]
            if isinstance(v, Sym):
                return self._fork_variants(st, v, t, fr)
            if isinstance(v, BoolV):
                d = v
            else:
                return self._fork_all(st, targets, other, "discr of %r" % (v,))
        if isinstance(d, Sym) and t.get("discr_ty") == "bool":
            f = dict((val, bb) for val, bb in targets)
            tf = f.get(0, other)
            tt = f.get(1, other) if 1 in f else other
            s2 = st.clone()
            s2.refine[d.id] = BoolV(True)
            s2.cond.append("%s" % d.name)
            st.refine[d.id] = BoolV(False)
            st.cond.append("!%s" % d.name)
            return [(s2, tt), (st, tf)]
        if isinstance(d, BoolV):
            d = Aff(1 if d.b else 0)
        if isinstance(d, Aff) and d.is_const():
            for val, bb in targets:
                if val == d.const:
                    return [(st, bb)]
            return [(st, other)]
        if isinstance(d, SymBool):
            out = []
            f = dict((val, bb) for val, bb in targets)
            tf = f.get(0, other)
            tt = f.get(1, other) if 1 in f else other
            s2 = st.clone()
            if self.assume(s2, d, True):
                out.append((s2, tt))
            if self.assume(st, d, False):
                out.append((st, tf))
            return out
        if isinstance(d, Aff):
            out = []
            rest = st
            for val, bb in targets:
                s2 = rest.clone()
                if self._constrain(s2, "Eq", d.sub(Aff(val))):
                    s2.cond.append("%r == %d" % (d, val))
                    out.append((s2, bb))
                if not self._constrain(rest, "Ne", d.sub(Aff(val))):
                    rest = None
                    break
            if rest is not None:
                rest.cond.append("%r not in %s" % (d, [v for v, _ in targets]))
                out.append((rest, other))
            return out
        return self._fork_all(st, targets, other, "switch on %r" % (d,))

    def _fork_all(self, st, targets, other, why):
        st.notes.append("undecided " + why)
        seen = []
        out = []
        for _, bb in list(targets) + [(None, other)]:
            if bb not in seen:
                seen.append(bb)
                s2 = st.clone()
                s2.cond.append("?%s->bb%d" % (why[:40], bb))
                out.append((s2, bb))
        return out

    VARIANTS = {
        "core::option::Option": ["None", "Some"],
        "core::result::Result": ["Ok", "Err"],
        "core::ops::control_flow::ControlFlow": ["Continue", "Break"],
        "serde_json::value::Value": ["Null", "Bool", "Number", "String", "Array", "Object"],
    }

    def variant_index(self, v):
        if v.adt == "core::cmp::Ordering":
            return {"Less": -1, "Equal": 0, "Greater": 1}.get(v.variant)      # explicit discriminants
        names = self.VARIANTS.get(v.adt)
        if names is None:
            adt = self.facts.adts.get(v.adt)
            if adt:
                names = [x["name"] for x in adt["variants"]]
        if names and v.variant in names:
            return names.index(v.variant)
        return None

    def _fork_variants(self, st, v, t, fr):
        """switch on the discriminant of an opaque enum: one fork per target, refining the symbol when its type is known"""
        adt = v.attrs.get("adt")
        names = self.VARIANTS.get(adt) if adt else None
        if names is None and adt and adt in self.facts.adts:
            names = [x["name"] for x in self.facts.adts[adt]["variants"]]
        if not names:
            return self._fork_all(st, t["targets"], t["otherwise"], "discr of %r" % (v,))
        out = []
        allowed = v.attrs.get("variants")
        for i, n in enumerate(names):
            if allowed is not None and n not in allowed:
                continue
            tgt = None
            for val, bb in t["targets"]:
                if val == i:
                    tgt = bb
            if tgt is None:
                tgt = t["otherwise"]
            s2 = st.clone()
            fields = {}
            mk = v.attrs.get("make_variant")
            payload = Sym("%s.%s" % (v.name, n))
            if v.classes is not None and adt == "serde_json::value::Value":
                # a JSON value with a class partition: the variant narrows the classes; a String payload keeps the string classes
                cur = s2.facts.get(("cls", v.name), v.classes)
                keep = frozenset(c for c in cur if c == n or c.startswith(n + ":"))
                if not keep:
                    continue
                s2.facts[("cls", v.name)] = keep
                if n == "String":
                    payload = Seq("str(%s)" % v.name, Aff.sym("len(str(%s))" % v.name), kind="str", attrs={"json": v.name})
            s2.refine[v.id] = mk(s2, v, n) if mk else Struct(adt, n, {"0": payload})
            s2.facts[("refined_from", id(s2.refine[v.id]))] = v.name      # which opaque value this variant is a refinement of
            s2.cond.append("%s is %s" % (v.name, n))
            out.append((s2, tgt))
        return out

    # -- calls ------------------------------------------------------------------------------
    def call(self, st, fr, t, depth):
        c = t["callee"]
        args = [self.operand(st, fr, a) for a in t["args"]]
        if "indirect" in c:
            f = self.resolve(st, self.operand(st, fr, c["indirect"]))
            self._cur_frame = fr
            return self.call_value(st, f, args, depth, t)
        return self._call_callee(st, fr, c, args, t, depth)

    def _call_callee(self, st, fr, c, args, t, depth):
        """dispatch a call whose callee is known statically (a call terminator, or a function item passed as a value)"""
        self._cur_frame = fr
        name = M.callee_name(c)
        tdef = M.callee_trait_def(c)
        rdef = c.get("resolved") or c["def"]
        info = {"name": name, "tdef": tdef, "def": rdef, "gargs": c.get("gargs", []), "ln": t["ln"], "fn": fr.body["id"], "file": fr.view.file(), "term": t}
        # crate-local body?
        body = self.facts.bodies.get(rdef)
        if body is None and "resolved" not in c and c.get("trait") and fr.tparams:
            # static trait call on a bound type parameter: <Version as Default>::default()
            m = re.match(r"<(\w+) as ", M.callee_name(c))
            if m and m.group(1) in fr.tparams:
                ty = fr.tparams[m.group(1)]
                mname = c["def"].split("::")[-1]
                for b in self.facts.bodies.values():
                    if b.get("kind") == "AssocFn" and b.get("name") == mname and (b.get("impl_trait") or "").split("<")[0] == c["trait"] and b.get("impl_self") == ty:
                        return list(self._call_body(st, b, args, depth + 1))
        if body is None and "resolved" not in c and c.get("trait") and fr.tparams:
            # static trait call on a type built from bound type parameters: <Paseto<'t, Version, Purpose> as OpenToken<'t, Key>>::open(..)
            m = re.match(r"<(.+) as (.+)>::(\w+)$", M.callee_name(c))
            if m:
                def subst(txt):
                    for k_, v_ in fr.tparams.items():
                        txt = re.sub(r"(?<![\w:'])%s(?![\w:])" % re.escape(k_), lambda _m, v_=v_: v_, txt)
                    return re.sub(r"'\w+", "'_", txt).replace(" ", "")
                want_self, want_trait = subst(m.group(1)), subst(m.group(2))
                nrm = lambda txt: re.sub(r"'\w+", "'_", txt or "").replace(" ", "")
                cands = [b for b in self.facts.bodies.values()
                         if b.get("kind") == "AssocFn" and b.get("name") == m.group(3) and (b.get("impl_trait") or "").split("<")[0] == c["trait"] and nrm(b.get("impl_self")) == want_self]
                exact = [b for b in cands if nrm(b.get("impl_trait")) == want_trait]
                pick = exact[0] if len(exact) == 1 else (cands[0] if len(cands) == 1 else None)
                if pick is not None:
                    return list(self._call_body(st, pick, args, depth + 1))
        if body is None and "resolved" not in c and c.get("trait") and args:
            # trait method on a type parameter of a generic body: dispatch on the run-time shape of the receiver
            dyn = self.dyn_dispatch(st, c, args[0])
            if dyn is not None:
                return list(self._call_body(st, dyn, args, depth + 1))
        for sp, fn in self.fn_stubs:
            if sp.search(rdef) or sp.search(name):
                self._cur_info = info
                return [(st, "return", fn(self, st, args))]
        for sp in self.stubs:
            if sp.search(rdef) or sp.search(name):
                from . import models as _MD
                clean = re.sub(r"::<[^<>]*(<[^<>]*>[^<>]*)*>", "", rdef)
                st.events.append(("::".join(clean.split("::")[-2:]), [_MD.str_key(self, st, a) if i > 0 else "self" for i, a in enumerate(args)]))
                return [(st, "return", args[0] if args else UNIT)]
        for pat, h in self.models:
            if pat.search(tdef) or pat.search(name) or pat.search(rdef):
                r = h(self, st, info, args, depth)
                if r is not None:
                    return r
        if body is not None and c.get("resolved_local", c.get("local")):
            return list(self._call_body(st, body, args, depth + 1, consts=self.bind_consts(body, c, fr), tparams=self.bind_tparams(body, c, fr) or fr.tparams))
        st.unmodelled.append(M.short(name))
        return [(st, "return", Top("unmodelled " + M.short(tdef)))]

    def dyn_dispatch(self, st, c, recv):
        v = self.resolve(st, recv)
        guard = 0
        while isinstance(v, Ptr) and guard < 6:
            v = self.resolve(st, self.load(st, v))
            guard += 1
        if not (isinstance(v, Struct) and v.adt.startswith("crate::")):
            return None
        name = c["def"].split("::")[-1]
        trait = c["trait"]
        cands = []
        for b in self.facts.bodies.values():
            if b.get("kind") == "AssocFn" and b.get("name") == name and (b.get("impl_trait") or "").split("<")[0] == trait and re.match(re.escape(v.adt) + r"(<|$)", b.get("impl_self", "")):
                cands.append(b)
        if len(cands) == 1:
            return cands[0]
        # several impls for different type arguments: choose by the expected output type when it is spelled in the generic args
        want = " ".join(c.get("gargs", [])[1:])
        for b in cands:
            if want and want in (b.get("impl_trait") or ""):
                return b
        return None

    def bind_tparams(self, body, c, fr):
        """the callee's type parameters at this call, read off by unifying the generic path of the resolved callee with its instantiated
        path (`Header<Version, Purpose>` against `Header<V1, Local>`); a parameter instantiated with one of the caller's own parameters
        inherits the caller's binding"""
        names = [g["name"] for g in body.get("impl_generics", []) + body.get("generics", []) if g["kind"] == "type"]
        gen = c.get("resolved") or c.get("def") or ""
        inst = c.get("resolved_inst") or c.get("inst") or ""
        ms = re.match(r"^<(.+) as [\w:]+(<.*>)?>::\w+(::<.*>)?$", inst)
        if ms and not gen.startswith("<") and (body.get("impl_self") is None):
            # a provided method of a trait called for a concrete type: `Self` is that type
            ty = ms.group(1)
            for k_, v_ in (fr.tparams or {}).items():
                ty = re.sub(r"(?<![\w:'])%s(?![\w:])" % re.escape(k_), lambda _m, v_=v_: v_, ty)
            res = dict(fr.tparams or {})
            res["Self"] = ty
            return res
        if not names:
            return None
        out = {}
        i = j = 0
        n, m = len(gen), len(inst)
        ident = re.compile(r"[A-Za-z_][A-Za-z0-9_]*")
        while i < n and j <= m:
            mm = ident.match(gen, i)
            if mm and mm.group(0) in names and (i == 0 or not (gen[i - 1].isalnum() or gen[i - 1] in "_:'")) and not gen.startswith("::", mm.end()):
                nxt = gen[mm.end()] if mm.end() < n else None
                k, d = j, 0
                while k < m:
                    ch = inst[k]
                    if d == 0 and nxt is not None and ch == nxt and not (ch == ">" and k > 0 and inst[k - 1] == "-"):
                        break
                    if ch in "<([":
                        d += 1
                    elif ch in ">)]" and not (ch == ">" and k > 0 and inst[k - 1] == "-"):
                        d -= 1
                        if d < 0:
                            break
                    k += 1
                val = inst[j:k].strip()
                out.setdefault(mm.group(0), val)
                i, j = mm.end(), k
                continue
            if j < m and gen[i] == inst[j]:
                if gen[i] == "'":
                    # lifetimes differ in name only
                    i += 1
                    j += 1
                    a, b = ident.match(gen, i), ident.match(inst, j)
                    i = a.end() if a else i
                    j = b.end() if b else j
                    continue
                i += 1
                j += 1
                continue
            return {k_: fr.tparams.get(v_, v_) for k_, v_ in out.items()} or None
        if not out:
            return None
        res = dict(fr.tparams or {})
        for k_, v_ in out.items():
            res[k_] = (fr.tparams or {}).get(v_, v_)
        return res

    def bind_consts(self, body, c, fr):
        """values of the callee's const generic parameters at this call (from the instantiated name), else inherited symbols"""
        names = [g["name"] for g in body.get("impl_generics", []) + body.get("generics", []) if g["kind"] == "const"]
        if not names:
            return None
        inst = M.decode_typenum(c.get("resolved_inst") or c.get("inst") or "")
        nums = [g for g in c.get("gargs", []) if re.fullmatch(r"\d+", g)]
        out = {}
        if len(nums) == len(names):
            out = {n: int(v) for n, v in zip(names, nums)}
        elif len(names) == 1:
            found = set(re.findall(r"Key<(\d+)>|Key::<(\d+)>", inst))
            vals = set(x for tup in found for x in tup if x)
            if len(vals) == 1:
                out = {names[0]: int(vals.pop())}
            else:
                m = re.findall(r"Key<([A-Z]+)>|Key::<([A-Z]+)>", inst)
                syms = set(x for tup in m for x in tup if x)
                if len(syms) == 1 and list(syms)[0] in fr.consts:
                    out = {names[0]: fr.consts[list(syms)[0]]}
        return out or None

    def call_value(self, st, f, args, depth, t=None):
        """call a closure / fn item value with the already evaluated argument tuple"""
        f = self.resolve(st, f)
        if isinstance(f, Ptr):
            f = self.resolve(st, self.load(st, f))
        if isinstance(f, FnV):
            for sp, fn in self.fn_stubs:
                if sp.search(f.defn):
                    return [(st, "return", fn(self, st, list(args)))]
            cal = getattr(f, "callee", None)
            fr0 = getattr(self, "_cur_frame", None)
            if cal and fr0 is not None and f.kind == "fn" and (cal.get("trait") or cal.get("resolved") or not cal.get("local")) and f.defn not in self.facts.adts:
                # a function item used as a value (`.map(Footer::from)`, `.map_err(PasetoError::from)`): the same dispatch as a direct call
                parent = f.defn.rpartition("::")[0]
                if not (parent in self.VARIANTS or parent in self.facts.adts):
                    tt = t if t is not None else {"ln": 0, "args": [], "callee": cal}
                    return self._call_callee(st, fr0, cal, list(args), dict(tt, callee=cal), depth)
            body = self.facts.bodies.get(f.defn)
            if body is not None:
                if f.kind == "closure":
                    env = Struct("(closure)", None, {str(i): v for i, v in enumerate(f.captures)})
                    # Fn / FnMut bodies take `&closure` / `&mut closure`, FnOnce bodies the closure by value
                    lt = body["locals"][1]["ty"] if len(body["locals"]) > 1 else "&"
                    if lt.startswith("&"):
                        c = st.new_cell(env)
                        return list(self._call_body(st, body, [Ptr(c, ())] + list(args), depth + 1))
                    return list(self._call_body(st, body, [env] + list(args), depth + 1))
                return list(self._call_body(st, body, list(args), depth + 1))
        if isinstance(f, FnV) and f.kind == "fn":
            # tuple-struct / enum-variant constructors used as functions (e.g. `.map(Some)`, `.map(Self)`)
            d = f.defn
            if d in self.facts.adts:
                return [(st, "return", Struct(d, None, {str(i): a for i, a in enumerate(args)}))]
            parent, _, vname = d.rpartition("::")
            if parent in self.VARIANTS and vname in self.VARIANTS[parent]:
                return [(st, "return", Struct(parent, vname, {str(i): a for i, a in enumerate(args)}))]
            adt = self.facts.adts.get(parent)
            if adt and any(x["name"] == vname for x in adt["variants"]):
                var = [x for x in adt["variants"] if x["name"] == vname][0]
                return [(st, "return", Struct(parent, vname, {fl["name"]: a for fl, a in zip(var["fields"], args)}))]
        st.unmodelled.append("indirect call of %r" % (f,))
        return [(st, "return", Top("indirect"))]

    # -- panic-site bookkeeping ------------------------------------------------------------------
    def site_ok(self, site):
        e = self.sites.setdefault(site, {"ok": 0, "fail": []})
        e["ok"] += 1

    def site_fail(self, site, st, why):
        e = self.sites.setdefault(site, {"ok": 0, "fail": []})
        e["fail"].append((why, list(st.cond)))


def _fmt_desc(d):
    if isinstance(d, tuple):
        return "(" + " ".join(_fmt_desc(x) for x in d) + ")"
    return str(d)
