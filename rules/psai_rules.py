"""Rules over the symbolic semantics of the 16 core entry points (rules/psai.py).

  producer  == specification          the token text computed by try_encrypt / try_sign is, as a description, the specification's
                                      token for (key, nonce, message, footer, assertion), on every successful path            (C08, C10)
  consumer  on an arbitrary token     every Ok path carries the authentication-success event of the specification's check (whole tag /
                                      signature / AEAD, over the specification's PAE with the caller's footer and assertion, keyed from the
                                      caller's key) *before* any keystream or UTF-8 step; what is returned is the strict UTF-8 reading of
                                      the authenticated message                                                              (C03, C04, C05, C06, C07, C08)
  consumer o producer                 run on the producing side's symbolic payload with the same key, footer and assertion, the consuming side
                                      returns exactly the message, on every path (absent == empty for footer and assertion)     (C01, C02)
                                      with another key, footer or assertion it returns no Ok on any path                       (C04, C05, C06)
Every verdict is over *all* paths of the interpreted functions; a path the interpreter cannot follow makes the rule undecided (the
structural rules of rules/protocol.py are then consulted instead), never silently satisfied."""
import re

from . import absint as A
from . import mir as M
from . import models as MD
from . import psai as PS
from . import skeleton as S
from .absint import Aff
from .protocol_base import Finding

PAS = "crate::core::paseto::Paseto"
NONCE_LEN = {"V1": 32, "V2": 24, "V3": 32, "V4": 32}
TAG_LEN = {"V1": 48, "V2": 16, "V3": 48, "V4": 32}
PK_LEN = {"V2": 32, "V3": 49, "V4": 32}


def _opt(name, carrier, fixed=None):
    """an Option<carrier> parameter / field: symbolic {None, Some(name)} or fixed: None | '' | name"""
    def val(nm):
        if nm == "":
            return A.some(A.Struct(carrier, None, {"0": A.StrV("")}))
        return A.some(A.Struct(carrier, None, {"0": A.Seq(nm, Aff.sym("len(%s)" % nm), kind="str")}))
    if fixed is not None:
        return A.none() if fixed is False else val(fixed)

    def mk(st_, sym, variant):
        return A.none() if variant == "None" else val(name)
    return A.Sym("opt." + name, attrs={"adt": "core::option::Option", "make_variant": mk})


FOOT, ASSERT = "crate::core::footer::Footer", "crate::core::implicit_assertion::ImplicitAssertion"


def _key_struct(ty, name, length):
    adt = re.match(r"&?(?:mut )?(crate::core::key::[\w:]+)", ty)
    adt = adt.group(1) if adt else "key"
    ln = Aff(length) if isinstance(length, int) else Aff.sym("len(%s)" % name)
    if "PasetoSymmetricKey" in ty:
        return A.Struct(adt, None, {"version": A.UNIT, "purpose": A.UNIT, "key": A.Struct("crate::core::key::keys::Key", None, {"0": A.Seq(name, ln, kind="array")})})
    return A.Struct(adt, None, {"version": A.UNIT, "purpose": A.UNIT, "key": A.Seq(name, ln, kind="bytes")})


def _undecided(outs):
    und = [o for o in outs if o.kind == "abort" or o.state.unmodelled or any("undecided" in n for n in o.state.notes)]
    if und or not outs:
        o = und[0] if und else None
        return "no outcome" if o is None else "%s; unmodelled %s; %s; when [%s]" % (o.kind, o.state.unmodelled[:2], [n for n in o.state.notes if "undecided" in n][:1], " & ".join(o.state.cond)[-160:])
    return None


def _variant(I, o):
    r = I.resolve(o.state, o.value) if o.kind == "return" else None
    if isinstance(r, A.Struct) and r.variant in ("Ok", "Err"):
        return r.variant, r
    return o.kind, r


# ------------------------------------------------------------------ producer
def _core_api(facts, name):
    bs = [b for bid, b in facts.bodies.items() if b.get("name") == name and (b.get("impl_self") or "").startswith("crate::core::paseto::Paseto<") and b.get("kind") == "AssocFn"
          and not b.get("impl_trait") and "{closure" not in bid]
    return bs[0] if len(bs) == 1 else None


def producer_selves(facts, I, V, P, footer, assertion):
    """[(state, cell of the core builder)] obtained through the public API - builder(); set_payload(M); set_footer(F) / set_implicit_assertion(A)
    for the cases asked for - so that nothing is assumed about how Paseto keeps its state; None when that cannot be done (then the
    state is written down field by field as the current source declares it)."""
    fb, sp, sf, sa = _core_api(facts, "builder"), _core_api(facts, "set_payload"), _core_api(facts, "set_footer"), _core_api(facts, "set_implicit_assertion")
    if fb is None or sp is None or sf is None or (sa is None and V in ("V3", "V4")):
        return None
    I.root_tparams = {"Version": "crate::core::version::%s::%s" % (V.lower(), V), "Purpose": "crate::core::purpose::%s::%s" % (P.lower(), P)}

    def ok_(outs):
        return outs and all(o.kind == "return" and not o.state.unmodelled and not any("undecided" in n for n in o.state.notes) for o in outs)
    outs = I.run(fb, [], A.State())
    if not ok_(outs):
        return None
    sts = [(o.state, o.state.new_cell(o.value)) for o in outs]

    def step(sts, body, mkarg):
        res = []
        for s, c in sts:
            o2 = I.run(body, [A.Ptr(c), mkarg(s)], s)
            if not ok_(o2):
                return None
            res += [(o.state, c) for o in o2]
        return res
    sts = step(sts, sp, lambda s: A.Struct("crate::core::payload::Payload", None, {"0": A.Seq("M", Aff.sym("len(M)"), kind="str", attrs={"utf8": True})}))
    if sts is None:
        return None
    for name, carrier, setter, fixed in (("F", FOOT, sf, footer), ("A", ASSERT, sa, assertion)):
        if setter is None or (name == "A" and V not in ("V3", "V4")):
            for s, _c in sts:
                s.cond.append("opt.%s is None" % name)
            continue
        nxt = []
        variants = ["none", "set"] if fixed is None else (["none"] if fixed is False else ["set"])
        for s, c in sts:
            for var in variants:
                s2 = s.clone() if len(variants) > 1 else s
                if var == "none":
                    s2.cond.append("opt.%s is None" % name)
                    nxt.append((s2, c))
                    continue
                nm = name if fixed in (None, False) else fixed
                val = A.StrV("") if nm == "" else A.Seq(nm, Aff.sym("len(%s)" % nm), kind="str")
                r = step([(s2, c)], setter, lambda s_: A.Struct(carrier, None, {"0": val}))
                if r is None:
                    return None
                for s3, c3 in r:
                    s3.cond.append("opt.%s is Some" % name)
                    if nm == "":
                        s3.facts[("streq", name)] = ""
                nxt += r
        sts = nxt
    I.root_tparams = None
    return sts


def run_producer(facts, e, footer=None, assertion=None):
    """interpret try_encrypt / try_sign; footer / assertion: None = both absent and present (symbolic), False = absent, '' = empty, 'F' = that name"""
    V, P = e.vp
    v = M.view(facts, e.body)
    I = PS.interp(facts)

    def call_args(st):
        args = []
        for i in range(2, v.nargs + 1):
            ty = v.local_ty(i)
            if "PasetoSymmetricKey" in ty:
                args.append(A.Ptr(st.new_cell(_key_struct(ty, "K", 32))))
            elif "PasetoNonce" in ty:
                args.append(A.Ptr(st.new_cell(A.Struct("crate::core::key::paseto_nonce::PasetoNonce", None, {"version": A.UNIT, "purpose": A.UNIT, "key": A.Seq("N", Aff(32), kind="bytes")}))))
            elif "PasetoAsymmetricPrivateKey" in ty:
                args.append(A.Ptr(st.new_cell(_key_struct(ty, "SK", {"V2": 64, "V4": 64, "V3": 48}.get(V)))))
            else:
                args.append(A.Sym("arg%d" % i))
        return args
    selves = None
    try:
        selves = producer_selves(facts, I, V, P, footer, assertion)
    except Exception:
        selves = None
    I.root_tparams = None
    if selves:
        outs = []
        for s, c in selves:
            outs += I.run(e.body, [A.Ptr(c)] + call_args(s), s)
        return I, outs
    st = A.State()
    hdr = "%s.%s." % (V.lower(), P.lower())
    me = A.Struct(PAS, None, {"header": A.Struct("crate::core::header::Header", None, {"version": A.UNIT, "purpose": A.UNIT, "header": A.StrV(hdr)}),
                              "payload": A.Struct("crate::core::payload::Payload", None, {"0": A.Seq("M", Aff.sym("len(M)"), kind="str", attrs={"utf8": True})}),
                              "footer": _opt("F", FOOT, footer), "implicit_assertion": _opt("A", ASSERT, assertion)})
    outs = I.run(e.body, [A.Ptr(st.new_cell(me))] + call_args(st), st)
    return I, outs


def _case(s, name):
    """('none' | 'empty' | 'some') for the option `name` on this path"""
    if "opt.%s is None" % name in s.cond:
        return "none"
    if "opt.%s is Some" % name in s.cond:
        lo, hi = s.bounds.get("len(%s)" % name, (0, A.LEN_MAX))
        if hi == 0 or "(Eq len(%s) 0)" % name in s.cond or s.facts.get(("streq", name)) == "":
            return "empty"
        return "some"
    return None


def _zeros(s):
    return [n for n in ("F", "A") if _case(s, n) == "empty"]


def spec_for(V, P, s, fcase, acase):
    F, Fl = ("F", Aff.sym("len(F)")) if fcase in ("some", "empty") else ("''", Aff(0))
    Ad, Al = ("A", Aff.sym("len(A)")) if acase in ("some", "empty") else ("''", Aff(0))
    if P == "Local":
        return PS.spec_local(V, "K", "N", "M", Aff.sym("len(M)"), F, Fl, Ad, Al)
    pk = "sec1c(pk(SK))" if V == "V3" else "pk(SK)"
    return PS.spec_public(V, "SK", pk, "M", Aff.sym("len(M)"), F, Fl, Ad, Al)


def producer_rules(facts, e):
    """[Finding] or (None, why)"""
    V, P = e.vp
    v = M.view(facts, e.body)
    I, outs = run_producer(facts, e)
    und = _undecided(outs)
    if und:
        return None, und
    out = []
    probs, n_ok, seen = [], 0, set()
    samples = []
    for o in outs:
        kind, r = _variant(I, o)
        s = o.state
        if kind == "panic":
            continue        # panics of the producing side are C09's / not reachable from untrusted input
        if kind != "Ok":
            continue
        n_ok += 1
        fc, ac = _case(s, "F"), (_case(s, "A") if V in ("V3", "V4") else "none")
        seen.add((fc, ac))
        if fc is None or (V in ("V3", "V4") and ac is None):
            probs.append("a successful path does not consult the builder's footer / assertion [%s]" % " & ".join(s.cond)[-120:])
            continue
        sp = spec_for(V, P, s, fc, ac)
        z = _zeros(s)
        got = PS.renorm(PS.cd(I, s, r.fields["0"]), z)
        hdr = "'%s.%s.'" % (V.lower(), P.lower())
        want = PS.renorm(PS._flat([hdr, "b64(%s)" % sp["payload"]] + (["'.'", "b64(F)"] if fc == "some" else [])), z)
        if got != want:
            probs.append("with footer %s%s the token computed is\n      %s\n   the specification's is\n      %s" % (fc, (", assertion " + ac) if V in ("V3", "V4") else "", _diff(got, want)[0], _diff(got, want)[1]))
        elif len(samples) < 1:
            samples.append(got)
    if V in ("V3", "V4"):
        # the implicit assertion reaches the token only below the fixed-length tag / signature: every occurrence of A in the token's
        # description sits inside a MAC / signature / digest application (the token's length and text do not depend on it)
        ia = []
        for o in outs:
            kind, r = _variant(I, o)
            if kind != "Ok":
                continue
            d = PS.cd(I, o.state, r.fields["0"])
            for m_ in re.finditer(r"(?<![\w'\.])A(?![\w'\(\[])|len\(A\)", d):
                # enclosing function applications
                depth, i, encl = 0, m_.start(), []
                while i > 0:
                    i -= 1
                    ch = d[i]
                    if ch == ")":
                        depth += 1
                    elif ch == "(":
                        if depth == 0:
                            j = i
                            while j > 0 and (d[j - 1].isalnum() or d[j - 1] in "-_.[]"):
                                j -= 1
                            encl.append(d[j:i])
                        else:
                            depth -= 1
                if not any(re.match(r"^(blake2b-\d+|hmac-sha\d+|sha\d+|\w+\.sign|[\w-]+\.sign)$", e_) for e_ in encl):
                    ia.append("the implicit assertion occurs in the token outside the tag / signature: ...%s..." % d[max(0, m_.start() - 60):m_.end() + 30])
                    break
        out.append(Finding("C06.S3", not ia, e.id, "assertion only below the tag / signature" if not ia else ia[0][:90], "; ".join(sorted(set(ia)))[:600], v.file(), e.body["line"],
                           "%s: the implicit assertion enters the token only inside the fixed-length tag / signature" % e.label))
    if n_ok == 0:
        probs.append("no successful path")
    need = {(f, a) for f in ("none", "empty", "some") for a in (("none", "some") if V in ("V3", "V4") else ("none",))}
    miss = [c for c in need if c not in seen and not (c[1] == "some" and (c[0], "empty") in seen)]
    if not probs and any(c[0] not in [x[0] for x in seen] for c in need):
        probs.append("the cases {no footer, empty footer, footer} are not all covered (%s)" % sorted(seen))
    if P == "Public":
        ctors = {"ed25519": ("from_keypair_bytes",), "p384": ("from_bytes", "from_slice"), "rsa-pss-sha384": ("from_pkcs8", "from_der")}
        kp = []
        for o in outs:
            for x in o.state.events:
                if x[0] == "sign":
                    if x[2] != "SK":
                        kp.append("the signer is built from %s, not from the caller's whole private key" % x[2])
                    elif x[4] not in ctors.get(x[1], ()):
                        kp.append("the %s signer is built with %s, which does not validate the key (expected %s)" % (x[1], x[4] or "?", " / ".join(ctors.get(x[1], ("?",)))))
        out.append(Finding("C04.S3", not kp, e.id, "signer = validating constructor(whole private key)" if not kp else kp[0][:90], "; ".join(sorted(set(kp)))[:600], v.file(), e.body["line"],
                           "%s: signer built from the caller's entire private key by the validating constructor" % e.label))
    desc = "%s == the specification's token on %d successful paths (footer absent / empty / present%s)" % (e.label, n_ok, ", assertion absent / present" if V in ("V3", "V4") else "")
    for rule in (("C08.S1", "C05.S1", "C01.S0", "C10.S3") if P == "Local" else ("C08.S1", "C05.S1", "C02.S0")):
        out.append(Finding(rule, not probs, e.id, "producer computes the specification's token" if not probs else "producer deviates from the specification", "; ".join(probs)[:1500], v.file(), e.body["line"], desc))
    return out, None


def _diff(a, b):
    """trim the common prefix / suffix of two long descriptions for readable reports"""
    i = 0
    while i < min(len(a), len(b)) and a[i] == b[i]:
        i += 1
    j = 0
    while j < min(len(a), len(b)) - i and a[-1 - j] == b[-1 - j]:
        j += 1
    lo = max(0, i - 40)
    return ("..." + a[lo:len(a) - j + 40])[:600], ("..." + b[lo:len(b) - j + 40])[:600]


# ------------------------------------------------------------------ consumer on an arbitrary token
def consumer_args(facts, e, st, key_name=None, footer=None, assertion=None):
    v = M.view(facts, e.body)
    V, P = e.vp
    args = []
    for i in range(1, v.nargs + 1):
        ty = v.local_ty(i)
        if ty == "&str":
            args.append(A.Seq("token", Aff.sym("len(token)"), kind="str"))
        elif "PasetoSymmetricKey<" in ty:
            args.append(A.Ptr(st.new_cell(_key_struct(ty, key_name or "K", 32))))
        elif "PasetoAsymmetricPublicKey<" in ty:
            nm = key_name or ("sec1c(pk(SK))" if V == "V3" else "pk(SK)")
            args.append(A.Ptr(st.new_cell(_key_struct(ty, nm, PK_LEN.get(V)))))
        elif "Footer<" in ty and "Into<Option<" in ty:
            args.append(_opt("F", FOOT, footer))
        elif "ImplicitAssertion<" in ty and "Into<Option<" in ty:
            args.append(_opt("A", ASSERT, assertion))
        else:
            args.append(A.Sym("arg%d" % i))
    return args


def consumer_rules(facts, e):
    """the consuming side on an arbitrary (attacker chosen) token"""
    V, P = e.vp
    v = M.view(facts, e.body)
    I = PS.interp(facts)
    st = A.State()
    outs = I.run(e.body, consumer_args(facts, e, st), st)
    und = _undecided(outs)
    if und:
        return None, und
    nl, tl = NONCE_LEN[V], (TAG_LEN[V] if P == "Local" else PS.SIG_LEN[V])
    probs = {"auth": [], "order": [], "ret": [], "pre": [], "hdr": []}
    n_ok = 0
    for o in outs:
        kind, r = _variant(I, o)
        s = o.state
        cond = " & ".join(s.cond)[-200:]
        evs = s.events
        auth_i = [i for i, x in enumerate(evs) if x[0] == "auth_ok"]
        use_i = [i for i, x in enumerate(evs) if x[0] in ("keystream", "utf8", "utf8_fail")]
        if kind == "Err":
            # before authentication succeeded no plaintext may have been touched and the error is not a UTF-8 error
            if not auth_i and [x for x in evs if x[0] in ("utf8", "utf8_fail")]:
                probs["pre"].append("UTF-8 conversion is attempted on a token that has not been authenticated [%s]" % cond)
            continue
        if kind != "Ok":
            continue
        n_ok += 1
        # the token's own header text was found equal to this protocol's header (whole, or segment by segment)
        nrm = lambda t: re.sub(r"[{}']", "", str(t))
        eqs = [frozenset((nrm(x[1]), nrm(x[2]))) for x in evs if x[0] == "equal"]
        hv, hp = V.lower(), P.lower()
        whole = frozenset(("parts0[0].parts0[1].", "%s.%s." % (hv, hp))) in eqs
        segs = frozenset(("parts0[0]", hv)) in eqs and frozenset(("parts0[1]", hp)) in eqs
        if not (whole or segs):
            probs["hdr"].append("a token is accepted without its header segments having been found equal to '%s.%s.' (comparisons that succeeded: %s) [%s]" % (hv, hp, [tuple(sorted(q)) for q in eqs if any("parts0" in z for z in q)][:3], cond))
        if not auth_i:
            probs["auth"].append("a token is accepted without any authentication check having succeeded [%s]" % cond)
            continue
        if use_i and min(use_i) < min(auth_i):
            probs["order"].append("plaintext is produced / read before the authentication check [%s]" % cond)
        fc = _case(s, "F") or "none"
        ac = (_case(s, "A") or "none") if V in ("V3", "V4") else "none"
        F, Fl = ("F", Aff.sym("len(F)")) if fc in ("some", "empty") else ("''", Aff(0))
        Ad, Al = ("A", Aff.sym("len(A)")) if ac in ("some", "empty") else ("''", Aff(0))
        L = Aff.sym("len(decoded0)")
        P0 = "decoded0"
        sl = lambda a, b: P0 if (a == Aff(0) and b == L) else "%s[%r..%r]" % (P0, a, b)
        good = False
        okv = PS.cd(I, s, r.fields.get("0"))
        if P == "Local" and V != "V2":
            n, c, t = sl(Aff(0), Aff(nl)), sl(Aff(nl), L.sub(Aff(tl))), sl(L.sub(Aff(tl)), L)
            sp = PS.spec_local(V, "K", n, c, L.sub(Aff(nl + tl)), F, Fl, Ad, Al) if V in ("V3", "V4") else None
            want_t, want_plain = _dec_spec(V, n, c, L.sub(Aff(nl + tl)), F, Fl, Ad, Al)
            for i in auth_i:
                x = evs[i]
                if x[1] == "tag" and {x[2], x[3]} == {want_t, t}:
                    good = True
            if not good:
                probs["auth"].append("accepted without the specification's tag check: expected compare(%s, %s); checks that succeeded: %s [%s]" % (want_t[:200], t, [(x[2][:120], x[3][:60]) for x in evs if x[0] == "auth_ok" and x[1] == "tag"][:2], cond))
            if okv not in ("utf8(%s)" % want_plain,):
                probs["ret"].append("the value returned is %s, not the UTF-8 reading of the specification's plaintext %s" % (okv[:200], want_plain[:200]))
        elif P == "Local":
            n, c = sl(Aff(0), Aff(24)), sl(Aff(24), L)
            aad = PS.pae_desc([("'v2.local.'", Aff(9)), (n, Aff(24)), (F, Fl)])
            for i in auth_i:
                x = evs[i]
                if x[1] == "aead" and x[2:] == ("K", n, aad, c):
                    good = True
            if not good:
                probs["auth"].append("accepted without the specification's AEAD check (key K, nonce %s, aad PAE(header, nonce, footer), whole remainder): %s [%s]" % (n, [x[2:] for x in evs if x[0] == "auth_ok"][:1], cond))
            want_plain = "xchacha20poly1305.dec(key=K; nonce=%s; aad=%s; %s)" % (n, aad, c)
            if okv != "utf8(%s)" % want_plain:
                probs["ret"].append("the value returned is %s, not the UTF-8 reading of the AEAD plaintext" % okv[:200])
        else:
            m, sg = sl(Aff(0), L.sub(Aff(tl))), sl(L.sub(Aff(tl)), L)
            pk = "sec1c(pk(SK))" if V == "V3" else "pk(SK)"
            sp = PS.spec_public(V, "SK", pk, m, L.sub(Aff(tl)), F, Fl, Ad, Al)
            pkd = "pk(SK)"
            for i in auth_i:
                x = evs[i]
                if x[1] == "sig" and x[2] == PS.SIG_ALG[V] and x[3] == pkd and x[4] == sp["signed"] and x[5] == sg:
                    good = True
            if not good:
                probs["auth"].append("accepted without the specification's signature check (%s, caller's public key, %s, last %d bytes): %s [%s]" % (PS.SIG_ALG[V], sp["signed"][:160], tl, [tuple(str(y)[:100] for y in x[2:]) for x in evs if x[0] == "auth_ok"][:1], cond))
            if okv != "utf8(%s)" % m:
                probs["ret"].append("the value returned is %s, not the UTF-8 reading of the signed message %s" % (okv[:200], m))
    if n_ok == 0:
        probs["auth"].append("no accepting path found")
    out = []
    lab = e.label

    def emit(rules, key, what):
        ps = probs[key]
        for rl in rules:
            out.append(Finding(rl, not ps, e.id, what if not ps else ps[0][:90], "; ".join(sorted(set(ps)))[:1200], v.file(), e.body["line"], "%s: %s" % (lab, what)))
    emit(("C03.S1", "C04.S1", "C05.S2", "C07.S4", "C08.S2") + (("C06.S1",) if V in ("V3", "V4") else ()), "auth", "every accepted token passed the specification's authentication check (caller's key, footer, assertion; own header; whole tag / signature)")
    emit(("C07.S6",), "hdr", "every accepted token's header segments were found equal to this protocol's own header")
    emit(("C03.S2",), "order", "no keystream / UTF-8 step before the authentication check succeeded")
    emit(("C03.S3", "C01.S10" if P == "Local" else "C02.S9", "C08.S2"), "ret", "the value returned is the strict UTF-8 reading of the authenticated message")
    emit(("C03.S8",), "pre", "a rejection before authentication is never a UTF-8 error")
    return out, None


def _dec_spec(V, n, c, clen, F, Fl, Ad, Al):
    """(expected tag description, plaintext description) of the specification's decryption for v1 / v3 / v4 given the wire nonce and ciphertext"""
    h = "'%s.local.'" % V.lower()
    hl = Aff(len(V) + 7)
    if V == "V1":
        ek = "hkdf-sha384(salt=%s; ikm=K; info=%s; len=32)" % (_sub(n, 0, 16), PS.SEP_E)
        ak = "hkdf-sha384(salt=%s; ikm=K; info=%s; len=32)" % (_sub(n, 0, 16), PS.SEP_A)
        pae = PS.pae_desc([(h, hl), (n, Aff(32)), (c, clen), (F, Fl)])
        return "hmac-sha384(key=%s; %s)" % (ak, pae), "aes256ctr(key=%s; iv=%s; %s)" % (ek, _sub(n, 16, 32), c)
    if V == "V3":
        tmp = "hkdf-sha384(salt=''; ikm=K; info=%s; len=48)" % PS._flat([PS.SEP_E, n])
        ak = "hkdf-sha384(salt=''; ikm=K; info=%s; len=48)" % PS._flat([PS.SEP_A, n])
        pae = PS.pae_desc([(h, hl), (n, Aff(32)), (c, clen), (F, Fl), (Ad, Al)])
        return "hmac-sha384(key=%s; %s)" % (ak, pae), "aes256ctr(key=%s[0..32]; iv=%s[32..48]; %s)" % (tmp, tmp, c)
    tmp = "blake2b-56(key=K; %s)" % PS._flat([PS.SEP_E, n])
    ak = "blake2b-32(key=K; %s)" % PS._flat([PS.SEP_A, n])
    pae = PS.pae_desc([(h, hl), (n, Aff(32)), (c, clen), (F, Fl), (Ad, Al)])
    return "blake2b-32(key=%s; %s)" % (ak, pae), "xchacha20(key=%s[0..32]; iv=%s[32..56]; %s)" % (tmp, tmp, c)


def _sub(name, a, b):
    """canonical name of name[a..b] where name is itself `base[x..y]` with constant x"""
    m = re.match(r"^(.*)\[(\d+)\.\.(.*)\]$", name)
    if m and _balanced_tail(m.group(1)):
        x = int(m.group(2))
        return "%s[%d..%d]" % (m.group(1), x + a, x + b)
    return "%s[%d..%d]" % (name, a, b)


def _balanced_tail(s):
    return s.count("(") == s.count(")") and s.count("[") == s.count("]")


# ------------------------------------------------------------------ composition: consumer on the producer's symbolic payload
def compose(facts, prod_e, cons_e, fprod, aprod, fcons, acons, key_name=None):
    """run the producer with fixed footer / assertion and feed the payload of each of its successful paths to the consumer (parse_raw_token
    summarised: it returns that payload).  Returns [(interp, consumer outcomes, producer path condition)] or (None, why)"""
    Ip, pouts = run_producer(facts, prod_e, footer=fprod, assertion=aprod)
    und = _undecided(pouts)
    if und:
        return None, "producer: " + und
    oks = []
    for o in pouts:
        kind, r = _variant(Ip, o)
        if kind == "Ok":
            oks.append((o, r))
    if not oks:
        return None, "producer: no successful path for footer %r / assertion %r" % (fprod, aprod)
    runs = []
    for o, r in oks:
        tok = MD.deref(Ip, o.state, r.fields["0"])
        payload = None
        if isinstance(tok, A.Seq) and tok.chunks is not None:
            for c in tok.chunks:
                if c[0] == "arg":
                    x = MD.deref(Ip, o.state, c[1]) if not isinstance(c[1], str) else None
                    if isinstance(x, A.Seq) and "b64_of" in x.attrs and payload is None:
                        payload = MD.deref(Ip, o.state, x.attrs["b64_of"])
        if payload is None:
            return None, "producer: the payload segment could not be located in the token text"
        ch = PS.chunks_of(Ip, o.state, payload)
        if ch is None:
            return None, "producer: the payload has no known chunk structure"
        pseq = A.Seq("payload", payload.length, None, [("seq", d, l) for d, l in ch], kind="vec")

        def prt(I, st, args, pseq=pseq):
            st.events.append(("parse_raw_token", [PS.cd(I, st, a) for a in args[:2]]))
            return A.ok(pseq)
        I = PS.interp(facts, stubs=[(r"parse_raw_token$", prt)])
        I.composition = True
        st = A.State()
        # what the producing path knows about the symbolic lengths (e.g. len(F) == 0) holds on the consuming side as well
        st.bounds = dict(o.state.bounds)
        st.eqs = list(o.state.eqs)
        for k_, v_ in o.state.facts.items():
            if isinstance(k_, tuple) and k_ and k_[0] in ("cond", "excl", "streq", "strne"):
                st.facts[k_] = v_
        for k_, v_ in o.state.facts.items():
            if isinstance(k_, tuple) and k_ and k_[0] == "seqobj":
                st.facts[k_] = v_
        for d, l in ch:
            if ("seqobj", d) not in st.facts:
                st.facts[("seqobj", d)] = A.Seq(d, l, kind="bytes", attrs={"utf8": True} if d == "M" else {})
        outs = I.run(cons_e.body, consumer_args(facts, cons_e, st, key_name=key_name, footer=fcons, assertion=acons), st)
        und = _undecided(outs)
        if und:
            return None, "consumer: " + und
        runs.append((I, outs, " & ".join(c for c in o.state.cond if "len(" in c)))
    return runs, None


def roundtrip_rules(facts, prod_e, cons_e):
    """consumer(producer(M)) = M for matching footer / assertion (absent == empty); no Ok for another key, footer or assertion"""
    V, P = cons_e.vp
    v = M.view(facts, cons_e.body)
    ia = V in ("V3", "V4")
    good_cases = [(False, False), ("F", "F"), ("", False), (False, "")]
    probs = {"rt": [], "key": [], "footer": [], "assertion": []}
    n = 0
    for fp, fc in good_cases:
        for ap, ac in ([(False, False), ("A", "A"), ("", False), (False, "")] if ia else [(False, False)]):
            runs, why = compose(facts, prod_e, cons_e, fp, ap, fc, ac)
            if runs is None:
                return None, why
            n += len(runs)
            for I, o in [(I_, o_) for I_, outs_, _pc in runs for o_ in outs_]:
                kind, r = _variant(I, o)
                okv = PS.cd(I, o.state, r.fields.get("0")) if kind == "Ok" else None
                if kind == "panic":
                    probs["rt"].append("the consuming side panics on an authentic token (footer %r / %r%s) at %s" % (fp, fc, (", assertion %r / %r" % (ap, ac)) if ia else "", o.site or o.value))
                elif kind != "Ok" or okv != "M":
                    probs["rt"].append("built with footer %r%s and read with footer %r%s the token does not come back as the message: %s [%s]" % (
                        fp, (", assertion %r" % ap) if ia else "", fc, (", assertion %r" % ac) if ia else "", ("Ok(%s)" % okv[:120]) if kind == "Ok" else "%s(%s)" % (kind, PS.cd(I, o.state, r.fields.get("0"))[:80] if r is not None and hasattr(r, "fields") else ""), " & ".join(o.state.cond)[-200:]))
    neg = [("key", dict(key_name="K2" if P == "Local" else ("sec1c(pk(SK2))" if V == "V3" else "pk(SK2)")), (False, False, False, False)),
           ("footer", {}, ("F", False, "F2", False)), ("footer", {}, (False, False, "F2", False)), ("footer", {}, ("F", False, False, False))]
    if ia:
        neg += [("assertion", {}, (False, "A", False, "A2")), ("assertion", {}, (False, False, False, "A2")), ("assertion", {}, (False, "A", False, False))]
    for what, kw, (fp, ap, fc, ac) in neg:
        runs, why = compose(facts, prod_e, cons_e, fp, ap, fc, ac, **kw)
        if runs is None:
            return None, why
        n += len(runs)
        for I, o in [(I_, o_) for I_, outs_, _pc in runs for o_ in outs_]:
            kind, r = _variant(I, o)
            if kind == "Ok":
                probs[what].append("a token built with (footer %r, assertion %r) is accepted with %s [%s]" % (fp, ap, {"key": "another key", "footer": "footer %r" % fc, "assertion": "assertion %r" % ac}[what], " & ".join(o.state.cond)[-160:]))
    out = []
    lab = "%s.%s" % (V.lower(), P.lower())

    def emit(rules, key, what):
        ps = probs[key]
        for rl in rules:
            out.append(Finding(rl, not ps, cons_e.id, what if not ps else ps[0][:90], "; ".join(sorted(set(ps)))[:1200], v.file(), cons_e.body["line"], "%s: %s" % (lab, what)))
    emit(("C01.S1" if P == "Local" else "C02.S1", "C08.S3"), "rt", "consumer(producer(message)) = message for matching footer / assertion, absent == empty (%d compositions)" % n)
    emit(("C04.S2",), "key", "a token is not accepted under another key")
    emit(("C05.S3",), "footer", "a token is not accepted with another footer (absent == empty)")
    if ia:
        emit(("C06.S2",), "assertion", "a token is not accepted with another implicit assertion (absent == empty)")
    return out, None


def cross_rules(facts, by):
    """C07.S5: an authentic token of protocol X fails the cryptography of every other protocol Y of the same purpose even when it is relabelled to
    Y's header (the consuming side of Y run on the producing side of X's symbolic payload returns no Ok on any path)."""
    out = []
    und = []
    for (role, vpx), px in sorted(by.items()):
        if role != "producer":
            continue
        for (role2, vpy), cy in sorted(by.items()):
            if role2 != "consumer" or vpy == vpx or vpy[1] != vpx[1]:
                continue
            v = M.view(facts, cy.body)
            probs = []
            try:
                runs, why = compose(facts, px, cy, False, False, False, False)
            except Exception as ex:
                runs, why = None, "interpreter error %r" % (ex,)
            if runs is None:
                und.append((cy.id, "cross %s->%s" % (px.label, cy.label), why))
                continue
            for I, o in [(I_, o_) for I_, outs_, _pc in runs for o_ in outs_]:
                kind, r = _variant(I, o)
                if kind == "Ok":
                    probs.append("the payload of an authentic %s.%s token is accepted by %s.%s [%s]" % (vpx[0].lower(), vpx[1].lower(), vpy[0].lower(), vpy[1].lower(), " & ".join(o.state.cond)[-160:]))
            out.append(Finding("C07.S5", not probs, cy.id, "cross-protocol payload rejected" if not probs else probs[0][:90], "; ".join(sorted(set(probs)))[:800], v.file(), cy.body["line"],
                               "%s.%s does not accept the payload of an authentic %s.%s token" % (vpy[0].lower(), vpy[1].lower(), vpx[0].lower(), vpx[1].lower())))
    return out, und


_memo = {}


def analyse(facts, entries):
    """{rule id -> [Finding]} plus {'undecided': [(entry, why)]}"""
    k = id(facts)
    if k in _memo:
        return _memo[k]
    core = S.select(entries, "core")
    by = {(e.role, e.vp): e for e in core}
    res = {"findings": [], "undecided": []}
    for e in core:
        try:
            fs, why = (producer_rules if e.role == "producer" else consumer_rules)(facts, e)
        except Exception as ex:   # an interpreter failure is an undecided verdict, not a crash of the check
            fs, why = None, "interpreter error %r" % (ex,)
        if fs is None:
            res["undecided"].append((e.id, e.role, why))
        else:
            res["findings"] += fs
    for vp in S.PROTOS:
        p, c = by.get(("producer", vp)), by.get(("consumer", vp))
        if p and c:
            try:
                fs, why = roundtrip_rules(facts, p, c)
            except Exception as ex:
                fs, why = None, "interpreter error %r" % (ex,)
            if fs is None:
                res["undecided"].append((c.id, "roundtrip", why))
            else:
                res["findings"] += fs
    try:
        fs, und = cross_rules(facts, by)
        res["findings"] += fs
        res["undecided"] += und
    except Exception as ex:
        res["undecided"].append(("(cross protocol)", "cross", "interpreter error %r" % (ex,)))
    _memo[k] = res
    return res
