"""Fact extraction and loading (engine E1 front end).

Runs the pvfacts driver (a rustc_private RUSTC_WORKSPACE_WRAPPER) under `cargo +nightly check`
for a feature configuration of the repository and loads the resulting JSON fact file.
Facts are cached under WORK keyed by a hash of the repository sources + the driver binary, so an
edited tree is always re-analysed.  Nothing of the analysed crate is executed.
"""
import fcntl
import glob
import hashlib
import json
import os
import shutil
import subprocess
import sys
import time

VERIF = os.path.dirname(os.path.dirname(os.path.abspath(__file__)))
REPO = os.environ.get("PV_REPO", "/repo")
WORK = os.environ.get("PV_WORK", "/var/tmp/rusty_paseto_verif")
DRIVER_SRC = os.path.join(VERIF, "driver")
DRIVER_TARGET = os.path.join(WORK, "driver_target")
DRIVER_BIN = os.path.join(DRIVER_TARGET, "debug", "pvfacts")

PROTOCOLS = ["v1_local", "v2_local", "v3_local", "v4_local", "v1_public", "v2_public", "v3_public", "v4_public"]

CONFIGS = {
    "all": ["batteries_included"] + PROTOCOLS,
    "default": ["batteries_included", "v4_local", "v4_public"],
}
for _p in PROTOCOLS:
    CONFIGS[_p] = ["batteries_included", _p]


def repo_suffix(repo=None):
    """scratch-directory suffix: empty for /repo, a short hash for a scratch copy (so that parallel runs on copies do not collide)"""
    repo = repo or REPO
    if os.path.realpath(repo) == "/repo":
        return ""
    return "_" + hashlib.sha1(repo.encode()).hexdigest()[:8]


def _env():
    e = dict(os.environ)
    e["CARGO_NET_OFFLINE"] = "true"
    e["RUSTC_ICE"] = "0"
    e.pop("RUSTC_WRAPPER", None)
    return e


_sysroot = None


def nightly_sysroot():
    global _sysroot
    if _sysroot is None:
        _sysroot = subprocess.check_output(["rustc", "+nightly", "--print", "sysroot"], env=_env(), text=True).strip()
    return _sysroot


def build_driver(force=False):
    """Build the driver if its binary is missing or older than its sources."""
    os.makedirs(WORK, exist_ok=True)
    srcs = [os.path.join(DRIVER_SRC, "src", "main.rs"), os.path.join(DRIVER_SRC, "Cargo.toml")]
    if not force and os.path.exists(DRIVER_BIN) and all(os.path.getmtime(DRIVER_BIN) >= os.path.getmtime(s) for s in srcs):
        return
    with open(os.path.join(WORK, "driver.lock"), "w") as lk:
        fcntl.flock(lk, fcntl.LOCK_EX)
        if not force and os.path.exists(DRIVER_BIN) and all(os.path.getmtime(DRIVER_BIN) >= os.path.getmtime(s) for s in srcs):
            return
        e = _env()
        e["CARGO_TARGET_DIR"] = DRIVER_TARGET
        r = subprocess.run(["cargo", "+nightly", "build", "--offline"], cwd=DRIVER_SRC, env=e, capture_output=True, text=True)
        if r.returncode != 0:
            sys.stderr.write(r.stderr)
            raise RuntimeError("pvfacts driver does not build")


def tree_hash(repo=None):
    repo = repo or REPO
    h = hashlib.sha256()
    files = sorted(glob.glob(os.path.join(repo, "src", "**", "*.rs"), recursive=True))
    files += [os.path.join(repo, "Cargo.toml"), os.path.join(repo, "Cargo.lock")]
    for f in files:
        h.update(os.path.relpath(f, repo).encode())
        h.update(b"\0")
        try:
            with open(f, "rb") as fh:
                h.update(fh.read())
        except OSError:
            h.update(b"<missing>")
        h.update(b"\0")
    try:
        with open(os.path.join(DRIVER_SRC, "src", "main.rs"), "rb") as fh:
            h.update(fh.read())
    except OSError:
        pass
    h.update(repo.encode())
    return h.hexdigest()[:24]


class ExtractError(Exception):
    def __init__(self, config, stderr):
        super().__init__("configuration %s does not type-check" % config)
        self.config = config
        self.stderr = stderr


def rustc_errors(stderr):
    out = []
    for line in stderr.splitlines():
        if line.startswith("error"):
            out.append(line.strip())
    return out


def extract(config, repo=None, features=None, th=None):
    """Return the path of the fact file for `config` (building it if necessary)."""
    repo = repo or REPO
    feats = features if features is not None else CONFIGS[config]
    build_driver()
    th = th or tree_hash(repo)
    fdir = os.path.join(WORK, "facts", th)
    os.makedirs(fdir, exist_ok=True)
    out = os.path.join(fdir, config + ".json")
    errf = os.path.join(fdir, config + ".err")
    if os.path.exists(out):
        return out
    if os.path.exists(errf):
        raise ExtractError(config, open(errf).read())
    tdir = os.path.join(WORK, "t_" + ("all" if True else config))
    os.makedirs(tdir, exist_ok=True)
    with open(os.path.join(WORK, "extract.lock"), "w") as lk:
        fcntl.flock(lk, fcntl.LOCK_EX)
        if os.path.exists(out):
            return out
        if os.path.exists(errf):
            raise ExtractError(config, open(errf).read())
        # cargo replays cached diagnostics and skips the wrapper when the unit is fresh
        for fp in glob.glob(os.path.join(tdir, "debug", ".fingerprint", "rusty_paseto-*")):
            shutil.rmtree(fp, ignore_errors=True)
        e = _env()
        e["LD_LIBRARY_PATH"] = os.path.join(nightly_sysroot(), "lib") + ":" + e.get("LD_LIBRARY_PATH", "")
        e["RUSTFLAGS"] = "-Zmir-opt-level=0 -Awarnings"
        e["RUSTC_WORKSPACE_WRAPPER"] = DRIVER_BIN
        e["CARGO_TARGET_DIR"] = tdir
        e["PVFACTS_OUT"] = out
        e["PVFACTS_CONFIG"] = config
        e["PVFACTS_TREE_HASH"] = th
        e["PVFACTS_CRATE"] = "rusty_paseto"
        cmd = ["cargo", "+nightly", "check", "--offline", "--lib", "--no-default-features", "--features", " ".join(feats),
               "--manifest-path", os.path.join(repo, "Cargo.toml")]
        r = subprocess.run(cmd, env=e, capture_output=True, text=True, cwd=WORK)
        if r.returncode != 0 or not os.path.exists(out):
            with open(errf, "w") as fh:
                fh.write(r.stderr)
            raise ExtractError(config, r.stderr)
    return out


_cache = {}


def load(config, repo=None):
    repo = repo or REPO
    # hashed before the build: cargo may rewrite a (git-ignored) Cargo.lock when Cargo.toml changed
    th = tree_hash(repo)
    path = extract(config, repo, th=th)
    if path in _cache:
        return _cache[path]
    with open(path) as fh:
        f = json.load(fh)
    if f.get("tree_hash") != th or f.get("config") != config:
        raise RuntimeError("stale fact file %s (tree hash %s, expected %s)" % (path, f.get("tree_hash"), th))
    from . import canon
    renames = canon.canonicalise(f)
    facts = Facts(f, repo)
    facts.canon = renames
    _cache[path] = facts
    return facts


def gc_old(keep=6):
    """Remove fact directories of older tree hashes (disk hygiene)."""
    d = os.path.join(WORK, "facts")
    if not os.path.isdir(d):
        return
    ents = sorted((os.path.getmtime(os.path.join(d, x)), x) for x in os.listdir(d))
    for _, x in ents[:-keep]:
        shutil.rmtree(os.path.join(d, x), ignore_errors=True)


class Facts:
    def __init__(self, raw, repo):
        self.raw = raw
        self.repo = repo
        self.config = raw["config"]
        self.bodies = {}
        for b in raw["bodies"]:
            self.bodies[b["id"]] = b
        self.adts = {a["path"]: a for a in raw["adts"]}
        self.impls = raw["impls"]
        self.api = raw["api"]
        self.traits = raw["traits"]

    def body(self, bid):
        return self.bodies.get(bid)

    def find(self, pred):
        return [b for b in self.bodies.values() if pred(b)]

    def rel(self, path):
        if path.startswith(self.repo.rstrip("/") + "/"):
            return path[len(self.repo.rstrip("/")) + 1:]
        return path


# ------------------------------------------------------------------ pretty printer (debugging aid and report text)
def fmt_place(p):
    s = "_%d" % p["l"]
    for pr in p["p"]:
        k = pr["k"]
        if k == "deref":
            s = "(*%s)" % s
        elif k == "field":
            s = "%s.%s" % (s, pr.get("name", pr["i"]))
        elif k == "index":
            s = "%s[_%d]" % (s, pr["l"])
        elif k == "cidx":
            s = "%s[%s%d of %d]" % (s, "-" if pr["from_end"] else "", pr["offset"], pr["min_length"])
        elif k == "subslice":
            s = "%s[%d..%s%d]" % (s, pr["from"], "-" if pr["from_end"] else "", pr["to"])
        elif k == "downcast":
            s = "(%s as %s)" % (s, pr["variant"])
        else:
            s = "%s<%s>" % (s, k)
    return s


def fmt_op(o):
    k = o["k"]
    if k in ("copy", "move"):
        return ("move " if k == "move" else "") + fmt_place(o["place"])
    if k == "const":
        if "str" in o:
            return "const %r" % o["str"]
        if "int" in o:
            return "const %d" % o["int"]
        if "fn" in o:
            return "fn %s" % o["fn_inst"]
        if "promoted" in o:
            return "promoted[%d]" % o["promoted"]
        if "static" in o:
            return "&static %s" % o["static"]
        return o["disp"]
    return k


def fmt_rv(rv):
    k = rv["k"]
    if k == "use":
        return fmt_op(rv["op"])
    if k == "ref":
        return "&%s%s" % ("mut " if rv["bk"] == "mut" else "", fmt_place(rv["place"]))
    if k == "cast":
        return "%s as %s (%s)" % (fmt_op(rv["op"]), rv["ty"], rv["ck"])
    if k == "binop":
        return "%s(%s, %s)" % (rv["op"], fmt_op(rv["l"]), fmt_op(rv["r"]))
    if k == "unop":
        return "%s(%s)" % (rv["op"], fmt_op(rv["x"]))
    if k == "discriminant":
        return "discriminant(%s)" % fmt_place(rv["place"])
    if k == "aggregate":
        ak = rv["ak"]
        fs = ", ".join(fmt_op(f) for f in rv["fields"])
        if ak == "adt":
            return "%s::%s{%s}" % (rv["adt"], rv["variant"], ", ".join("%s: %s" % (n, fmt_op(f)) for n, f in zip(rv["field_names"], rv["fields"])))
        if ak == "closure":
            return "closure %s [%s]" % (rv["closure"], fs)
        return "%s[%s]" % (ak, fs)
    if k == "copy_for_deref":
        return "deref_copy %s" % fmt_place(rv["place"])
    if k == "repeat":
        return "[%s; %s]" % (fmt_op(rv["op"]), rv.get("count", rv.get("count_param", rv["count_disp"])))
    return k


def fmt_body(b):
    out = ["fn %s  (%s:%d) args=%d" % (b["id"], b["file"], b["line"], b["arg_count"])]
    names = {}
    for n in b["names"]:
        if not n["place"]["p"]:
            names[n["place"]["l"]] = n["name"]
    for i, l in enumerate(b["locals"]):
        out.append("  let _%d: %s%s" % (i, l["ty"], ("  // " + names[i]) if i in names else ""))
    for i, blk in enumerate(b["blocks"]):
        out.append("  bb%d%s:" % (i, " (cleanup)" if blk["cleanup"] else ""))
        for st in blk["stmts"]:
            if st["k"] == "assign":
                out.append("    %s = %s   [%d]" % (fmt_place(st["place"]), fmt_rv(st["rv"]), st["ln"]))
            else:
                out.append("    %s" % st["k"])
        t = blk["term"]
        k = t["k"]
        if k == "call":
            c = t["callee"]
            name = c.get("resolved_inst") or c.get("inst") or ("indirect " + fmt_op(c["indirect"]))
            out.append("    %s = %s(%s) -> bb%s unwind %s  [%d]" % (fmt_place(t["dest"]), name, ", ".join(fmt_op(a) for a in t["args"]), t["target"], t["unwind"], t["ln"]))
        elif k == "switch":
            out.append("    switch(%s) %s otherwise bb%d  [%d]" % (fmt_op(t["discr"]), ", ".join("%d->bb%d" % (v, bb) for v, bb in t["targets"]), t["otherwise"], t["ln"]))
        elif k == "assert":
            out.append("    assert(%s == %s, %s) -> bb%d  [%d]" % (fmt_op(t["cond"]), t["expected"], t["msg"], t["target"], t["ln"]))
        elif k == "drop":
            out.append("    drop(%s) -> bb%d" % (fmt_place(t["place"]), t["target"]))
        elif k == "goto":
            out.append("    goto bb%d" % t["target"])
        else:
            out.append("    %s" % k)
    return "\n".join(out)


if __name__ == "__main__":
    cfg = sys.argv[1] if len(sys.argv) > 1 else "all"
    t0 = time.time()
    f = load(cfg)
    print("config", cfg, "bodies", len(f.bodies), "in %.1fs" % (time.time() - t0))
    for pat in sys.argv[2:]:
        for b in f.bodies.values():
            if pat in b["id"]:
                print(fmt_body(b))
                print()
