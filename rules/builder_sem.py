"""Observational contracts of the batteries-included builder (C13, C17): sequences of public calls, interpreted abstractly.

The properties speak about *every sequence of builder calls*.  The per-call rules of rules/layers.py and props/c17.py read and write
the builder's private fields (the duplicate marker, the acknowledgement flag) - they depend on how that state is represented.  Here
nothing is assumed about the representation: a PasetoBuilder value is obtained by interpreting `Default::default()`, driven through
its public methods (set_claim, set_no_expiration_danger_acknowledged, set_footer, build) with the wrapped GenericBuilder summarised
(its calls are recorded as events), and only what the public API shows is observed: which GenericBuilder calls `build` makes and
what it returns.

  S0   default()                                  build: no exp removal, one generic build(self.builder, key), its result returned
  ACK  default(); acknowledge()                   build: remove_claim("exp") exactly once, before the generic build; again on a second build
  DUP  default(); set_claim(K); set_claim(K)      build: Err(DuplicateTopLevelPayloadClaim(K)), nothing built; again on a second build
  DUP; acknowledge()        /  ACK; DUP           build: still Err(Duplicate(K))            (an acknowledgement does not clear the record)
  DUP; set_claim(other)                           build: Err(Duplicate(K)) - the key named is the duplicated one
  default(); set_claim(K)                         build: Ok path (a single claim is no duplicate), value forwarded to the generic builder once
  default(); set_claim(K); set_footer(F)          build: no exp removal                     (nothing but the acknowledgement removes exp)
  set_claim(exp claim); acknowledge() / ACK; set_claim(K)   build: exp still removed
with K a custom key, "nbf" (whose default is replaced through remove_claim) and "exp"."""
import re

from . import absint as A
from . import mir as M
from . import models as MD
from . import skeleton as S
from .protocol_base import Finding

PB = "crate::prelude::paseto_builder::PasetoBuilder<"


def _method(facts, name, trait=None):
    bs = [b for bid, b in facts.bodies.items() if b.get("name") == name and (b.get("impl_self") or "").startswith(PB) and "{closure" not in bid and b.get("kind") == "AssocFn"
          and ((trait is None and not b.get("impl_trait")) or (trait is not None and trait in (b.get("impl_trait") or "")))]
    return bs[0] if len(bs) == 1 else None


def _d(I, st, v, depth=0):
    x = MD.deref(I, st, v)
    if isinstance(x, A.Struct) and depth < 5 and x.adt not in ("core::option::Option", "core::result::Result"):
        for k in ("key", "0", "header"):
            if k in x.fields:
                return _d(I, st, x.fields[k], depth + 1)
    if isinstance(x, A.Sym):
        return x.name
    return MD.describe(I, st, v)


def _claim_desc(I, st, v):
    """(key, value) of a typed claim value (a newtype around a (key, value) pair), as descriptions"""
    x = MD.deref(I, st, v)
    g = 0
    while isinstance(x, A.Struct) and set(x.fields) == {"0"} and g < 3:
        x = MD.deref(I, st, x.fields["0"])
        g += 1
    if isinstance(x, A.Struct) and {"0", "1"} <= set(x.fields):
        return (MD.describe(I, st, x.fields["0"]), MD.describe(I, st, x.fields["1"]))
    return (getattr(x, "name", repr(x)), None)


class Driver:
    def __init__(self, facts):
        self.facts = facts
        self.I = A.Interp(facts, MD.MODELS, max_paths=20000)
        self.I.concrete_maps = True

        def ev(name, ret_self=True):
            def f(I, st, args):
                st.events.append((name, [_d(I, st, a) for a in args[1:]]))
                if name == "gb.set_claim" and len(args) > 1:
                    st.events.append(("gb.claim", _claim_desc(I, st, args[1])))
                return args[0] if (ret_self and args) else A.UNIT
            return f

        def build(I, st, args):
            st.events.append(("gb.build", [_d(I, st, a) for a in args]))
            return A.Sym("generic_result")
        stubs = [(r"GenericBuilder::<.*>::(try_encrypt|try_sign)$", build), (r"GenericBuilder::<.*>::remove_claim$", ev("gb.remove_claim")),
                 (r"GenericBuilder::<.*>::set_claim$", ev("gb.set_claim")), (r"GenericBuilder::<.*>::(set_footer|set_implicit_assertion|extend_claims)$", ev("gb.other")),
                 (r"GenericBuilder<.*> as core::default::Default>::default$|GenericBuilder::<.*>::new$", lambda I, st, args: A.Sym("gb"))]
        self.I.fn_stubs = [(re.compile(p), f) for p, f in stubs]
        self.default = _method(facts, "default", "Default")
        self.set_claim = _method(facts, "set_claim")
        self.ack = _method(facts, "set_no_expiration_danger_acknowledged")
        self.set_footer = _method(facts, "set_footer")
        self.why = None

    def ready(self):
        miss = [n for n, b in (("default", self.default), ("set_claim", self.set_claim), ("set_no_expiration_danger_acknowledged", self.ack), ("set_footer", self.set_footer)) if b is None]
        return not miss, miss

    def _bad(self, o):
        return o.kind not in ("return", "panic") or bool(o.state.unmodelled) or any("undecided" in n for n in o.state.notes)

    def start(self):
        """[(state, cell of the builder)]"""
        outs = self.I.run(self.default, [], A.State())
        res = []
        for o in outs:
            if self._bad(o):
                self.why = "default(): %s %s %s" % (o.kind, o.state.unmodelled[:2], [n for n in o.state.notes if "undecided" in n][:1])
                return None
            if o.kind == "panic":
                continue        # the infallible unwraps of default()
            res.append((o.state, o.state.new_cell(o.value)))
        if not res:
            self.why = "default() has no returning path"
            return None
        return res

    def call(self, states, body, args):
        """apply a &mut self method to every state; args: callable(state) -> list of further arguments.  [(state, cell, value)]"""
        res = []
        for st, cell in states:
            st = st.clone()
            outs = self.I.run(body, [A.Ptr(cell)] + list(args(st)), st)
            for o in outs:
                if self._bad(o):
                    self.why = "%s: %s %s %s" % (M.short(body["id"])[-40:], o.kind, o.state.unmodelled[:2], [n for n in o.state.notes if "undecided" in n][:1])
                    return None
                if o.kind == "panic":
                    continue
                res.append((o.state, cell, o.value))
        return res

    def claim(self, key, name=None):
        return lambda st: [A.Sym(name or "claim_%s" % key, attrs={"claim_key": key})]


def _err_payload(I, s, r):
    """('Err', variant name, payload description) / ('Ok'|'value', ..)"""
    r = I.resolve(s, r)
    if isinstance(r, A.Sym):
        return ("value", r.name, None)
    if not (isinstance(r, A.Struct) and r.variant in ("Ok", "Err")):
        return ("?", repr(r), None)
    if r.variant == "Ok":
        return ("Ok", _d(I, s, r.fields.get("0")), None)
    ev = MD.deref(I, s, r.fields.get("0"))
    g = 0
    while isinstance(ev, A.Struct) and ev.adt == "(converted)" and g < 4:
        ev = MD.deref(I, s, ev.fields.get("source"))
        g += 1
    if isinstance(ev, A.Struct) and ev.variant:
        return ("Err", ev.variant, _d(I, s, ev.fields.get("0")) if "0" in ev.fields else None)
    return ("Err", getattr(ev, "name", repr(ev)), None)


def analyse(facts, entries):
    """dict entry id -> (findings | None, why undecided) for the 8 prelude producers, plus key '(builder)' for the call-sequence rules
    that do not depend on the version"""
    out = {}
    D = Driver(facts)
    okr, miss = D.ready()
    prods = S.select(entries, "prelude", "producer")
    if not okr:
        for e in prods:
            out[e.id] = None, "PasetoBuilder methods not found: %s" % miss
        return out
    kk = lambda st: [A.Ptr(st.new_cell(A.Sym("key")))]
    none = lambda st: []
    foot = lambda st: [A.Struct("crate::core::footer::Footer", None, {"0": A.Seq("F", A.Aff.sym("len(F)"), kind="str")})]
    for e in prods:
        b = e.body
        v = M.view(facts, b)
        probs = []
        und = [None]

        def seq(*steps):
            sts = D.start()
            if sts is None:
                und[0] = D.why
                return None
            for body, args in steps:
                r = D.call(sts, body, args)
                if r is None:
                    und[0] = D.why
                    return None
                sts = [(s, c) for s, c, _v in r]
            return sts

        def build(sts, times=1):
            """[(events of the last build, result triple, state)] after `times` builds"""
            res = []
            cur = [(s, c, len(s.events)) for s, c in sts]
            for _t in range(times):
                nxt = []
                for s, c, _n in cur:
                    n0 = len(s.events)
                    r = D.call([(s, c)], b, kk)
                    if r is None:
                        und[0] = D.why
                        return None
                    for s2, c2, val in r:
                        nxt.append((s2, c2, n0, val))
                cur = [(s2, c2, n0) for s2, c2, n0, _v in nxt]
                res = [(s2.events[n0:], _err_payload(D.I, s2, val), s2) for s2, _c2, n0, val in nxt]
            return res

        def expect(name, sts, want, times=1):
            if sts is None:
                return
            rs = build(sts, times)
            if rs is None:
                return
            if not rs:
                probs.append("%s: build has no returning path" % name)
            for evs, res, s in rs:
                rms = [x[1] for x in evs if x[0] == "gb.remove_claim"]
                blds = [x[1] for x in evs if x[0] == "gb.build"]
                muts = [x for x in evs if x[0] in ("gb.set_claim", "gb.other")]
                tag = "%s%s" % (name, " (second build)" if times > 1 else "")
                if muts:
                    probs.append("%s: building changes the generic builder's claims / footer (%s)" % (tag, muts[0]))
                if want.get("dup"):
                    if blds:
                        probs.append("%s: a token is built although a top-level claim was set twice" % tag)
                    if not (res[0] == "Err" and res[1] == "DuplicateTopLevelPayloadClaim" and res[2] == want["dup"]):
                        probs.append("%s: build returns %s, not Err(DuplicateTopLevelPayloadClaim(%s))" % (tag, res, want["dup"]))
                    continue
                if len(blds) != 1 or blds[0] != ["gb", "key"]:
                    probs.append("%s: expected exactly one GenericBuilder build(self.builder, key); found %s (result %s)" % (tag, blds, res[:2]))
                elif not (res[0] == "value" and res[1] == "generic_result"):
                    probs.append("%s: the generic builder's result is not returned as it is (%s)" % (tag, res[:2]))
                want_rm = [["'exp'"]] if want.get("rm") else []
                if rms != want_rm:
                    probs.append("%s: remove_claim calls %s, expected %s (exp is removed exactly when no-expiration was acknowledged)" % (tag, rms, want_rm))
                order = [x[0] for x in evs if x[0] in ("gb.remove_claim", "gb.build")]
                if "gb.remove_claim" in order and "gb.build" in order and order.index("gb.remove_claim") > order.index("gb.build"):
                    probs.append("%s: the expiration claim is removed after the token was built" % tag)

        ack = (D.ack, none)
        expect("default()", seq(), {})
        expect("default()", seq(), {}, times=2)
        expect("acknowledged", seq(ack), {"rm": True})
        expect("acknowledged", seq(ack), {"rm": True}, times=2)
        for K in ("K", "nbf", "exp"):
            c1 = (D.set_claim, D.claim(K, "first_" + K))
            c2 = (D.set_claim, D.claim(K, "second_" + K))
            oth = (D.set_claim, D.claim("other"))
            kq = "'%s'" % K
            expect("set_claim(%s)" % K, seq(c1), {})
            expect("set_claim(%s) twice" % K, seq(c1, c2), {"dup": kq})
            expect("set_claim(%s) twice" % K, seq(c1, c2), {"dup": kq}, times=2)
            expect("set_claim(%s) twice, then acknowledged" % K, seq(c1, c2, ack), {"dup": kq})
            expect("acknowledged, then set_claim(%s) twice" % K, seq(ack, c1, c2), {"dup": kq})
            expect("set_claim(%s) twice, then set_claim(other)" % K, seq(c1, c2, oth), {"dup": kq})
            expect("set_claim(other), then set_claim(%s)" % K, seq(oth, c1), {})
            expect("set_claim(%s), set_footer" % K, seq(c1, (D.set_footer, foot)), {})
            # a successful build in between does not make the builder forget what the caller supplied
            expect("set_claim(%s), build, set_claim(%s) again" % (K, K), seq(c1, (b, kk), c2), {"dup": kq})
        # the empty key is a key like any other for the duplicate rule (the generic builder ignores such a claim, the history still repeats it)
        e1, e2 = (D.set_claim, D.claim("", "first_empty")), (D.set_claim, D.claim("", "second_empty"))
        expect("set_claim('')", seq(e1), {})
        expect("set_claim('') twice", seq(e1, e2), {"dup": "''"})
        # (acknowledged, then set_claim(exp) is refused as a duplicate by the current code - no token, nothing to state)
        for K in ("K", "iss", "sub", "aud", "nbf", "iat", "jti"):
            # the acknowledgement stands for exp alone: every other registered claim (and a custom one) can still be set once afterwards
            expect("acknowledged, then set_claim(%s)" % K, seq(ack, (D.set_claim, D.claim(K))), {"rm": True})
            expect("set_claim(%s), then acknowledged" % K, seq((D.set_claim, D.claim(K)), ack), {"rm": True})
        expect("set_claim(exp), then acknowledged", seq((D.set_claim, D.claim("exp")), ack), {"rm": True})
        if und[0]:
            out[e.id] = None, und[0]
            continue
        fs = []
        rl = "C01.R7" if e.vp[1] == "Local" else "C02.R5"
        for r2 in (rl, "C10.R4", "C13.R4", "C17.R4", "C13.R2", "C17.R2", "C13.R3"):
            if r2 == "C10.R4" and e.vp[1] != "Local":
                continue
            fs.append(Finding(r2, not probs, e.id, "build contract over call sequences" if not probs else probs[0][:90], "; ".join(sorted(set(probs)))[:700], v.file(), b["line"],
                              "%s: over 52 call sequences from default(): duplicate -> Err(Duplicate(that key)) and nothing built, also after an acknowledgement or a further claim, on a second build and when a successful build lies between the two occurrences; "
                              "exp removed exactly when acknowledged, before one generic build whose result is returned" % e.label))
        out[e.id] = fs, None
    # set_claim forwarding (version independent)
    probs = []
    und = None
    for K in ("K", "nbf", "iat", "exp", "iss", "sub", "aud", "jti"):
        sts = D.start()
        if sts is None:
            und = D.why
            break
        n0 = [(s, c, len(s.events)) for s, c in sts]
        r = D.call(sts, D.set_claim, D.claim(K, "the_claim"))
        if r is None:
            und = D.why
            break
        for (s0, _c, n), (s2, _c2, _v) in zip(n0, r):
            evs = s2.events[n:]
            fw = [x[1] for x in evs if x[0] == "gb.set_claim"]
            if fw != [["the_claim"]]:
                probs.append("set_claim(%s): the claim must go to GenericBuilder::set_claim exactly once; calls: %s" % (K, fw))
            rms = [x[1] for x in evs if x[0] == "gb.remove_claim"]
            if rms not in ([], [["'%s'" % K]]):
                probs.append("set_claim(%s) removes %s from the generic builder: a caller-supplied claim replaces the default of its own key only" % (K, rms))
    # the defaults: what default() hands to the generic builder, and how often it reads the clock
    dv = M.view(facts, D.default)
    outs = D.I.run(D.default, [], A.State())
    dprobs, dund, nret = [], None, 0
    for o in outs:
        if D._bad(o):
            dund = "default(): %s %s %s" % (o.kind, o.state.unmodelled[:2], [n for n in o.state.notes if "undecided" in n][:1])
            break
        if o.kind != "return":
            continue
        nret += 1
        got = sorted(e[1] for e in o.state.events if e[0] == "gb.claim")
        want = sorted([("'exp'", "rfc3339(now+3600s)"), ("'iat'", "rfc3339(now)"), ("'nbf'", "rfc3339(now)")])
        if got != want:
            probs_ = "default() gives the generic builder %s, expected %s (one hour after the creation time / the creation time, RFC 3339)" % (got, want)
            dprobs.append(probs_)
        if o.state.facts.get("now_calls", 0) != 1:
            dprobs.append("default() reads the clock %d times: iat, nbf and exp must derive from one creation time" % o.state.facts.get("now_calls", 0))
    if not dund and nret == 0:
        dund = "default() has no returning path"
    # every public way to obtain a builder without one starts from the same defaults (a public `new()` that hands out the bare builder
    # issues tokens without exp / iat / nbf although no-expiration was never acknowledged)
    for cb in sorted(facts.bodies.values(), key=lambda b_: b_["id"]):
        if cb is D.default or cb.get("vis") != "pub" or cb.get("kind") != "AssocFn" or (cb.get("arg_count") or 0) != 0:
            continue
        if not (cb.get("impl_self") or "").startswith("crate::prelude::paseto_builder::PasetoBuilder<") or not re.search(r"-> (crate::prelude::paseto_builder::PasetoBuilder<|Self\b)", cb.get("sig") or ""):
            continue
        for o in D.I.run(cb, [], A.State()):
            if D._bad(o):
                dund = dund or "%s: %s %s" % (M.short(cb["id"]), o.kind, o.state.unmodelled[:2])
                break
            if o.kind != "return":
                continue
            got = sorted(e[1] for e in o.state.events if e[0] == "gb.claim")
            if got != want:
                dprobs.append("the public constructor %s gives the generic builder %s, not the defaults %s of default()" % (M.short(cb["id"])[-60:], got, want))
    out["(defaults)"] = (None, dund) if dund else ([Finding("C13.R1", not dprobs, D.default["id"], "defaults" if not dprobs else dprobs[0][:90], "; ".join(sorted(set(dprobs)))[:600], dv.file(), D.default["line"],
                                                         "PasetoBuilder::default: one clock reading; exp = RFC 3339(now + 1h), iat = nbf = RFC 3339(now) through the typed claims, on every returning path")], None)
    sc = D.set_claim
    v = M.view(facts, sc)
    out["(set_claim)"] = (None, und) if und else ([Finding("C17.R5", not probs, sc["id"], "claim forwarded once" if not probs else probs[0][:90], "; ".join(sorted(set(probs)))[:500], v.file(), sc["line"],
                                                          "PasetoBuilder::set_claim forwards the claim to GenericBuilder::set_claim exactly once and removes at most the default of the same key (custom key and the seven registered keys)")], None)
    return out


_memo = {}


def analyse_cached(facts, entries):
    k = id(facts)
    if k not in _memo:
        _memo[k] = analyse(facts, entries)
    return _memo[k]


# ------------------------------------------------------------------ thorough tier: every call sequence up to a length, against a reference model
def exhaustive(facts, entries, maxlen=4, all_protocols_len=2):
    """Every sequence over {set_claim(K), set_claim(nbf), set_claim(exp), set_claim(other), acknowledge, set_footer, build} up to `maxlen`
    calls (for one protocol; up to `all_protocols_len` for the other seven), each followed by a build, compared with the reference
    behaviour the properties state:
        keys supplied twice D (a key counts when set_claim saw it before; the acknowledgement may or may not count as supplying exp),
        build: D non-empty -> Err(DuplicateTopLevelPayloadClaim(k)), k in D, nothing built;  otherwise remove_claim("exp") exactly when
        acknowledged, then one generic build whose result is returned; building changes nothing.
    Returns (number of sequences, problems, why undecided)."""
    D = Driver(facts)
    okr, miss = D.ready()
    if not okr:
        return 0, [], "PasetoBuilder methods not found: %s" % miss
    prods = S.select(entries, "prelude", "producer")
    kk = lambda st: [A.Ptr(st.new_cell(A.Sym("key")))]
    none = lambda st: []
    foot = lambda st: [A.Struct("crate::core::footer::Footer", None, {"0": A.Seq("F", A.Aff.sym("len(F)"), kind="str")})]
    probs = []
    nseq = 0
    for pi, e in enumerate(prods):
        limit = maxlen if pi == 0 else all_protocols_len
        alphabet = [("set_claim(K)", D.set_claim, D.claim("K"), "K"), ("set_claim(nbf)", D.set_claim, D.claim("nbf"), "nbf"), ("set_claim(exp)", D.set_claim, D.claim("exp"), "exp"),
                    ("set_claim(other)", D.set_claim, D.claim("other"), "other"), ("acknowledge", D.ack, none, None), ("set_footer", D.set_footer, foot, None), ("build", e.body, kk, None)]

        def check_build(name, sts, seen, dups, maybe, ack):
            """run build on clones of the states and compare with the reference"""
            r = D.call(sts, e.body, kk)
            if r is None:
                return D.why
            for (s0, _c0), (s2, _c2, val) in zip(sts, r) if len(r) == len(sts) else []:
                pass
            for s2, _c2, val in r:
                evs = s2.events[s2.facts.get("pv_mark", 0):]
                res = _err_payload(D.I, s2, val)
                rms = [x[1] for x in evs if x[0] == "gb.remove_claim"]
                blds = [x[1] for x in evs if x[0] == "gb.build"]
                if [x for x in evs if x[0] in ("gb.set_claim", "gb.other")]:
                    probs.append("%s: build changes the generic builder's claims / footer" % name)
                is_dup_err = res[0] == "Err" and res[1] == "DuplicateTopLevelPayloadClaim"
                if dups:
                    allowed = set("'%s'" % k for k in dups | maybe)
                    if not (is_dup_err and res[2] in allowed and not blds):
                        probs.append("%s: keys %s were supplied twice but build gives %s (built: %s)" % (name, sorted(dups), res, bool(blds)))
                    continue
                if is_dup_err and res[2] in set("'%s'" % k for k in maybe) and not blds:
                    continue        # exp set once after the acknowledgement: refused by the current code, no token - nothing stated
                if len(blds) != 1 or blds[0] != ["gb", "key"] or not (res[0] == "value" and res[1] == "generic_result"):
                    probs.append("%s: no key was supplied twice but build gives %s (generic builds: %s)" % (name, res[:3], blds))
                    continue
                want = [["'exp'"]] if ack else []
                if rms != want:
                    probs.append("%s: remove_claim calls %s, expected %s" % (name, rms, want))
            return None

        def mark(sts):
            for s, _c in sts:
                s.facts["pv_mark"] = len(s.events)

        def rec(name, sts, depth, seen, dups, maybe, ack):
            nonlocal nseq
            nseq += 1
            clones = [(s.clone(), c) for s, c in sts]
            mark(clones)
            why = check_build(name or "default()", clones, seen, dups, maybe, ack)
            if why:
                return why
            if depth >= limit or len(probs) > 40:
                return None
            for label, body, args, key in alphabet:
                nxt = [(s.clone(), c) for s, c in sts]
                mark(nxt)
                r = D.call(nxt, body, args)
                if r is None:
                    return D.why
                seen2, dups2, maybe2, ack2 = set(seen), set(dups), set(maybe), ack
                if key is not None:
                    if key in seen2:
                        dups2.add(key)
                    elif key == "exp" and ack:
                        maybe2.add("exp")
                    seen2.add(key)
                if label == "acknowledge":
                    ack2 = True
                if label == "build":
                    continue        # its outcome was just compared by check_build; what follows a build is explored from the states it leaves
                why = rec((name + "; " if name else "") + label, [(s, c) for s, c, _v in r], depth + 1, seen2, dups2, maybe2, ack2)
                if why:
                    return why
            # a build in the middle: continue from the states the build leaves behind (building must not change what later builds do)
            if depth + 1 < limit:
                nxt = [(s.clone(), c) for s, c in sts]
                r = D.call(nxt, e.body, kk)
                if r is None:
                    return D.why
                why = rec((name + "; " if name else "") + "build", [(s, c) for s, c, _v in r], depth + 1, seen, dups, maybe, ack)
                if why:
                    return why
            return None
        sts = D.start()
        if sts is None:
            return nseq, probs, D.why
        why = rec("", sts, 0, set(), set(), set(), False)
        if why:
            return nseq, probs, why
    return nseq, sorted(set(probs)), None
