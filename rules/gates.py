"""The two textual gates of Paseto::parse_raw_token (shared by C03, C05, C07):
   footer gate : a 4-segment token is accepted only through the *equal* edge of a full-length comparison between
                 the expected footer (absent == empty) and the token's 4th segment;
   header gate : every accepted token passed the equal edge of comparisons covering (segment 0, version) and
                 (segment 1, purpose).
Both are must-pass-through facts on the CFG; the comparison operands are checked as provenance terms."""
import re

from . import mir as M
from . import skeleton as S
from .mir import T

ENGINE = "URL_SAFE_NO_PAD"


def _one(t):
    """a text made of one rendered piece - `v.to_string()`, `format!("{}", v)` - is that piece"""
    t = str(t)
    return t[1:-1] if re.fullmatch(r"\{[^{}]*\}", t) else t



def content(t):
    """strip single-field carrier aggregates (Footer{0: x}, Payload{0: x}) and their .0 projections."""
    guard = 0
    while isinstance(t, T) and guard < 10:
        guard += 1
        if t.op == "agg" and len(t.args) == 1 and t.args[0].op == "fld" and re.search(r"::(Footer|Payload|ImplicitAssertion)::", str(t.name)):
            t = t.args[0].args[0]
            continue
        if t.op == "field" and t.name == "0" and t.args[0].op == "call" and re.search(r"unwrap_or_default$", t.args[0].name):
            # Footer(&str).0 of the defaulted Option: keep the call as the content
            t = t.args[0]
            continue
        break
    return t


class Gates:
    def __init__(self, facts):
        self.facts = facts
        self.problems = []     # (rule_suffix, construct, message, line)
        self.instances = []
        bodies = [b for bid, b in facts.bodies.items() if re.search(r"paseto::Paseto::<'a, Version, Purpose>::parse_raw_token$", bid)]
        if not bodies:
            # the same function as a free function / in another module (rules/canon.py restores the name when it was changed)
            bodies = [b for bid, b in facts.bodies.items() if bid.rsplit("::", 1)[-1] == "parse_raw_token" and bid.startswith("crate::core")]
        self.body = bodies[0] if len(bodies) == 1 else None
        if self.body is None:
            self.problems.append(("anchor", "parse_raw_token", "expected exactly one Paseto::parse_raw_token, found %d" % len(bodies), None))
            return
        self.v = M.view(facts, self.body)
        self.N = M.Normalizer(facts, keep=S.KEEP)
        self._analyse()

    # term helpers -------------------------------------------------------
    def is_parts(self, t):
        """collect(split(param raw_token, '.'))  (possibly viewed as a full slice: parts[..])"""
        if isinstance(t, T) and t.op == "call" and re.search(r"Index<core::ops::range::RangeFull>>::index$", t.name) and t.args:
            t = t.args[0]
        if not (isinstance(t, T) and t.op == "call" and re.search(r"Iterator>::collect::<alloc::vec::Vec<&str>>$|Iterator>::collect::<", t.name)):
            return False
        sp = t.args[0]
        return sp.op == "call" and re.search(r"<impl str>::split::<char>$", sp.name) and sp.args[0].op == "param" and sp.args[0].name == 1 and sp.args[1] == T("const", 46)

    def part_index(self, t):
        """i when t is parts[i] (Index<usize> with a constant), else None"""
        t = content(t)
        if isinstance(t, T) and t.op == "call" and re.search(r"Index<usize>>::index$", t.name) and self.is_parts(t.args[0]) and t.args[1].op == "const":
            return t.args[1].name
        # slice-pattern binding: parts[..][i]
        if isinstance(t, T) and t.op == "index" and self.is_parts(t.args[0]) and t.args[1].op == "const" and isinstance(t.args[1].name, int) and t.args[1].name >= 0:
            return t.args[1].name
        return None

    def parts_len(self, t):
        if isinstance(t, T) and t.op == "unop" and t.name == "PtrMetadata" and self.is_parts(t.args[0]):
            return True
        return isinstance(t, T) and t.op == "call" and re.search(r"Vec::<&str>::len$|Vec::<T, A>::len$|<impl \[T\]>::len$", t.name + " " + t.meta.get("def", "")) and self.is_parts(t.args[0])

    def expected_footer(self, t):
        """unwrap_or_default(param footer) (the Into<Option<Footer>> parameter, absent == empty)"""
        t = content(t)
        return isinstance(t, T) and t.op == "call" and re.search(r"Option::<.*Footer<'_>>::unwrap_or_default$", t.name) and t.args[0].op == "param" and t.args[0].name == 2

    def encoded(self, t):
        """inner x when t = URL_SAFE_NO_PAD.encode(x)"""
        if isinstance(t, T) and t.op == "call" and re.search(r"base64::engine::Engine::encode$", t.meta.get("tdef", "")) and t.args[0].op == "const" and ENGINE in str(t.args[0].name):
            return t.args[1]
        return None

    def decoded(self, t):
        if isinstance(t, T) and t.op == "tryok":
            t = t.args[0]
        if isinstance(t, T) and t.op == "call" and re.search(r"base64::engine::Engine::decode$", t.meta.get("tdef", "")) and t.args[0].op == "const" and ENGINE in str(t.args[0].name):
            return t.args[1]
        return None

    # analysis -----------------------------------------------------------
    def _analyse(self):
        v, N = self.v, self.N
        self.oks, self.errs, self.delegated = S.ok_exits(v)
        self.footer_edges = []
        self.header_edges = {0: [], 1: []}
        self.not4_edges = []      # edges that imply segment count != 4
        self.in34_edges = []      # edges that imply 3 <= count <= 4
        self.eq_sites = []
        for sw in M.bool_switches(v):
            t = N.norm(sw["term"])
            if sw["ty"] == "bool":
                tr, fl = M.truth_edges(sw)
                # (3..=4).contains(&len)
                neg = False
                tt = t
                while tt.op == "unop" and tt.name == "Not":
                    neg = not neg
                    tt = tt.args[0]
                if tt.op == "call" and re.search(r"RangeInclusive::<usize>::contains", tt.name) and self.parts_len(tt.args[1]):
                    rng = tt.args[0]
                    if rng.op == "call" and re.search(r"RangeInclusive::<usize>::new$", rng.name) and rng.args[0].op == "const" and rng.args[1].op == "const":
                        lo, hi = rng.args[0].name, rng.args[1].name
                        edge = (sw["block"], fl if neg else tr)
                        if lo >= 3 and hi <= 4:
                            self.in34_edges.append(edge)
                            if hi < 4:
                                self.not4_edges.append(edge)
                        self.instances.append("segment-count gate (%d..=%d).contains(len) at line %d" % (lo, hi, sw["ln"]))
                    continue
                eq = M.as_equality(t)
                if not eq:
                    continue
                a, b, pos, kind = eq
                eq_edge = (sw["block"], tr if pos else fl)
                ne_edge = (sw["block"], fl if pos else tr)
                # len == n  (slice patterns, explicit comparisons)
                for x, y in ((a, b), (b, a)):
                    if self.parts_len(x) and y.op == "const" and isinstance(y.name, int):
                        n = y.name
                        if n != 4:
                            self.not4_edges.append(eq_edge)
                        else:
                            self.not4_edges.append(ne_edge)
                        if n in (3, 4):
                            self.in34_edges.append(eq_edge)
                        self.instances.append("segment-count test len == %d at line %d" % (n, sw["ln"]))
                        break
                else:
                    self._classify_equality(a, b, kind, eq_edge, sw)
            else:
                # integer switch on the number of segments
                if self.parts_len(t):
                    for val, bb in sw["targets"].items():
                        if val != 4:
                            self.not4_edges.append((sw["block"], bb))
                        if val in (3, 4):
                            self.in34_edges.append((sw["block"], bb))
                    if 4 in sw["targets"]:
                        self.not4_edges.append((sw["block"], sw["otherwise"]))
                    self.instances.append("segment-count switch on len with arms %s at line %d" % (sorted(sw["targets"]), sw["ln"]))

    def _classify_equality(self, a, b, kind, eq_edge, sw):
        full_length = kind.startswith("ring") or kind.startswith("subtle") or bool(re.search(r"PartialEq .*(for &?\[u8\]>|for &?str>|<&A as core::cmp::PartialEq<&B>>|for alloc::vec::Vec<u8)", kind)) or bool(re.search(r"PartialEq <(str|alloc::string::String|\[u8\]|alloc::vec::Vec<u8>|&str|&\[u8\]|&alloc::string::String) as|PartialEq alloc::string::<impl core::cmp::PartialEq<(alloc::string::String|str|&'a str)> for (str|alloc::string::String|&'a str)>|PartialEq core::str::traits::<impl core::cmp::PartialEq for str>", kind)) or kind == "binop"
        # footer: (encode(expected), part3) in either order, or (expected bytes, decode(part3))
        for x, y in ((a, b), (b, a)):
            ex = self.encoded(x)
            if ex is not None and self.expected_footer(ex) and self.part_index(y) == 3:
                if full_length:
                    self.footer_edges.append(eq_edge)
                    self.eq_sites.append(("footer", kind, sw["ln"]))
                    self.instances.append("footer gate: %s(encode(expected footer or default), segment 3) at line %d" % (kind.split(" ")[0], sw["ln"]))
                else:
                    self.problems.append(("R1", "footer comparison callee", "the footer comparison %s is not a recognised full-length equality" % kind, sw["ln"]))
                return
            dy = self.decoded(y)
            if dy is not None and self.part_index(dy) == 3 and self.expected_footer(x):
                if full_length:
                    self.footer_edges.append(eq_edge)
                    self.eq_sites.append(("footer", kind, sw["ln"]))
                    self.instances.append("footer gate: %s(expected footer or default, decode(segment 3)) at line %d" % (kind.split(" ")[0], sw["ln"]))
                return
        # header: format(tpl, [part0, part1]) vs format(tpl, [v, p])  or direct component comparisons
        fa, fb = self._fmt(a), self._fmt(b)
        if fa and fb and fa[0] == fb[0] and len(fa[1]) == len(fb[1]):
            for x, y in ((fa, fb), (fb, fa)):
                for i, (u, w) in enumerate(zip(x[1], y[1])):
                    pi = self.part_index(u)
                    if pi in (0, 1) and self._is_vp_param(w, pi):
                        self.header_edges[pi].append(eq_edge)
            self.instances.append("header gate: %s over format(%r) of (segment 0, segment 1) vs (version, purpose) at line %d" % (kind.split(" ")[0], fa[0], sw["ln"]))
            return
        # prefix idiom: raw_token[..len(E)] == E with E = format("{}.{}.", v, p): equal prefixes up to and including the second '.'
        for x, y in ((a, b), (b, a)):
            fy = self._fmt(y)
            if fy and fy[0] in (b"\xc0\x01.\xc0\x01.\x00", 'b"\\xc0\\x01.\\xc0\\x01.\\x00"') and len(fy[1]) == 2 and self._is_vp_param(fy[1][0], 0) and self._is_vp_param(fy[1][1], 1) and \
                    x.op == "call" and re.search(r"Index<core::ops::range::RangeTo<usize>> for str>::index$|<str as core::ops::index::Index<core::ops::range::RangeTo<usize>>>::index$", x.name) and \
                    x.args[0].op == "param" and x.args[0].name == 1:
                end = M.mk_field(x.args[1], "end")
                if end.op == "call" and re.search(r"::len$", end.name) and end.args[0] == y and full_length:
                    self.header_edges[0].append(eq_edge)
                    self.header_edges[1].append(eq_edge)
                    self.instances.append("header gate: token[..len(expected)] == expected with expected = format(\"{}.{}.\", version, purpose) at line %d" % sw["ln"])
                    return
        for x, y in ((a, b), (b, a)):
            pi = self.part_index(x)
            if pi in (0, 1) and self._is_vp_param(y, pi) and full_length:
                self.header_edges[pi].append(eq_edge)
                self.instances.append("header gate: %s(segment %d, %s) at line %d" % (kind.split(" ")[0], pi, "version" if pi == 0 else "purpose", sw["ln"]))

    def _fmt(self, t):
        """(template bytes, [display args]) for fmt::format(Arguments::new(template, [Argument::new_display(x)..]))"""
        if not (isinstance(t, T) and t.op == "call" and re.search(r"^alloc::fmt::format$", t.meta.get("tdef", ""))):
            return None
        a = t.args[0]
        if not (a.op == "call" and re.search(r"core::fmt::Arguments::<'_>::new::<|core::fmt::Arguments::<'a>::new", a.name + a.meta.get("tdef", ""))):
            return None
        tpl = a.args[0]
        arr = a.args[1]
        if tpl.op != "const" or arr.op != "agg":
            return None
        args = []
        for f in arr.args:
            x = f.args[0]
            if x.op == "call" and re.search(r"Argument::<'_>::new_display", x.name):
                args.append(x.args[0])
            else:
                return None
        return (tpl.name, args)

    def _is_vp_param(self, t, which):
        """the `v: &Version` (which=0) or `p: &Purpose` (which=1) parameter, possibly through as_ref/Display"""
        ps = [x for x in t.walk() if x.op == "param"] if isinstance(t, T) else []
        if len(ps) != 1:
            return False
        ty = self.v.local_ty(ps[0].name)
        return ty == ("&Version" if which == 0 else "&Purpose")

    def path_sensitive(self):
        if not hasattr(self, "_ps"):
            self._ps = path_sensitive(self.facts, self.body)
        return self._ps

    # verdicts -----------------------------------------------------------
    def footer_gate_ok(self):
        """every path to Ok passes a footer-equal edge or an edge implying segment count != 4"""
        if self.body is None:
            return False, "anchor missing"
        targets = self.oks + [b for b, _ in self.delegated]
        if not targets:
            return False, "no Ok exit found"
        # the path-sensitive interpreter decides when it can follow every path; otherwise the CFG argument
        ps = self.path_sensitive()
        if ps["decided"][0]:
            return ps["footer"]
        ok = bool(self.footer_edges) and bool(self.not4_edges) and self.v.cfg.must_pass(targets, edges=self.footer_edges + self.not4_edges)
        if not ok:
            return False, ps["footer"][1] or ps["decided"][1]
        return ok, None

    def count_gate_ok(self):
        if self.body is None:
            return False, "anchor missing"
        targets = self.oks + [b for b, _ in self.delegated]
        ps = self.path_sensitive()
        if ps["decided"][0]:
            return ps["count"]
        ok = bool(self.in34_edges) and self.v.cfg.must_pass(targets, edges=self.in34_edges)
        if not ok:
            return False, ps["count"][1] or ps["decided"][1]
        return ok, None

    def header_gate_ok(self, which):
        if self.body is None:
            return False, "anchor missing"
        targets = self.oks + [b for b, _ in self.delegated]
        edges = self.header_edges[which]
        ps = self.path_sensitive()
        if ps["decided"][0]:
            return ps["header%d" % which]
        ok = bool(edges) and self.v.cfg.must_pass(targets, edges=edges)
        if not ok:
            return False, ps["header%d" % which][1] or ps["decided"][1]
        return ok, None

    def refusal_ok(self):
        """every Err outcome of parse_raw_token has a stated cause (decided path-sensitively only)"""
        if self.body is None:
            return False, "anchor missing"
        ps = self.path_sensitive()
        if not ps["refusal"][0] and not ps["decided"][0]:
            # the interpreter does not understand how this version accepts tokens (an idiom without a model): its view of the refusals
            # is not evidence either; the accepting side is then decided by the structural gates alone
            structural = bool(self.footer_edges) and bool(self.in34_edges) and bool(self.header_edges[0]) and bool(self.header_edges[1])
            if structural:
                return True, None
        return ps["refusal"]

    def payload_ok(self):
        """the Ok value is URL_SAFE_NO_PAD.decode(segment 2)"""
        if self.body is None:
            return False, "anchor missing"
        ps = self.path_sensitive()
        if ps["decided"][0]:
            return ps["payload"] if ps["engine"][0] else ps["engine"]
        for d in self.v.defs.get(0, []):
            if d[0] == "assign" and d[3]["k"] == "aggregate" and d[3].get("variant") == "Ok":
                t = self.N.norm(self.v.op_term(d[3]["fields"][0]))
                dd = self.decoded(t)
                if dd is not None and dd.op == "phi" and all(self.part_index(x) == 2 for x in dd.args):
                    continue
                if dd is None or self.part_index(dd) != 2:
                    return False, "the returned bytes are %s, not the strict base64url decoding of segment 2" % M.show(t)[:160]
        return True, None


def path_sensitive(facts, body):
    """Second opinion by abstract interpretation (path sensitive): every accepting path of parse_raw_token
    (a) has 3 or 4 segments, (b) with 4 segments found encode(expected footer or default) equal to segment 3,
    (c) found the header text equal to the expected one, (d) returns the decoding of segment 2.
    Returns dict of verdicts {footer, count, header0, header1, payload} -> (ok, why)."""
    from . import absint as A
    from . import models as MD
    I = A.Interp(facts, MD.MODELS)
    st = A.State()

    def mk(st_, sym, variant):
        if variant == "None":
            return A.none()
        return A.some(A.Struct("crate::core::footer::Footer", None, {"0": A.Seq("footer.str", A.Aff.sym("len(footer)"), kind="str")}))
    args = [A.Seq("token", A.Aff.sym("len(token)"), kind="str"), A.Sym("footer", attrs={"adt": "core::option::Option", "make_variant": mk}),
            A.Ptr(st.new_cell(A.Sym("V"))), A.Ptr(st.new_cell(A.Sym("P")))]
    outs = I.run(body, args, st)
    v = {"footer": [True, None], "count": [True, None], "header0": [True, None], "header1": [True, None], "payload": [True, None]}
    undecided = []
    n_ok = 0
    for o in outs:
        if o.kind != "return":
            continue
        r = I.resolve(o.state, o.value)
        if not (isinstance(r, A.Struct) and r.variant == "Ok"):
            continue
        n_ok += 1
        if o.state.unmodelled or any("undecided" in n for n in o.state.notes):
            undecided.append("accepting path not decided (%s %s)" % (o.state.unmodelled, o.state.notes[:1]))
            for k in v:
                v[k] = [False, undecided[-1]]
            continue
        lo, hi = o.state.bounds.get("len(parts0)", (1, A.LEN_MAX))
        eqs = [(_one(e[1]), _one(e[2])) for e in o.state.events if e[0] == "equal"]
        cond = " & ".join(o.state.cond)[-200:]
        if not (3 <= lo and hi <= 4):
            v["count"] = [False, "a token with %d..%d segments is accepted when [%s]" % (lo, hi, cond)]
        if hi >= 4:
            good = any({a, b} in ({"b64(footer.str)", "parts0[3]"}, {"b64('')", "parts0[3]"}) for a, b in eqs)
            if not good:
                v["footer"] = [False, "a 4-segment token is accepted without encode(expected footer or default) having been found equal to segment 3 when [%s]" % cond]
        if lo <= 3:
            # without a footer segment the token matches only an absent or empty expected footer: otherwise an authentic token with
            # footer F whose footer segment was cut off is accepted by a caller who expects F (F is authenticated from the caller's value)
            _flo, fhi = o.state.bounds.get("len(footer)", (0, A.LEN_MAX))
            if any(c == "footer is Some" for c in o.state.cond) and fhi >= 1:
                v["footer"] = [False, "a 3-segment token is accepted although a non-empty footer is expected (an authentic token whose footer segment "
                                      "was deleted passes) when [%s]" % cond]
            elif not any(c in ("footer is Some", "footer is None") for c in o.state.cond):
                v["footer"] = [False, "a 3-segment token is accepted without the expected footer having been examined when [%s]" % cond]
        h0 = any({a, b} == {"{parts0[0]}.{parts0[1]}.", "{V}.{P}."} or {a, b} == {"parts0[0]", "V"} for a, b in eqs)
        h1 = any({a, b} == {"{parts0[0]}.{parts0[1]}.", "{V}.{P}."} or {a, b} == {"parts0[1]", "P"} for a, b in eqs)
        if not h0:
            v["header0"] = [False, "a token is accepted without segment 0 having been found equal to the expected version when [%s]" % cond]
        if not h1:
            v["header1"] = [False, "a token is accepted without segment 1 having been found equal to the expected purpose when [%s]" % cond]
        pv = MD.deref(I, o.state, r.fields.get("0"))
        if not (isinstance(pv, A.Seq) and pv.name.startswith("decoded") and pv.attrs.get("decoded_of", "parts0[2]") == "parts0[2]"):
            v["payload"] = [False, "the accepted value is %r, not the base64url decoding of segment 2" % (pv,)]
    if n_ok == 0:
        undecided.append("no accepting path found by the abstract interpreter")
        for k in v:
            v[k] = [False, undecided[-1]]
    if any(o.kind == "abort" for o in outs):
        undecided.append("a path was abandoned by the interpreter")
    # refusals: every Err outcome has one of the stated causes (segment count, footer mismatch, header mismatch, payload not base64url);
    # a refusal for any other reason turns away tokens the producing side emits
    v["refusal"] = [True, None]
    v["engine"] = [True, None]
    n_err = 0
    for o in outs:
        if o.kind == "panic":
            continue
        if o.kind != "return":
            v["refusal"] = [False, "a path could not be followed to its end (%s)" % (o.value,)]
            continue
        r = I.resolve(o.state, o.value)
        if isinstance(r, A.Struct) and r.variant == "Ok":
            pv = MD.deref(I, o.state, r.fields.get("0"))
            if isinstance(pv, A.Seq) and "URL_SAFE_NO_PAD" not in pv.attrs.get("engine", "URL_SAFE_NO_PAD"):
                v["engine"] = [False, "segment 2 is decoded with %s, not URL_SAFE_NO_PAD" % pv.attrs.get("engine")]
            continue
        if not (isinstance(r, A.Struct) and r.variant == "Err"):
            v["refusal"] = [False, "an outcome is neither Ok nor Err: %r" % (r,)]
            continue
        n_err += 1
        cond = " & ".join(o.state.cond)[-240:]
        if o.state.unmodelled:
            v["refusal"] = [False, "refusing path not decided (unmodelled %s)" % (o.state.unmodelled,)]
            continue
        lo, hi = o.state.bounds.get("len(parts0)", (1, A.LEN_MAX))
        excl = o.state.facts.get(("excl", "len(parts0)"), ())
        if not [n for n in (3, 4) if lo <= n <= hi and n not in excl]:
            continue
        flo, _fhi = o.state.bounds.get("len(footer)", (0, A.LEN_MAX))
        has_footer = any(c == "footer is Some" for c in o.state.cond)
        if hi <= 3 and has_footer and flo >= 1:
            continue    # a token without footer segment when a non-empty footer is expected: the producer always writes a non-empty footer
        why = None
        for e in o.state.events:
            if e[0] == "notequal":
                pair = {_one(e[1]), _one(e[2])}
                if pair in ({"b64(footer.str)", "parts0[3]"}, {"b64('')", "parts0[3]"}) and lo >= 4:
                    why = "footer"
                if pair in ({"{parts0[0]}.{parts0[1]}.", "{V}.{P}."}, {"parts0[0]", "V"}, {"parts0[1]", "P"}):
                    why = "header"
            elif e[0] == "decodefail" and e[1] == "parts0[2]":
                why = "payload"
        if why is None:
            v["refusal"] = [False, "a token is refused (%s) without a segment-count, footer, header or payload-decoding cause when [%s]" % (MD.describe(I, o.state, r.fields.get("0")), cond)]
    if n_err == 0 and v["refusal"][0]:
        v["refusal"] = [False, "no refusing path found by the abstract interpreter"]
    res = {k: tuple(x) for k, x in v.items()}
    res["decided"] = (not undecided, "; ".join(undecided[:2]))
    return res


_g = {}


def gates(facts):
    k = id(facts)
    if k not in _g:
        _g[k] = Gates(facts)
    return _g[k]
