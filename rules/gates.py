"""The two textual gates of Paseto::parse_raw_token (shared by C03, C05, C07):
   footer gate : a 4-segment token is accepted only through the *equal* edge of a full-length comparison between
                 the expected footer (absent == empty) and the token's 4th segment;
   header gate : every accepted token passed the equal edge of comparisons covering (segment 0, version) and
                 (segment 1, purpose).
Both are must-pass-through facts on the CFG; the comparison operands are checked as provenance terms."""
import re

from . import mir as M
from . import skeleton as S
from .mir import T

ENGINE = "URL_SAFE_NO_PAD"


def content(t):
    """strip single-field carrier aggregates (Footer{0: x}, Payload{0: x}) and their .0 projections."""
    guard = 0
    while isinstance(t, T) and guard < 10:
        guard += 1
        if t.op == "agg" and len(t.args) == 1 and t.args[0].op == "fld" and re.search(r"::(Footer|Payload|ImplicitAssertion)::", str(t.name)):
            t = t.args[0].args[0]
            continue
        if t.op == "field" and t.name == "0" and t.args[0].op == "call" and re.search(r"unwrap_or_default$", t.args[0].name):
            # Footer(&str).0 of the defaulted Option: keep the call as the content
            t = t.args[0]
            continue
        break
    return t


class Gates:
    def __init__(self, facts):
        self.facts = facts
        self.problems = []     # (rule_suffix, construct, message, line)
        self.instances = []
        bodies = [b for bid, b in facts.bodies.items() if re.search(r"paseto::Paseto::<'a, Version, Purpose>::parse_raw_token$", bid)]
        self.body = bodies[0] if len(bodies) == 1 else None
        if self.body is None:
            self.problems.append(("anchor", "parse_raw_token", "expected exactly one Paseto::parse_raw_token, found %d" % len(bodies), None))
            return
        self.v = M.view(facts, self.body)
        self.N = M.Normalizer(facts, keep=S.KEEP)
        self._analyse()

    # term helpers -------------------------------------------------------
    def is_parts(self, t):
        """collect(split(param raw_token, '.'))  (possibly viewed as a full slice: parts[..])"""
        if isinstance(t, T) and t.op == "call" and re.search(r"Index<core::ops::range::RangeFull>>::index$", t.name) and t.args:
            t = t.args[0]
        if not (isinstance(t, T) and t.op == "call" and re.search(r"Iterator>::collect::<alloc::vec::Vec<&str>>$|Iterator>::collect::<", t.name)):
            return False
        sp = t.args[0]
        return sp.op == "call" and re.search(r"<impl str>::split::<char>$", sp.name) and sp.args[0].op == "param" and sp.args[0].name == 1 and sp.args[1] == T("const", 46)

    def part_index(self, t):
        """i when t is parts[i] (Index<usize> with a constant), else None"""
        t = content(t)
        if isinstance(t, T) and t.op == "call" and re.search(r"Index<usize>>::index$", t.name) and self.is_parts(t.args[0]) and t.args[1].op == "const":
            return t.args[1].name
        # slice-pattern binding: parts[..][i]
        if isinstance(t, T) and t.op == "index" and self.is_parts(t.args[0]) and t.args[1].op == "const" and isinstance(t.args[1].name, int) and t.args[1].name >= 0:
            return t.args[1].name
        return None

    def parts_len(self, t):
        if isinstance(t, T) and t.op == "unop" and t.name == "PtrMetadata" and self.is_parts(t.args[0]):
            return True
        return isinstance(t, T) and t.op == "call" and re.search(r"Vec::<&str>::len$|Vec::<T, A>::len$|<impl \[T\]>::len$", t.name + " " + t.meta.get("def", "")) and self.is_parts(t.args[0])

    def expected_footer(self, t):
        """unwrap_or_default(param footer) (the Into<Option<Footer>> parameter, absent == empty)"""
        t = content(t)
        return isinstance(t, T) and t.op == "call" and re.search(r"Option::<.*Footer<'_>>::unwrap_or_default$", t.name) and t.args[0].op == "param" and t.args[0].name == 2

    def encoded(self, t):
        """inner x when t = URL_SAFE_NO_PAD.encode(x)"""
        if isinstance(t, T) and t.op == "call" and re.search(r"base64::engine::Engine::encode$", t.meta.get("tdef", "")) and t.args[0].op == "const" and ENGINE in str(t.args[0].name):
            return t.args[1]
        return None

    def decoded(self, t):
        if isinstance(t, T) and t.op == "tryok":
            t = t.args[0]
        if isinstance(t, T) and t.op == "call" and re.search(r"base64::engine::Engine::decode$", t.meta.get("tdef", "")) and t.args[0].op == "const" and ENGINE in str(t.args[0].name):
            return t.args[1]
        return None

    # analysis -----------------------------------------------------------
    def _analyse(self):
        v, N = self.v, self.N
        self.oks, self.errs, self.delegated = S.ok_exits(v)
        self.footer_edges = []
        self.header_edges = {0: [], 1: []}
        self.not4_edges = []      # edges that imply segment count != 4
        self.in34_edges = []      # edges that imply 3 <= count <= 4
        self.eq_sites = []
        for sw in M.bool_switches(v):
            t = N.norm(sw["term"])
            if sw["ty"] == "bool":
                tr, fl = M.truth_edges(sw)
                # (3..=4).contains(&len)
                neg = False
                tt = t
                while tt.op == "unop" and tt.name == "Not":
                    neg = not neg
                    tt = tt.args[0]
                if tt.op == "call" and re.search(r"RangeInclusive::<usize>::contains", tt.name) and self.parts_len(tt.args[1]):
                    rng = tt.args[0]
                    if rng.op == "call" and re.search(r"RangeInclusive::<usize>::new$", rng.name) and rng.args[0].op == "const" and rng.args[1].op == "const":
                        lo, hi = rng.args[0].name, rng.args[1].name
                        edge = (sw["block"], fl if neg else tr)
                        if lo >= 3 and hi <= 4:
                            self.in34_edges.append(edge)
                            if hi < 4:
                                self.not4_edges.append(edge)
                        self.instances.append("segment-count gate (%d..=%d).contains(len) at line %d" % (lo, hi, sw["ln"]))
                    continue
                eq = M.as_equality(t)
                if not eq:
                    continue
                a, b, pos, kind = eq
                eq_edge = (sw["block"], tr if pos else fl)
                ne_edge = (sw["block"], fl if pos else tr)
                # len == n  (slice patterns, explicit comparisons)
                for x, y in ((a, b), (b, a)):
                    if self.parts_len(x) and y.op == "const" and isinstance(y.name, int):
                        n = y.name
                        if n != 4:
                            self.not4_edges.append(eq_edge)
                        else:
                            self.not4_edges.append(ne_edge)
                        if n in (3, 4):
                            self.in34_edges.append(eq_edge)
                        self.instances.append("segment-count test len == %d at line %d" % (n, sw["ln"]))
                        break
                else:
                    self._classify_equality(a, b, kind, eq_edge, sw)
            else:
                # integer switch on the number of segments
                if self.parts_len(t):
                    for val, bb in sw["targets"].items():
                        if val != 4:
                            self.not4_edges.append((sw["block"], bb))
                        if val in (3, 4):
                            self.in34_edges.append((sw["block"], bb))
                    if 4 in sw["targets"]:
                        self.not4_edges.append((sw["block"], sw["otherwise"]))
                    self.instances.append("segment-count switch on len with arms %s at line %d" % (sorted(sw["targets"]), sw["ln"]))

    def _classify_equality(self, a, b, kind, eq_edge, sw):
        full_length = kind.startswith("ring") or kind.startswith("subtle") or bool(re.search(r"PartialEq <(str|alloc::string::String|\[u8\]|alloc::vec::Vec<u8>|&str|&\[u8\]|&alloc::string::String) as|PartialEq alloc::string::<impl core::cmp::PartialEq<(alloc::string::String|str|&'a str)> for (str|alloc::string::String|&'a str)>|PartialEq core::str::traits::<impl core::cmp::PartialEq for str>", kind)) or kind == "binop"
        # footer: (encode(expected), part3) in either order, or (expected bytes, decode(part3))
        for x, y in ((a, b), (b, a)):
            ex = self.encoded(x)
            if ex is not None and self.expected_footer(ex) and self.part_index(y) == 3:
                if full_length:
                    self.footer_edges.append(eq_edge)
                    self.eq_sites.append(("footer", kind, sw["ln"]))
                    self.instances.append("footer gate: %s(encode(expected footer or default), segment 3) at line %d" % (kind.split(" ")[0], sw["ln"]))
                else:
                    self.problems.append(("R1", "footer comparison callee", "the footer comparison %s is not a recognised full-length equality" % kind, sw["ln"]))
                return
            dy = self.decoded(y)
            if dy is not None and self.part_index(dy) == 3 and self.expected_footer(x):
                if full_length:
                    self.footer_edges.append(eq_edge)
                    self.eq_sites.append(("footer", kind, sw["ln"]))
                    self.instances.append("footer gate: %s(expected footer or default, decode(segment 3)) at line %d" % (kind.split(" ")[0], sw["ln"]))
                return
        # header: format(tpl, [part0, part1]) vs format(tpl, [v, p])  or direct component comparisons
        fa, fb = self._fmt(a), self._fmt(b)
        if fa and fb and fa[0] == fb[0] and len(fa[1]) == len(fb[1]):
            for x, y in ((fa, fb), (fb, fa)):
                for i, (u, w) in enumerate(zip(x[1], y[1])):
                    pi = self.part_index(u)
                    if pi in (0, 1) and self._is_vp_param(w, pi):
                        self.header_edges[pi].append(eq_edge)
            self.instances.append("header gate: %s over format(%r) of (segment 0, segment 1) vs (version, purpose) at line %d" % (kind.split(" ")[0], fa[0], sw["ln"]))
            return
        # prefix idiom: raw_token[..len(E)] == E with E = format("{}.{}.", v, p): equal prefixes up to and including the second '.'
        for x, y in ((a, b), (b, a)):
            fy = self._fmt(y)
            if fy and fy[0] in (b"\xc0\x01.\xc0\x01.\x00", 'b"\\xc0\\x01.\\xc0\\x01.\\x00"') and len(fy[1]) == 2 and self._is_vp_param(fy[1][0], 0) and self._is_vp_param(fy[1][1], 1) and \
                    x.op == "call" and re.search(r"Index<core::ops::range::RangeTo<usize>> for str>::index$|<str as core::ops::index::Index<core::ops::range::RangeTo<usize>>>::index$", x.name) and \
                    x.args[0].op == "param" and x.args[0].name == 1:
                end = M.mk_field(x.args[1], "end")
                if end.op == "call" and re.search(r"::len$", end.name) and end.args[0] == y and full_length:
                    self.header_edges[0].append(eq_edge)
                    self.header_edges[1].append(eq_edge)
                    self.instances.append("header gate: token[..len(expected)] == expected with expected = format(\"{}.{}.\", version, purpose) at line %d" % sw["ln"])
                    return
        for x, y in ((a, b), (b, a)):
            pi = self.part_index(x)
            if pi in (0, 1) and self._is_vp_param(y, pi) and full_length:
                self.header_edges[pi].append(eq_edge)
                self.instances.append("header gate: %s(segment %d, %s) at line %d" % (kind.split(" ")[0], pi, "version" if pi == 0 else "purpose", sw["ln"]))

    def _fmt(self, t):
        """(template bytes, [display args]) for fmt::format(Arguments::new(template, [Argument::new_display(x)..]))"""
        if not (isinstance(t, T) and t.op == "call" and re.search(r"^alloc::fmt::format$", t.meta.get("tdef", ""))):
            return None
        a = t.args[0]
        if not (a.op == "call" and re.search(r"core::fmt::Arguments::<'_>::new::<|core::fmt::Arguments::<'a>::new", a.name + a.meta.get("tdef", ""))):
            return None
        tpl = a.args[0]
        arr = a.args[1]
        if tpl.op != "const" or arr.op != "agg":
            return None
        args = []
        for f in arr.args:
            x = f.args[0]
            if x.op == "call" and re.search(r"Argument::<'_>::new_display", x.name):
                args.append(x.args[0])
            else:
                return None
        return (tpl.name, args)

    def _is_vp_param(self, t, which):
        """the `v: &Version` (which=0) or `p: &Purpose` (which=1) parameter, possibly through as_ref/Display"""
        ps = [x for x in t.walk() if x.op == "param"] if isinstance(t, T) else []
        if len(ps) != 1:
            return False
        ty = self.v.local_ty(ps[0].name)
        return ty == ("&Version" if which == 0 else "&Purpose")

    # verdicts -----------------------------------------------------------
    def footer_gate_ok(self):
        """every path to Ok passes a footer-equal edge or an edge implying segment count != 4"""
        if self.body is None:
            return False, "anchor missing"
        targets = self.oks + [b for b, _ in self.delegated]
        if not targets:
            return False, "no Ok exit found"
        if not self.footer_edges:
            return False, "no recognised comparison between the expected footer and the token's 4th segment"
        if not self.not4_edges:
            return False, "no recognised dispatch on the number of segments"
        ok = self.v.cfg.must_pass(targets, edges=self.footer_edges + self.not4_edges)
        return ok, None if ok else "a 4-segment token can be accepted without passing the equal edge of the footer comparison"

    def count_gate_ok(self):
        if self.body is None:
            return False, "anchor missing"
        targets = self.oks + [b for b, _ in self.delegated]
        ok = bool(self.in34_edges) and self.v.cfg.must_pass(targets, edges=self.in34_edges)
        return ok, None if ok else "a token whose segment count is not 3 or 4 can be accepted"

    def header_gate_ok(self, which):
        if self.body is None:
            return False, "anchor missing"
        targets = self.oks + [b for b, _ in self.delegated]
        edges = self.header_edges[which]
        if not edges:
            return False, "no recognised comparison between segment %d and the expected %s" % (which, "version" if which == 0 else "purpose")
        ok = self.v.cfg.must_pass(targets, edges=edges)
        return ok, None if ok else "a token can be accepted on a path that never compared segment %d with the expected %s" % (which, "version" if which == 0 else "purpose")

    def payload_ok(self):
        """the Ok value is URL_SAFE_NO_PAD.decode(segment 2)"""
        for d in self.v.defs.get(0, []):
            if d[0] == "assign" and d[3]["k"] == "aggregate" and d[3].get("variant") == "Ok":
                t = self.N.norm(self.v.op_term(d[3]["fields"][0]))
                dd = self.decoded(t)
                if dd is not None and dd.op == "phi" and all(self.part_index(x) == 2 for x in dd.args):
                    continue
                if dd is None or self.part_index(dd) != 2:
                    return False, "the returned bytes are %s, not the strict base64url decoding of segment 2" % M.show(t)[:160]
        return True, None


_g = {}


def gates(facts):
    k = id(facts)
    if k not in _g:
        _g[k] = Gates(facts)
    return _g[k]
