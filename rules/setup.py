"""./check setup : build the driver and pre-warm the dependency artefacts (offline)."""
import os
import subprocess
import sys
import time

from . import facts as F


def main():
    t0 = time.time()
    os.makedirs(F.WORK, exist_ok=True)
    F.build_driver()
    print("driver built in %.0fs" % (time.time() - t0))
    for cfg in ["all", "default"] + F.PROTOCOLS:
        t1 = time.time()
        try:
            F.load(cfg)
            print("facts[%s] ok in %.0fs" % (cfg, time.time() - t1))
        except F.ExtractError as e:
            print("facts[%s]: does not type-check (reported by the checks)" % cfg)
    return 0
