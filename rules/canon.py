"""Canonical names for the crate's non-public anchors.

The rules name a handful of private / pub(crate) functions and private struct fields (parse_raw_token, format_token,
verify_claims, verify_ready_to_build, set_validation_claim, wrap_claims, wrap_value, check_if_reserved_claim_key; the fields of
GenericParser / GenericBuilder / PasetoBuilder / PasetoParser).  A maintainer may rename or move such an item without changing
behaviour.  This pass runs when the facts are loaded: when a canonical anchor is *missing*, the item that plays its role is
identified from the resolved program - by who calls it (public entry points, whose names are API), by its signature, by its
field type - and, if exactly one candidate exists, the facts are rewritten to the canonical name.  Nothing is rewritten when the
anchor exists, when no candidate or more than one exists (the rules then fail closed on the missing anchor as before), or for
public items.  The renames applied are listed in Facts.canon (reported in the evidence notes)."""
import re


def _callees(body):
    out = set()
    for blk in body["blocks"]:
        if blk.get("cleanup"):
            continue
        t = blk["term"]
        if t["k"] == "call":
            c = t["callee"]
            if "indirect" in c:
                continue
            d = c.get("resolved") or c.get("def")
            if d and (c.get("resolved_local", c.get("local"))):
                out.add(d)
    return out


def _closure_bodies(bodies, bid):
    return [b for i, b in bodies.items() if i.startswith(bid + "::{closure#")]


def _non_pub(b):
    return b is not None and b.get("vis") != "pub"


def _last(path):
    return path.rsplit("::", 1)[-1]


def _fn_roles(bodies):
    """[(canonical last segment, candidate def path)] for missing function anchors"""
    def by(name_set, self_prefix):
        return [b for b in bodies.values() if b.get("name") in name_set and (b.get("impl_self") or "").startswith(self_prefix) and b.get("kind") == "AssocFn"]

    def common(group, pred):
        if not group:
            return []
        sets = []
        for g in group:
            cs = set(_callees(g))
            for cb in _closure_bodies(bodies, g["id"]):
                cs |= _callees(cb)
            sets.append(cs)
        inter = set.intersection(*sets)
        return sorted(d for d in inter if d in bodies and _non_pub(bodies[d]) and pred(bodies[d]))

    have = set(b.get("name") or _last(i) for i, b in bodies.items())
    roles = []

    def role(canon, cands):
        if canon in have:
            return
        if len(cands) == 1:
            roles.append((canon, cands[0]))

    sig = lambda b: b.get("sig", "")
    # the 8 core consumers / producers are public API (try_decrypt / try_verify / try_encrypt / try_sign on Paseto)
    cons = by({"try_decrypt", "try_verify"}, "crate::core::paseto::Paseto<")
    prod = by({"try_encrypt", "try_sign"}, "crate::core::paseto::Paseto<")
    role("parse_raw_token", common(cons, lambda b: re.search(r"fn\(&'\w+ str, .*-> core::result::Result<alloc::vec::Vec<u8>, crate::core::error::PasetoError>$", sig(b)) is not None))
    role("format_token", common(prod, lambda b: re.search(r"&'\w+ str\) -> alloc::string::String$", sig(b)) is not None))
    gparse = by({"parse"}, "crate::generic::parsers::generic_parser::GenericParser<")
    role("verify_claims", common(gparse, lambda b: "-> core::result::Result<serde_json::value::Value," in sig(b) and "GenericParser<" in sig(b)))
    builds = by({"build"}, "crate::prelude::paseto_builder::PasetoBuilder<")
    role("verify_ready_to_build", common(builds, lambda b: "PasetoBuilder<" in sig(b) and "-> core::result::Result<()," in sig(b)))
    regs = by({"check_claim", "validate_claim"}, "crate::generic::parsers::generic_parser::GenericParser<")
    role("set_validation_claim", common(regs if len(regs) == 2 else [], lambda b: "GenericParser<" in sig(b)))
    bp = by({"build_payload_from_claims"}, "crate::generic::builders::generic_builder::GenericBuilder<")
    is_v2v = lambda b: re.search(r"^fn\(serde_json::value::Value\) -> serde_json::value::Value$", sig(b)) is not None
    is_m2v = lambda b: re.search(r"^fn\(std::collections::hash::map::HashMap<alloc::string::String, serde_json::value::Value>\) -> serde_json::value::Value$", sig(b)) is not None
    wc = common(bp, is_m2v)
    role("wrap_claims", wc)
    wc_path = wc[0] if len(wc) == 1 else next((i for i, b in bodies.items() if (b.get("name") or _last(i)) == "wrap_claims" and is_m2v(b)), None)
    if wc_path and wc_path in bodies:
        role("wrap_value", common([bodies[wc_path]], is_v2v))
    # PasetoBuilder::new (private): what Default::default starts from
    pbd = [b for b in bodies.values() if b.get("name") == "default" and (b.get("impl_self") or "").startswith("crate::prelude::paseto_builder::PasetoBuilder<") and "Default" in (b.get("impl_trait") or "")]
    if not any((b.get("name") == "new" and (b.get("impl_self") or "").startswith("crate::prelude::paseto_builder::PasetoBuilder<")) for b in bodies.values()):
        c_ = common(pbd, lambda b: re.search(r"^fn\(\) -> crate::prelude::paseto_builder::PasetoBuilder<", sig(b)) is not None)
        if len(c_) == 1:
            roles.append(("new", c_[0]))
    # PreAuthenticationEncoding::{parse, le64}: by signature, wherever they live
    if "le64" not in have:
        c_ = [i for i, b in bodies.items() if re.search(r"^fn\(u64\) -> alloc::vec::Vec<u8>$", sig(b)) and "pre_authentication_encoding" in i and _non_pub(b) is not None]
        if len(c_) == 1:
            roles.append(("le64", c_[0]))
    cc = [b for b in bodies.values() if b.get("name") == "try_from" and (b.get("impl_self") or "").startswith("crate::generic::claims::custom_claim::CustomClaim<")]
    role("check_if_reserved_claim_key", common(cc, lambda b: re.search(r"fn\(&'\w+ str\) -> core::result::Result<\(\), crate::generic::claims::error::PasetoClaimError>$", sig(b)) is not None))
    return roles


FIELD_TABLE = {
    "crate::generic::parsers::generic_parser::GenericParser": [
        ("claims", r"^std::collections::hash::map::HashMap<alloc::string::String, alloc::boxed::Box<\(?dyn erased_serde"),
        ("claim_validators", r"^std::collections::hash::map::HashMap<alloc::string::String, alloc::boxed::Box<\(?dyn for<.*core::ops::function::Fn\("),
        ("footer", r"^crate::core::footer::Footer<"), ("implicit_assertion", r"^crate::core::implicit_assertion::ImplicitAssertion<")],
    "crate::generic::builders::generic_builder::GenericBuilder": [
        ("claims", r"^std::collections::hash::map::HashMap<alloc::string::String, alloc::boxed::Box<\(?dyn erased_serde"),
        ("footer", r"^core::option::Option<crate::core::footer::Footer<"), ("implicit_assertion", r"^core::option::Option<crate::core::implicit_assertion::ImplicitAssertion<")],
    "crate::prelude::paseto_builder::PasetoBuilder": [
        ("builder", r"^crate::generic::builders::generic_builder::GenericBuilder<"), ("top_level_claims", r"^std::collections::hash::set::HashSet<alloc::string::String>$"),
        ("dup_top_level_found", r"^\(bool, alloc::string::String\)$"), ("non_expiring_token", r"^bool$")],
    "crate::prelude::paseto_parser::PasetoParser": [("parser", r"^crate::generic::parsers::generic_parser::GenericParser<")],
}


def _field_roles(adts):
    """[(adt path, old field name, canonical field name)] for private fields whose canonical name is missing"""
    out = []
    for a in adts:
        tab = FIELD_TABLE.get(a["path"])
        if not tab or not a.get("variants"):
            continue
        fields = a["variants"][0]["fields"]
        names = set(f["name"] for f in fields)
        for canon, typat in tab:
            if canon in names:
                continue
            c = [f for f in fields if re.search(typat, f["ty"]) and f.get("vis") != "pub" and f["name"] not in [t[0] for t in tab]]
            if len(c) == 1:
                out.append((a["path"], c[0]["name"], canon))
    return out


def canonicalise(raw):
    """rewrite `raw` (the fact file's JSON object) in place; returns the list of renames applied"""
    bodies = {b["id"]: b for b in raw["bodies"]}
    applied = []
    fn_map = {}      # old def path -> new def path
    for canon, old in _fn_roles(bodies):
        new = old.rsplit("::", 1)[0] + "::" + canon
        if new in bodies:
            continue
        fn_map[old] = new
        applied.append("fn %s -> %s" % (old, canon))
    # a private anchor moved from the inherent impl into the impl of a private (extension) trait for the same type: named as the
    # inherent method it was
    for bid in list(bodies):
        m = re.match(r"^<(crate::[\w:]+)<(.*)> as (crate::[\w:]+)(<.*>)?>::(\w+)$", bid)
        if not m or m.group(5) not in ("parse_raw_token", "format_token", "verify_claims", "verify_ready_to_build", "set_validation_claim", "build_payload_from_claims"):
            continue
        if bodies[bid].get("vis") == "pub":
            continue
        new = "%s::<%s>::%s" % (m.group(1), m.group(2), m.group(5))
        if new in bodies or any(v == new for v in fn_map.values()):
            continue
        fn_map[bid] = new
        applied.append("fn %s -> inherent %s" % (bid, m.group(5)))
    fld = _field_roles(raw.get("adts", []))
    fld_map = {(a, o): n for a, o, n in fld}
    for a, o, n in fld:
        applied.append("field %s.%s -> %s" % (a.split("::")[-1], o, n))
    if not fn_map and not fld_map:
        return applied
    olds = sorted(fn_map, key=len, reverse=True)

    def fix_path(s):
        for o in olds:
            if s == o or s.startswith(o + "::"):
                return fn_map[o] + s[len(o):]
        return s

    def fix_inst(s, old):
        oname, nname = _last(old), _last(fn_map[old])
        return re.sub(r"::%s(?=$|::<|::\{)" % re.escape(oname), "::" + nname, s, count=1)

    def walk(x):
        if isinstance(x, dict):
            # callee dictionaries
            for k_def, k_inst in (("def", "inst"), ("resolved", "resolved_inst")):
                d = x.get(k_def)
                if isinstance(d, str):
                    for o in olds:
                        if d == o or d.startswith(o + "::"):
                            if isinstance(x.get(k_inst), str):
                                x[k_inst] = fix_inst(x[k_inst], o)
                            break
            if x.get("k") == "field" and (x.get("adt"), x.get("name")) in fld_map:
                x["name"] = fld_map[(x["adt"], x["name"])]
            if x.get("k") == "aggregate" and isinstance(x.get("field_names"), list) and any(a == x.get("adt") for a, _o in fld_map):
                x["field_names"] = [fld_map.get((x["adt"], n), n) for n in x["field_names"]]
            for k, v in list(x.items()):
                if isinstance(v, str):
                    if fn_map and k not in ("inst", "resolved_inst", "sig", "ty", "file"):
                        nv = fix_path(v)
                        if nv != v:
                            x[k] = nv
                            if k == "id" and "name" in x and isinstance(x["name"], str) and x["name"] == _last(v):
                                x["name"] = _last(nv)
                else:
                    walk(v)
        elif isinstance(x, list):
            for i, v in enumerate(x):
                if isinstance(v, str):
                    if fn_map:
                        x[i] = fix_path(v)
                else:
                    walk(v)

    walk(raw["bodies"])
    walk(raw.get("api", []))
    walk(raw.get("impls", []))
    for a in raw.get("adts", []):
        for var in a.get("variants", []):
            for f in var.get("fields", []):
                if (a["path"], f["name"]) in fld_map:
                    f["name"] = fld_map[(a["path"], f["name"])]
    return applied
