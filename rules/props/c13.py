"""C13 Tokens expire by default; only an explicit acknowledgement removes exp."""
import re

from .. import absint as A
from .. import facts as F
from .. import mir as M
from .. import skeleton as S
from ..harness import Result
from ..mir import T
from . import _fpai
from . import c17

LEVEL = "other"
PB = r"PasetoBuilder::<'a, Version, Purpose>::"
GB = r"GenericBuilder::<'a, 'b, Version, Purpose>::"


def run(tier):
    res = Result("C13", LEVEL)
    res.trusted = ["time::OffsetDateTime::{now_utc, format(Rfc3339)} and Duration::hours render the instants (values are not decided)", "HashMap::{insert, remove} semantics"]
    res.assumptions = ["history quantifier discharged by per-method invariants: the acknowledgement flag and the claim map are only changed by the named methods"]
    facts = F.load("all")
    entries = S.entry_points(facts)
    defaults(res, facts)
    sem = c17.semantic_build(res, facts, entries, ("C13.R2", "C13.R4", "C13.R3"))
    if not sem:
        c17.ready(res, facts, "C13.R2", c13=True)
    removers(res, facts, semantic=sem)
    from .. import builder_sem
    seqs = builder_sem.analyse_cached(facts, entries)
    if not (sem and all(seqs.get(e.id, (None, None))[0] is not None for e in S.select(entries, "prelude", "producer"))):
        # who-writes rule on the private flag: only when the call-sequence contract (exp removed exactly when acknowledged, whatever else
        # was called before or after; C13.R3 above) could not be decided
        flag_writers(res, facts)
    if not sem:
        c17.order(res, facts, entries, "C13.R4")
    persistence(res, facts, entries)
    # R6: the build-time rules sit in PasetoBuilder; the GenericBuilder it wraps (whose try_encrypt / try_sign / remove_claim know nothing of
    # them) is not reachable through the wrapper
    from .. import layers
    for f in layers.encapsulation(facts, "C13.R6", "PasetoBuilder", "GenericBuilder"):
        res.oblige(f.ok)
        if f.ok:
            res.inst(f.rule, f.desc)
        else:
            res.violate(f.rule, f.where, f.construct, f.msg, file=f.file, line=f.line)
    res.floor("C13.R6", 2)
    # R7: the defaults live in the generic builder's claim map under "exp" / "iat" / "nbf"; PasetoBuilder guards exactly those keys
    # (reserved-key check of CustomClaim, duplicate bookkeeping).  That guard means something only if GenericBuilder::set_claim stores a
    # claim under exactly the key the claim reports - a key transformed on the way in (trimmed, case-folded) lets a claim keyed " exp"
    # replace the default (C14.R3's storage rule, re-evaluated here)
    from . import c14
    r7 = Result("C14", "other")
    c14.set_claim(r7, facts)
    for v_ in r7.violations:
        res.violate("C13.R7", v_.where, v_.construct, v_.msg, file=v_.file, line=v_.line)
    for d in r7.instances.get("C14.R3", []):
        res.inst("C13.R7", d)
    res.obligations += r7.obligations
    res.discharged += r7.discharged
    res.floor("C13.R7", 8)
    res.floor("C13.R8", 1)
    res.floor("C13.R1", 4)
    res.floor("C13.R2", 4 + 1)
    res.floor("C13.R3", 2)
    res.floor("C13.R4", 8)
    res.floor("C13.R5", 3)
    if tier == "thorough":
        # every call sequence up to 6 calls (one protocol; up to 3 for the other seven) against the reference behaviour the property states
        from .. import builder_sem
        nseq, probs_, why_ = builder_sem.exhaustive(facts, S.entry_points(facts), 6, 3)
        res.extra["call_sequences_explored"] = nseq
        if why_:
            res.oblige(False)
            res.violate("C13.R9", "PasetoBuilder", "call sequences not decided", "exhaustive exploration of call sequences could not be completed (fail closed): %s" % why_)
        for p_ in probs_[:10]:
            res.oblige(False)
            res.violate("C13.R9", "PasetoBuilder", p_.split(":")[0][:100], p_)
        if not why_ and not probs_:
            res.oblige(True)
            res.inst("C13.R9", "all %d call sequences over {set_claim(K | nbf | exp | other), acknowledge, set_footer, build} up to 6 calls behave as the reference model (duplicates -> Err naming a duplicated key, exp removed exactly when acknowledged, builds repeatable)" % nseq)
    res.explanation = ("provenance terms of PasetoBuilder::default (exp = now + 1h, iat = nbf = the same now, through the typed constructors); abstract interpretation of verify_ready_to_build over {acknowledged} x {duplicate}: "
                       "exp removed iff acknowledged, at build time, flag persists; who-writes of the acknowledgement flag; no function reachable from build changes the builder's claims / payload state other than that keyed removal "
                       "(defaults persist across builds and the payload is a function of the current claims only)")
    res.extra["not_decided"] = "the rendered timestamp values (behaviour of the time crate)"
    return res


def defaults(res, facts):
    # decided by interpreting default() whole (rules/builder_sem.py: what reaches the generic builder, one clock reading); the provenance
    # terms below only when that is undecided
    from .. import builder_sem
    fs = builder_sem.analyse_cached(facts, S.entry_points(facts)).get("(defaults)", (None, None))[0]
    if fs is not None:
        for f in fs:
            for part in ("one clock reading", "exp = RFC 3339(now + 1h)", "iat = RFC 3339(now)", "nbf = RFC 3339(now)"):
                res.oblige(f.ok)
                if f.ok:
                    res.inst("C13.R1", "PasetoBuilder::default (interpreted whole): " + part)
            if not f.ok:
                res.violate("C13.R1", f.where, f.construct, f.msg, file=f.file, line=f.line)
        # a default stays until the caller supplies that very claim: set_claim(K) removes at most the default stored under K
        sc = builder_sem.analyse_cached(facts, S.entry_points(facts)).get("(set_claim)", (None, None))[0]
        for f in sc or []:
            res.oblige(f.ok)
            if f.ok:
                res.inst("C13.R8", f.desc)
            else:
                res.violate("C13.R8", f.where, f.construct, f.msg, file=f.file, line=f.line)
        return
    bs = S.impl_fns(facts, r"^crate::prelude::paseto_builder::PasetoBuilder<'a, Version, Purpose>$", r"^core::default::Default$", "default")
    if len(bs) != 1:
        res.violate("C13.R1", "PasetoBuilder::default", "anchor missing", "impl Default for PasetoBuilder not found")
        return
    b = bs[0]
    v = M.view(facts, b)
    N = M.Normalizer(facts, keep=[r"::set_claim$", r"PasetoBuilder::<.*>::new$", r"claims::.*::try_from$", r"TryFrom<"])
    nows = v.find_calls(r"OffsetDateTime::now_utc$")
    ok = len(nows) == 1
    res.oblige(ok)
    if ok:
        res.inst("C13.R1", "one now = OffsetDateTime::now_utc() in PasetoBuilder::default")
    else:
        res.violate("C13.R1", b["id"], "number of now_utc() calls", "iat, nbf and exp must derive from one creation time; found %d calls of now_utc" % len(nows), file=v.file(), line=b["line"])
    calls = v.find_calls(r"GenericBuilder::<.*>::set_claim")
    found = {}
    for bi, t in calls:
        ct = N.norm(v.call_term(t, bi))
        claim = ct.args[1]
        names = " ".join(x.name for x in claim.calls())
        kind = "exp" if "ExpirationClaim" in names else ("iat" if "IssuedAtClaim" in names else ("nbf" if "NotBeforeClaim" in names else None))
        if kind is None:
            continue
        fmt = [x for x in claim.calls(r"OffsetDateTime::format")]
        src = fmt[0].args[0] if fmt else None
        rfc = bool(fmt) and "Rfc3339" in M.show(fmt[0])
        desc = None
        if src is not None:
            if src.op == "call" and re.search(r"now_utc$", src.name):
                desc = "now"
            elif src.op == "call" and re.search(r"ops::arith::Add", src.name) and src.args[0].op == "call" and re.search(r"now_utc$", src.args[0].name):
                d = src.args[1]
                if d.op == "call" and re.search(r"Duration::hours$", d.name) and d.args[0].op == "const":
                    desc = "now + %sh" % d.args[0].name
                else:
                    desc = "now + " + M.show(d)[:40]
            else:
                desc = M.show(src)[:60]
        typed = bool(re.search(r"(ExpirationClaim|IssuedAtClaim|NotBeforeClaim) as core::convert::TryFrom", names))
        found[kind] = (desc, rfc, typed, t["ln"], v.cfg.dominates(bi, v.cfg.return_blocks()[0]))
    want = {"exp": "now + 1h", "iat": "now", "nbf": "now"}
    for k, w in want.items():
        got = found.get(k)
        ok = got is not None and got[0] == w and got[1] and got[2] and got[4]
        res.oblige(ok)
        if ok:
            res.inst("C13.R1", "default %s = %s (RFC 3339, typed constructor, on every path)" % (k, w))
        else:
            res.violate("C13.R1", b["id"], "default " + k, "PasetoBuilder::default must set %s to %s rendered as RFC 3339 through its typed claim on every path; found %s" % (k, w, got), file=v.file(), line=got[3] if got else b["line"])


def removers(res, facts, semantic=False):
    """R2: no other function removes "exp" (remove_claim call sites with their key terms)"""
    builds = set(e.id for e in S.select(S.entry_points(facts), "prelude", "producer"))
    for bid, b in sorted(facts.bodies.items()):
        if not re.search(r"prelude::|generic::builders", bid):
            continue
        v = M.view(facts, b)
        N = M.Normalizer(facts, keep=[r"remove_claim$"])
        for bi, t in v.find_calls(GB + r"remove_claim$"):
            k = N.norm(v.op_term(t["args"][1]))
            where_ok = bool(re.search(PB + r"verify_ready_to_build$", bid)) and k == T("const", "exp") or (bool(re.search(PB + r"set_claim$", bid)) and not (k.op == "const" and k.name == "exp"))
            if not where_ok and semantic and k == T("const", "exp") and M.only_reached_from(facts, bid, builds):
                where_ok = True    # part of build: when it runs is decided by the build contract (removed iff acknowledged)
            res.oblige(where_ok)
            if where_ok:
                res.inst("C13.R2", "%s removes %s" % (M.short(bid), M.show(k)[:40]))
            else:
                res.violate("C13.R2", bid, "removes claim %s" % M.show(k)[:40], "only verify_ready_to_build (under the acknowledgement) may remove exp; other removals are limited to set_claim's nbf replacement", file=v.file(), line=t["ln"])


def flag_writers(res, facts):
    for bid, b in sorted(facts.bodies.items()):
        v = M.view(facts, b)
        for w in M.field_writes(v):
            if w["adt"].endswith("paseto_builder::PasetoBuilder") and w["field"] == "non_expiring_token":
                val = v.rv_term(w["rv"]) if w["kind"] == "assign" else None
                ok = bool(re.search(PB + r"set_no_expiration_danger_acknowledged$", bid)) and val == T("const", 1)
                res.oblige(ok)
                if ok:
                    res.inst("C13.R3", "non_expiring_token := true only in set_no_expiration_danger_acknowledged")
                else:
                    res.violate("C13.R3", bid, "write to non_expiring_token", "the acknowledgement may only be set (to true) by set_no_expiration_danger_acknowledged; found %s" % (M.show(val) if val else w["kind"]), file=v.file(), line=w["ln"])
    b = _fpai.find_body(facts, PB + r"set_no_expiration_danger_acknowledged$")
    if b is None:
        res.violate("C13.R3", "PasetoBuilder::set_no_expiration_danger_acknowledged", "anchor missing", "not found")
    else:
        v = M.view(facts, b)
        ws = [w for w in M.field_writes(v) if w["field"] == "non_expiring_token"]
        ok = len(ws) == 1 and all(v.cfg.dominates(ws[0]["block"], rb) for rb in v.cfg.return_blocks())
        res.oblige(ok)
        if ok:
            res.inst("C13.R3", "set_no_expiration_danger_acknowledged sets the flag on every path")
        else:
            res.violate("C13.R3", b["id"], "acknowledgement not recorded", "the method must set non_expiring_token on every path", file=v.file(), line=b["line"])


def persistence(res, facts, entries):
    """R5: building does not consume or cache builder state: among the functions reachable from the 16 builder entry points the only
    write to a GenericBuilder field is the keyed HashMap::remove of remove_claim; the payload is computed from self.claims only."""
    g = M.call_graph(facts)
    roots = [e.id for e in entries if e.role == "producer" and e.layer in ("generic", "prelude")]
    reach = M.reachable_bodies(facts, roots, g)
    n = 0
    # fields the payload depends on: `claims` plus whatever build_payload_from_claims reads (a cache field would show up here)
    relevant = {"claims"} | payload_reads(facts)
    for bid in sorted(reach):
        b = facts.bodies[bid]
        v = M.view(facts, b)
        for w in M.field_writes(v):
            if not w["adt"].endswith("generic_builder::GenericBuilder") or w["field"] not in relevant:
                continue
            n += 1
            users = w.get("user_defs", [])
            ok = w["field"] == "claims" and w["kind"] == "mutborrow" and bool(users) and all(re.search(r"HashMap::<K, V, S, A>::remove$", u) for u in users) and bool(re.search(GB + r"remove_claim$", bid))
            if not ok and w["field"] == "claims" and re.search(GB + r"remove_claim$", bid):
                # however the removal is spelt (a private wrapper type around the map, a helper): what remove_claim does to a concrete
                # claim map was decided by interpretation - exactly the entry under the key goes (rules/props/c14.py mutator_contracts)
                from . import c14
                rc = c14.mutator_contracts(facts).get("remove_claim")
                ok = rc is not None and rc[0]
            res.oblige(ok)
            if ok:
                res.inst("C13.R5", "%s: keyed removal from claims (the only builder-state write reachable from build)" % M.short(bid))
            else:
                res.violate("C13.R5", bid, "build-time write to GenericBuilder.%s (%s)" % (w["field"], ",".join(M.short(u) for u in users) or w["kind"]),
                            "building must not drain, clear, cache or otherwise change the builder's state: a later build from the same builder would differ", file=v.file(), line=w["ln"])
    b = _fpai.find_body(facts, GB + r"build_payload_from_claims$")
    if b is None:
        res.violate("C13.R5", "GenericBuilder::build_payload_from_claims", "anchor missing", "not found")
        return
    v = M.view(facts, b)
    reads = payload_reads(facts)
    ok = reads == {"claims"}
    res.oblige(ok)
    if ok:
        res.inst("C13.R5", "build_payload_from_claims reads only self.claims")
    else:
        res.violate("C13.R5", b["id"], "payload depends on " + ",".join(sorted(reads - {"claims"})) if reads - {"claims"} else "payload does not read the claims",
                    "the payload must be a function of the builder's current claims only; fields read: %s" % sorted(reads), file=v.file(), line=b["line"])
    # and leaves the claims where they are: interpreted on a builder with two concrete claims, the map afterwards holds the same two
    # entries on every path (iterator chains, loops, helper functions alike); the structural form (one self.claims.iter()) only when
    # the interpreter cannot decide
    sem = claims_kept(facts, b)
    if sem is not None:
        ok, why = sem
        res.oblige(ok)
        if ok:
            res.inst("C13.R5", "build_payload_from_claims leaves self.claims as it found it (interpreted on a two-claim builder, every path)")
        else:
            res.violate("C13.R5", b["id"], "claims changed by building the payload", why, file=v.file(), line=b["line"])
        return
    its = v.find_calls(r"HashMap::<K, V, S, A>::iter$|HashMap::<K, V, S>::iter$")
    ok = len(its) == 1
    res.oblige(ok)
    if ok:
        res.inst("C13.R5", "build_payload_from_claims iterates self.claims by shared reference")
    else:
        res.violate("C13.R5", b["id"], "claims not iterated by reference", "expected exactly one self.claims.iter() (and the abstract interpreter could not decide what happens to the claims)", file=v.file(), line=b["line"])


def claims_kept(facts, b):
    """(ok, why) or None when undecided"""
    from .. import models as MD
    from .. import models_iter as MI
    I = A.Interp(facts, MD.MODELS)
    I.concrete_maps = True
    # what the wrapping helpers make of the serialised copies is C14's subject: summarised here
    I.fn_stubs = [(re.compile(r"::(wrap_claims|wrap_value)$"), lambda I_, st_, args_: A.Sym("wrapped"))]
    st = A.State()
    before = [("k1", "C1"), ("k2", "C2")]
    me_v = A.Struct("crate::generic::builders::generic_builder::GenericBuilder", None, {
        "version": A.UNIT, "purpose": A.UNIT, "claims": MI.mapv("claims", [(A.StrV(k), A.Sym(n)) for k, n in before]),
        "footer": A.Sym("self.footer", attrs={"adt": "core::option::Option"}), "implicit_assertion": A.Sym("self.implicit_assertion", attrs={"adt": "core::option::Option"})})
    me = st.new_cell(me_v)
    outs = I.run(b, [A.Ptr(me)], st)
    if not outs:
        return None
    bad = []
    for o in outs:
        if o.kind == "panic":
            continue
        if o.kind != "return" or o.state.unmodelled or any("undecided" in n for n in o.state.notes):
            return None
        cur = MD.deref(I, o.state, A.Ptr(me))
        m = MD.deref(I, o.state, cur.fields.get("claims")) if isinstance(cur, A.Struct) else None
        if not MI.is_map(m):
            return None
        got = sorted((str(MD.str_key(I, o.state, e.fields["0"])[1]), getattr(MD.deref(I, o.state, e.fields["1"]), "name", "?")) for e in MI._entries(m))
        if got != sorted(before):
            bad.append("after building the payload the builder's claims are %s instead of %s when [%s]" % (got, sorted(before), " & ".join(o.state.cond)[-160:]))
    return (not bad, "; ".join(sorted(set(bad)))[:500])


def payload_reads(facts):
    """GenericBuilder fields read by build_payload_from_claims"""
    b = _fpai.find_body(facts, GB + r"build_payload_from_claims$")
    reads = set()
    if b is None:
        return reads
    v = M.view(facts, b)
    for bi in sorted(v.cfg.reach):
        for st in v.body["blocks"][bi]["stmts"]:
            if st["k"] == "assign":
                for pl in _places(st["rv"]) + [st["place"]]:
                    for pr in pl["p"]:
                        if pr["k"] == "field" and pr.get("adt", "").endswith("generic_builder::GenericBuilder"):
                            reads.add(pr["name"])
        t = v.body["blocks"][bi]["term"]
        if t["k"] == "call":
            for a in t["args"]:
                if a["k"] in ("copy", "move"):
                    for pr in a["place"]["p"]:
                        if pr["k"] == "field" and pr.get("adt", "").endswith("generic_builder::GenericBuilder"):
                            reads.add(pr["name"])
    return reads


def _places(rv):
    out = []
    for key in ("op", "l", "r", "x"):
        if key in rv and isinstance(rv[key], dict) and rv[key]["k"] in ("copy", "move"):
            out.append(rv[key]["place"])
    if "place" in rv:
        out.append(rv["place"])
    for f in rv.get("fields", []):
        if f["k"] in ("copy", "move"):
            out.append(f["place"])
    return out
