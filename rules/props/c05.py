"""C05 The footer is authenticated and must match the caller's expected footer."""
from . import _proto
from .. import gates as G

LEVEL = "other"
RULES = {"C05.R1", "C05.R2", "C05.R3", "C05.R5"}


def extra(res, facts, entries, protos):
    g = G.gates(facts)
    for pr in g.problems:
        res.violate("C05." + (pr[0] if pr[0].startswith("R") else "R1"), "Paseto::parse_raw_token", pr[1], pr[2], line=pr[3])
    _proto.gate_rule(res, "C05.R1", g.footer_gate_ok(), "4-segment tokens pass the equal edge of a full-length comparison encode(expected footer or default) == segment 3", g)
    _proto.gate_rule(res, "C05.R1", g.count_gate_ok(), "only 3- or 4-segment tokens are accepted", g)
    for i in g.instances:
        if "footer" in i or "segment-count" in i:
            res.inst("C05.R1", i)
    # R8: "accept iff F' == F" also forbids turning away a token that carries the expected footer: parse_raw_token refuses only for a stated cause
    _proto.refusal_rules(res, "C05.R8", facts)
    # R6: the footer segment written by format_token is URL_SAFE_NO_PAD(F), present iff F is non-empty; R7: the PAE framing keeps the footer apart from its neighbours
    from . import c08_fpai
    if not getattr(res, "sem_ok", False):
        # second opinion only: when decided, producer == specification (C05.S1: the whole token text for absent / empty / present footer
        # of all 8 producers) says more than format_token evaluated on its own
        c08_fpai.format_token(res, facts, rule="C05.R6")
    c08_fpai.pae(res, facts, rule="C05.R7")
    # absent == empty: the expected footer enters both the comparison and the PAE through unwrap_or_default (R2 checks the PAE side)
    # R9: a clone of the builder / carrier types keeps what was set on the original
    _proto.clone_rule(res, "C05.R9", facts)
    res.notes.append("absent == empty: the expected footer reaches the comparison and every PAE as Option::unwrap_or_default(param)")


def run(tier):
    return _proto.run_rules(
        "C05", LEVEL, RULES,
        {"C05.R1": 2, "C05.R2": 16, "C05.R3": 4, "C05.R5": 21, "C05.R6": 3, "C05.R7": 2, "C05.R8": 2},
        "must-pass-through on the CFG of parse_raw_token (footer gate), provenance terms of the footer component in all 16 pre-authentication encodings "
        "(caller's expected footer on consumer sides, the builder's own footer on producer sides), identity of the Footer carrier and its base64 text, footer plumbing through the 32 wrappers and setters",
        ["MAC / signature strength: a different footer under the authenticator yields a different tag", "ring verify_slices_are_equal compares length and content", "base64 URL_SAFE_NO_PAD encoding is injective"],
        extra, "that a different footer changes the tag / signature (cryptographic)", sem_rules={'C05.S1': 8, 'C05.S2': 8, 'C05.S3': 8})
