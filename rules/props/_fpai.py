"""helpers for the finite-partition abstract interpretation rules (C13, C17, C18)"""
import re

from .. import absint as A
from .. import models as MD
from .. import mir as M

BUILDER_STUBS = [r"GenericBuilder::<.*>::(set_claim|remove_claim|set_footer|set_implicit_assertion|try_encrypt|try_sign|build_payload_from_claims)$"]


def find_body(facts, pat):
    bs = [b for bid, b in facts.bodies.items() if re.search(pat, bid)]
    return bs[0] if len(bs) == 1 else None


def run_on_self(facts, body, extra_args=(), stubs=BUILDER_STUBS, self_fields=None):
    """interpret a `&mut self` method on an opaque self; returns (interp, self symbol, outcomes)"""
    I = A.Interp(facts, MD.MODELS, stubs=stubs)
    st = A.State()
    me = A.Sym("self")
    c = st.new_cell(me)
    if self_fields:
        for k, v in self_fields.items():
            st.symfields[(me.id, k)] = v
    outs = I.run(body, [A.Ptr(c)] + list(extra_args), st)
    return I, me, outs


def written_fields(o, me):
    """fields of `self` whose final value is not the initial opaque field symbol"""
    out = {}
    for (sid, f), v in o.state.symfields.items():
        if sid == me.id and not (isinstance(v, A.Sym) and v.name == "self.%s" % f):
            out[f] = v
    return out


def result_variant(I, o):
    if o.kind != "return":
        return o.kind
    r = I.resolve(o.state, o.value)
    if isinstance(r, A.Struct) and r.variant in ("Ok", "Err"):
        if r.variant == "Ok":
            return "Ok"
        e = I.resolve(o.state, r.fields.get("0"))
        while isinstance(e, A.Struct) and e.adt == "(converted)":
            e = I.resolve(o.state, e.fields.get("source"))
        return "Err(%s)" % (e.variant if isinstance(e, A.Struct) and e.variant else "?")
    return "value"


def undecided(o):
    return bool(o.state.unmodelled) or any("undecided" in n for n in o.state.notes) or o.kind == "abort"
