"""C03 Any alteration of an authentic token is detected before its content is used.

Ordering / typestate property decided on the CFG of the 8 core consumers and the 16 parser wrappers:
authenticate first, use afterwards.  The probability that a forged tag passes (MAC / signature
strength) and the inner behaviour of the base64 decoder are trusted, not decided.
"""
import re

from .. import facts as F
from .. import mir as M
from .. import skeleton as S
from ..harness import Result
from ..mir import T
from .. import slices as SL

LEVEL = "proof"

KEEP = S.KEEP

PLAINTEXT_USES = r"core::str::converts::from_utf8$|alloc::string::String::from_utf8$|alloc::string::String::from_utf8_lossy$|core::str::converts::from_utf8_unchecked$"
DECRYPT_CALLS = r"cipher_text::CipherText<.*Local>>::from$|cipher::stream::StreamCipher::apply_keystream$|cipher::stream::StreamCipher::try_apply_keystream$"


def is_payload(t):
    """tryok(parse_raw_token(..)) - the base64-decoded payload of the token parameter."""
    return isinstance(t, T) and t.op == "tryok" and t.args[0].op == "call" and re.search(r"parse_raw_token", t.args[0].name)


def run(tier):
    res = Result("C03", LEVEL)
    res.trusted = ["MAC / signature unforgeability (ring HMAC, blake2, ed25519-dalek, p384, ring RSA-PSS, XChaCha20-Poly1305)",
                   "base64 URL_SAFE_NO_PAD engine rejects padding and non-canonical trailing bits",
                   "ring::constant_time::verify_slices_are_equal compares lengths and contents"]
    res.assumptions = ["rustc MIR (mir-opt-level=0) is a faithful CFG of the source", "external callees resolve as recorded by Instance::try_resolve"]
    facts = F.load("all")
    entries = S.entry_points(facts)
    core_cons = S.select(entries, "core", "consumer")
    # the 8 core consumers: decided by the semantic engine (rules/psai_rules.py) - every accepted token passed the specification's
    # authentication check before any keystream / UTF-8 step, the value returned is the authenticated message, no UTF-8 error before
    # authentication; the CFG rules below only when that engine could not follow every path
    from . import _proto
    sem = _proto.semantic()
    sem_ok = not [u for u in sem["undecided"] if u[1] == "consumer"]
    if sem_ok:
        for f in sem["findings"]:
            if f.rule in ("C03.S1", "C03.S2", "C03.S3", "C03.S8"):
                res.oblige(f.ok)
                if f.ok:
                    res.inst(f.rule, f.desc)
                else:
                    res.violate(f.rule, f.where, f.construct, f.msg, file=f.file, line=f.line)
        for r_ in ("C03.S1", "C03.S2", "C03.S3", "C03.S8"):
            res.floor(r_, 8)
    else:
        for e in core_cons:
            check_core_consumer(res, facts, e)
        for r_, n_ in (("C03.R1", 8), ("C03.R2", 3), ("C03.R3", 1), ("C03.R4", 4), ("C03.R8", 8)):
            res.floor(r_, n_)
    # R5: no verification result dropped anywhere in the crate
    n5 = 0
    for bid, b in (facts.bodies.items() if not sem_ok else []):
        info = S.auth_info(facts, b)
        v = M.view(facts, b)
        for s in info.sites:
            n5 += 1
            res.oblige(True)
            res.inst("C03.R5", "%s: %s checked via %s (line %d)" % (M.short(bid), s["desc"], s["via"], s["ln"]))
        for d in info.dropped:
            res.oblige(False)
            res.violate("C03.R5", bid, "unchecked " + d["desc"], "the Result of %s is not consumed by `?` or an equality switch: a failed verification would be ignored" % d["callee"],
                        file=v.file(), line=d["ln"])
    check_wrappers(res, facts, entries)
    check_base64(res, facts)
    # R9: alterations of the footer segment / segment count are caught by the textual gates of parse_raw_token
    from .. import gates as G
    g = G.gates(facts)
    for pr in g.problems:
        res.violate("C03.R9", "Paseto::parse_raw_token", pr[1], pr[2], line=pr[3])
    for verdict, what in ((g.footer_gate_ok(), "an edited / added footer segment is rejected: 4-segment tokens pass the equal edge of the full-length footer comparison"),
                          (g.count_gate_ok(), "extended tokens are rejected: only 3- or 4-segment tokens are accepted"),
                          (g.payload_ok(), "the payload bytes are the strict base64url decoding of segment 2")):
        ok, why = verdict
        res.oblige(ok)
        if ok:
            res.inst("C03.R9", what)
        else:
            res.violate("C03.R9", g.body["id"] if g.body else "Paseto::parse_raw_token", what.split(":")[0], why or "gate not established", file=g.v.file() if g.body else None, line=g.body["line"] if g.body else None)
    # R10: an altered token is *rejected* - not answered with a panic: the panic-capable sites of the 8 core consumers (and of what they
    # call) are discharged on every path (the C09 interpreter restricted to the core consumers; the wrappers' own sites stay with C09)
    from . import c09
    rts, _ents = c09.roots(facts)
    labels = set(e.label for e in core_cons)
    rts = [r for r in rts if r[0] in labels]
    I, npaths, unmod, aborted, covered = c09.interpret(facts, rts, "quick")
    for site, e in sorted(I.sites.items(), key=lambda kv: str(kv[0])):
        kind, fn, what, ln, file = site
        okk = not e["fail"]
        res.oblige(okk)
        if okk:
            res.inst("C03.R10", "%s %s in %s (line %s) cannot fire" % (kind, what, M.short(fn)[-70:], ln))
        else:
            why, cond = e["fail"][0]
            res.violate("C03.R10", fn, "%s %s" % (kind, what), "a token can make this site panic instead of being rejected with an error: needs [%s]; reachable e.g. when [%s]" % (why, " & ".join(cond)[-300:]), file=file, line=ln)
    for u, label in sorted(unmod.items()):
        res.oblige(False)
        res.violate("C03.R10", u, "unclassified external callee", "an external function reachable from %s is neither modelled nor known not to panic (fail closed)" % label)
    for label, why, cond in aborted[:3]:
        res.oblige(False)
        res.violate("C03.R10", label, "analysis incomplete: " + str(why), "a path could not be followed to its end (%s) when [%s]" % (why, cond))
    if len(rts) < 8:
        res.violate("C03.R10", "(entry points)", "entry points missing", "expected the 8 core consumers, found %d" % len(rts))
    res.floor("C03.R10", 20)
    res.floor("C03.R9", 3)
    if not sem_ok:
        res.floor("C03.R5", 9)
    res.floor("C03.R6", 16)
    res.floor("C03.R7", 6)
    res.explanation = ("CFG dominance (must-pass-through) over the MIR of the 8 core consumers, the 16 parser wrappers and every function calling a verification primitive: "
                       "each Ok exit and each plaintext use is reachable only through the success edge of the authentication check; the compared tag is the whole tail / the whole recomputed tag; "
                       "the returned content is the authenticated content; claims are examined only on authenticated text; one strict base64 engine")
    return res


def check_core_consumer(res, facts, e):
    v = M.view(facts, e.body)
    N = M.Normalizer(facts, keep=KEEP)
    info = S.auth_info(facts, e.body)
    oks, errs, delegated = S.ok_exits(v)
    fn = e.id
    file = v.file()
    # ---- R1 authenticate before any Ok exit / plaintext use
    res.oblige(bool(info.edges))
    if not info.edges:
        res.violate("C03.R1", fn, "no authentication check", "no recognised authentication check gates this consumer (comparison / AEAD / signature verification consumed by `?`)", file=file, line=e.body["line"])
        return
    targets = list(oks) + [b for b, _ in delegated]
    ok = v.cfg.must_pass(targets, edges=info.edges)
    res.oblige(ok)
    res.inst("C03.R1", "%s: %d Ok exit(s) gated by %s" % (e.label, len(targets), "; ".join(s["desc"] for s in info.sites)))
    if not ok:
        r = v.cfg.reachable_without(edges=info.edges)
        bad = [b for b in targets if b in r]
        res.violate("C03.R1", fn, "Ok exit not gated by authentication", "an Ok return is reachable without passing the success edge of the authentication check", file=file, line=v.line(bad[0]) if bad else None)
    uses = v.find_calls(PLAINTEXT_USES) + v.find_calls(DECRYPT_CALLS)
    for bi, t in uses:
        okk = v.cfg.must_pass([bi], edges=info.edges)
        res.oblige(okk)
        if not okk:
            res.violate("C03.R1", fn, "plaintext handled before authentication: " + M.short(M.callee_def(t["callee"])),
                        "%s is reachable before the authentication check succeeded" % M.short(M.callee_name(t["callee"])), file=file, line=t["ln"])
    # ---- per-kind operand rules
    paes = S.pae_sites(facts, e.body, N)
    for s in info.sites:
        if s["kind"] == "cmp" and s["via"] == "?":
            check_cmp(res, facts, e, v, N, s, paes)
        elif s["kind"] == "sig":
            check_sig(res, facts, e, v, N, s, paes, oks)
        elif s["kind"] == "delegated":
            check_delegated(res, facts, e, v, N, s, paes, oks)
    # ---- R8 error class before authentication
    check_error_class(res, facts, e, v, info)


def strip_refs(t):
    return t


def check_cmp(res, facts, e, v, N, s, paes):
    ct = N.norm(s["term"])
    a, b = ct.args[0], ct.args[1]
    fn, file = e.id, v.file()
    # one operand: the whole tail of the decoded payload; the other: the whole recomputed tag
    def tail_of_payload(t):
        sl = SL.payload_slice(t)
        if sl is not None and sl[1] == SL.L:
            return "tail from %r" % (sl[0],)
        return None

    def whole_tag(t):
        return t.op == "call" and re.search(r"tag::Tag<.*>>::(from|try_from|new|try_new)(::<.*>)?$", t.name)
    tail, tag = (a, b) if tail_of_payload(a) else (b, a)
    inner = tag.args[0] if tag.op == "field" and tag.name == "tag" else None
    if inner is not None and inner.op == "tryok":
        inner = inner.args[0]   # a fallible constructor whose error was propagated with `?`
    if inner is not None and whole_tag(inner):
        tag = inner   # the Tag struct's only data field, unsliced
    ok = bool(tail_of_payload(tail)) and whole_tag(tag)
    res.oblige(ok)
    res.inst("C03.R2", "%s: compare %s with %s" % (e.label, M.show(tail)[:120], M.short(tag.name) if tag.op == "call" else M.show(tag)[:80]))
    if not ok:
        res.violate("C03.R2", fn, "tag comparison operands", "the comparison must be between the entire tail of the decoded payload and the entire recomputed tag; found %s vs %s" % (M.show(a)[:160], M.show(b)[:160]),
                    file=file, line=s["ln"])
        return
    # the tag is computed over the PAE of this function, keyed by the derived authentication key
    if len(tag.args) >= 2:
        pae_arg = tag.args[1]
        okp = pae_arg.op == "call" and re.search(r"PreAuthenticationEncoding::parse$", pae_arg.name)
        res.oblige(okp)
        if not okp:
            res.violate("C03.R2", fn, "tag input", "the recomputed tag is not computed over the pre-authentication encoding: %s" % M.show(pae_arg)[:160], file=file, line=s["ln"])
    # R1b: what is decrypted is what was authenticated
    dec = [(bi, t) for bi, t in v.find_calls(r"cipher_text::CipherText<.*Local>>::from$")]
    for bi, t in dec:
        cterm = N.norm(v.op_term(t["args"][0]))
        in_pae = any(p["components"] and any(c == cterm for c in p["components"]) for p in paes)
        res.oblige(in_pae)
        if not in_pae:
            res.violate("C03.R1", fn, "decrypted bytes are not the authenticated ciphertext", "CipherText::from is applied to %s, which is not a component of the pre-authentication encoding" % M.show(cterm)[:160], file=file, line=t["ln"])


def returned_content(v, N, oks):
    """Terms of the value wrapped by the Ok exits, with utf-8 conversion and copies stripped."""
    out = []
    for d in v.defs.get(0, []):
        if d[0] == "assign" and d[3]["k"] == "aggregate" and d[3].get("variant") == "Ok":
            t = N.norm(v.op_term(d[3]["fields"][0]))
            t = strip_utf8(t)
            out.append(t)
    return out


def strip_utf8(t):
    guard = 0
    while isinstance(t, T) and guard < 10:
        guard += 1
        if t.op == "tryok":
            t = t.args[0]
            continue
        if t.op == "call" and re.search(PLAINTEXT_USES, t.meta.get("tdef", "")):
            t = t.args[0]
            continue
        if t.op == "call" and re.search(r"alloc::vec::Vec::<T>::from$|<alloc::vec::Vec<u8> as core::convert::From<&\[u8\]>>::from$|<impl core::convert::From<&\[T\]> for alloc::vec::Vec<T>>::from$", t.name + " " + t.meta.get("def", "")):
            t = t.args[0]
            continue
        break
    return t


def check_sig(res, facts, e, v, N, s, paes, oks):
    fn, file = e.id, v.file()
    ct = N.norm(s["term"])
    # message argument = the PAE (or a digest updated with it)
    msg_arg = ct.args[1] if len(ct.args) > 1 else None
    pae_calls = [c for c in (msg_arg.calls(r"PreAuthenticationEncoding::parse$") if msg_arg is not None else [])]
    ok = len(pae_calls) == 1
    res.oblige(ok)
    if not ok:
        res.violate("C03.R4", fn, "signed message", "the verified message is not (a digest of) exactly one pre-authentication encoding: %s" % M.show(msg_arg)[:200], file=file, line=s["ln"])
        return
    comps = None
    for p in paes:
        if p["components"] is not None:
            comps = p["components"]
    rets = returned_content(v, N, oks)
    okr = bool(rets) and comps is not None and all(any(r == c for c in comps) for r in rets)
    res.oblige(okr)
    res.inst("C03.R4", "%s: %s over PAE; returned message %s is PAE component" % (e.label, s["desc"], M.show(rets[0])[:80] if rets else "?"))
    if not okr:
        res.violate("C03.R4", fn, "returned message is not the verified message", "the Ok value %s is not one of the components covered by the signature" % (M.show(rets[0])[:160] if rets else "?"), file=file, line=s["ln"])
    # signature argument: bytes taken from the decoded payload
    sig_arg = ct.args[2] if len(ct.args) > 2 else None
    oks_ = sig_arg is not None and any(is_payload(x) for x in sig_arg.walk())
    res.oblige(oks_)
    if not oks_:
        res.violate("C03.R4", fn, "signature operand", "the signature handed to the verifier does not come from the token payload: %s" % M.show(sig_arg)[:160], file=file, line=s["ln"])


def check_delegated(res, facts, e, v, N, s, paes, oks):
    """v2.local (AEAD helper) and v1.public (RSA helper): check the helper's primitive and the call-site arguments."""
    fn, file = e.id, v.file()
    cb = facts.bodies[s["callee"]]
    cv = M.view(facts, cb)
    cN = M.Normalizer(facts, keep=KEEP)
    cinfo = S.auth_info(facts, cb)
    call = N.norm(s["term"])
    for cs in cinfo.sites:
        prim = cN.norm(cs["term"])
        if cs["kind"] == "aead":
            # decrypt(self=aead(key), nonce, Payload{msg, aad})
            pl = prim.args[2] if len(prim.args) > 2 else None
            msg = M.mk_field(pl, "msg") if pl is not None else None
            aad = M.mk_field(pl, "aad") if pl is not None else None
            okm = msg is not None and msg.op == "param" and aad is not None and any(x.op == "param" for x in aad.walk())
            res.oblige(okm)
            if not okm:
                res.violate("C03.R3", s["callee"], "AEAD payload", "Aead::decrypt must receive the caller's ciphertext as msg and the caller's pre-authentication encoding as aad; found msg=%s aad=%s" % (M.show(msg)[:100], M.show(aad)[:100]),
                            file=cv.file(), line=cs["ln"])
                continue
            # call site: the msg argument is the whole remainder of the payload, aad is the PAE
            marg = call.args[msg.name - 1]
            aarg = call.args[[x for x in aad.walk() if x.op == "param"][0].name - 1]
            okc = any(is_payload(x) for x in marg.walk()) and aarg.op == "call" and bool(re.search(r"PreAuthenticationEncoding::parse$", aarg.name))
            msl = SL.payload_slice(marg)
            whole = msl is not None and msl[1] == SL.L and msl[0].is_const()
            res.oblige(okc and bool(whole))
            res.inst("C03.R3", "%s: AEAD decrypt of %s with aad %s" % (e.label, M.show(marg)[:80], M.short(aarg.name) if aarg.op == "call" else "?"))
            if not (okc and whole):
                res.violate("C03.R3", fn, "AEAD call-site arguments", "the AEAD must be given the whole post-nonce remainder of the payload and the PAE as associated data; found msg=%s aad=%s" % (M.show(marg)[:120], M.show(aarg)[:120]),
                            file=file, line=s["ln"])
            # returned plaintext is the AEAD's output
            rets = returned_content(v, N, oks)
            okr = bool(rets) and all(any(x.op == "tryok" and x.args[0] == call for x in [r] + list(r.walk())) or r == T("tryok", None, (call,)) or _contains(r, call) for r in rets)
            res.oblige(okr)
            if not okr:
                res.violate("C03.R3", fn, "returned plaintext is not the AEAD output", "Ok value: %s" % (M.show(rets[0])[:160] if rets else "?"), file=file, line=s["ln"])
        elif cs["kind"] == "sig":
            # helper verifies PAE(header, msg, footer) and returns msg
            pv = prim
            msg_arg = pv.args[1] if len(pv.args) > 1 else None
            pae_calls = list(msg_arg.calls(r"PreAuthenticationEncoding::parse$")) if msg_arg is not None else []
            okp = len(pae_calls) == 1
            res.oblige(okp)
            if not okp:
                res.violate("C03.R4", s["callee"], "signed message", "the verified message is not exactly one pre-authentication encoding", file=cv.file(), line=cs["ln"])
                continue
            hp = S.pae_sites(facts, cb, cN)
            comps = hp[0]["components"] if hp else None
            coks, _, _ = S.ok_exits(cv)
            rets = []
            for d in cv.defs.get(0, []):
                if d[0] == "assign" and d[3]["k"] == "aggregate" and d[3].get("variant") == "Ok":
                    rt = cN.norm(cv.op_term(d[3]["fields"][0]))
                    # CipherText{ciphertext: Vec::from(msg)}
                    c2 = M.mk_field(rt, "ciphertext")
                    rets.append(strip_utf8(c2))
            okr = bool(rets) and comps is not None and all(any(r == c for c in comps) for r in rets)
            res.oblige(okr)
            res.inst("C03.R4", "%s: %s over PAE in helper %s; returned message is PAE component" % (e.label, cs["desc"], M.short(s["callee"])))
            if not okr:
                res.violate("C03.R4", s["callee"], "returned message is not the verified message", "helper returns %s" % (M.show(rets[0])[:160] if rets else "?"), file=cv.file(), line=cs["ln"])
            # call site passes the decoded payload and the result's ciphertext is what is returned
            okc = any(is_payload(x) for x in call.args[0].walk()) if call.args else False
            res.oblige(okc)
            if not okc:
                res.violate("C03.R4", fn, "helper argument", "the verification helper is not applied to the token's decoded payload", file=file, line=s["ln"])
            r2 = returned_content(v, N, oks)
            okr2 = bool(r2) and all(_contains(r, call) for r in r2)
            res.oblige(okr2)
            if not okr2:
                res.violate("C03.R4", fn, "returned message is not the verified message", "Ok value %s does not come from the verification helper" % (M.show(r2[0])[:160] if r2 else "?"), file=file, line=s["ln"])


def _contains(t, sub):
    return any(x == sub for x in t.walk())


PRE_AUTH_FORBIDDEN_ERR = r"Utf8Error|FromUtf8Error|serde_json|PasetoClaimError"


def check_error_class(res, facts, e, v, info):
    """R8: failures raised on paths that have not passed authentication are format / authentication errors."""
    fn, file = e.id, v.file()
    pre = v.cfg.reachable_without(edges=info.edges)
    n = 0
    for s in M.try_sites(v):
        if s["branch_block"] not in pre:
            continue
        # the error type converted by `?`
        brk = s["brk"]
        for bi, t in v.calls:
            if bi == brk or (bi in v.cfg.reachable_without(start=brk) and re.search(r"FromResidual::from_residual$", M.callee_trait_def(t["callee"]))):
                if re.search(r"FromResidual::from_residual$", M.callee_trait_def(t["callee"])):
                    n += 1
                    nm = M.callee_name(t["callee"])
                    bad = re.search(PRE_AUTH_FORBIDDEN_ERR, nm)
                    res.oblige(not bad)
                    if bad:
                        res.violate("C03.R8", fn, "pre-authentication error class " + bad.group(0), "a %s error can be returned before the token has authenticated (%s)" % (bad.group(0), M.short(nm)), file=file, line=s["ln"])
                    break
    for d in v.defs.get(0, []):
        if d[0] == "assign" and d[3]["k"] == "aggregate" and d[3].get("variant") == "Err" and d[1] in pre:
            n += 1
            t = v.op_term(d[3]["fields"][0])
            nm = M.show(t)
            bad = re.search(PRE_AUTH_FORBIDDEN_ERR, nm)
            res.oblige(not bad)
            if bad:
                res.violate("C03.R8", fn, "pre-authentication error class " + bad.group(0), "error %s constructed before authentication" % nm[:80], file=file, line=v.line(d[1]))
    res.inst("C03.R8", "%s: %d pre-authentication failure exits, none is a UTF-8 / JSON / claim error" % (e.label, n))


def _only_from_factory(facts):
    g = M.call_graph(facts)
    rev = {}
    for a, bs_ in g.items():
        for b_ in bs_:
            rev.setdefault(b_, set()).add(a)

    def only_from(x, roots, seen=None):
        seen = seen or set()
        if x in roots:
            return True
        if x in seen:
            return True
        seen.add(x)
        b_ = facts.bodies.get(x)
        if b_ is None or (b_.get("vis") == "pub" and "{closure" not in x):
            return False
        cs = rev.get(x, set())
        return bool(cs) and all(only_from(c_, roots, seen) for c_ in cs)
    return only_from


def _outside_scan(res, facts, scope, what):
    """JSON parsing of token content and validator calls only in functions of `scope` / reached only from them"""
    only_from = _only_from_factory(facts)
    for bid, b in facts.bodies.items():
        if bid in scope:
            continue
        v = M.view(facts, b)
        for bi, t in v.calls:
            c = t["callee"]
            td = M.callee_trait_def(c)
            if re.search(r"^serde_json::de::from_str$|^serde_json::de::from_slice$", td) and re.search(r"parsers::|paseto_parser", bid) and not only_from(bid, scope):
                res.oblige(False)
                res.violate("C03.R6", bid, "token JSON parsed outside " + what, "serde_json deserialisation in the parser layer outside " + what, file=v.file(), line=t["ln"])
            if (re.search(r"core::ops::function::Fn::call$", td) and "ValidatorFn" in " ".join(c.get("gargs", [])) + M.callee_name(c) or (re.search(r"core::ops::function::Fn::call$", td) and re.search(r"dyn .*Fn\(&.*str, &.*Value\)", M.callee_name(c)))) and not only_from(bid, scope):
                res.oblige(False)
                res.violate("C03.R6", bid, "validator invoked outside " + what, "a claim validator is called in %s" % M.short(bid), file=v.file(), line=t["ln"])


def _prelude_wrappers(res, facts, entries):
    from .. import layers
    gen_cons = {e.id: e for e in S.select(entries, "generic", "consumer")}
    lay = layers.analyse(facts, entries)
    for e in S.select(entries, "prelude", "consumer"):
        v = M.view(facts, e.body)
        fs, _why = lay.get(e.id, (None, None))
        if fs is not None:
            f = [x for x in fs if x.rule == "C03.R6"][0]
            res.oblige(f.ok)
            if f.ok:
                res.inst("C03.R6", f.desc)
            else:
                res.violate("C03.R6", f.where, f.construct, f.msg, file=f.file, line=f.line)
            continue
        names = [(t["callee"].get("resolved") or t["callee"].get("def")) for _, t in v.calls]
        ok = len(names) == 1 and names[0] in gen_cons and gen_cons[names[0]].vp == e.vp
        res.oblige(ok)
        res.inst("C03.R6", "%s: delegates to %s" % (e.label, M.short(names[0]) if names else "?"))
        if not ok:
            res.violate("C03.R6", e.id, "prelude parse does more than delegate", "expected exactly one call, to GenericParser::<%s, %s>::parse; found %s" % (e.vp[0], e.vp[1], [M.short(n) for n in names]), file=v.file(), line=e.body["line"])




def check_wrappers(res, facts, entries):
    """R6: claims are examined only on authenticated text; validators run only inside verify_claims."""
    vc_pat = r"generic_parser::<impl crate::generic::parsers::generic_parser::GenericParser<'a, 'b, Version, Purpose>>::verify_claims$"
    vc_bodies = [b for bid, b in facts.bodies.items() if re.search(r"GenericParser::<.*>::verify_claims$", bid)]
    if len(vc_bodies) != 1:
        # no single function plays verify_claims: decided for each parse method interpreted whole with the core call summarised (the payload
        # is examined - parsed, compared, handed to a validator - only on the Ok value of the authenticating call)
        from .. import claims_sem
        fs = claims_sem.parse_contracts(facts, entries)
        if fs and all(f.ok is not None for f in fs) and len(fs) >= 8:
            for f in fs:
                res.oblige(f.ok)
                if f.ok:
                    res.inst("C03.R6", f.desc)
                    res.inst("C03.R6", f.desc + " (no other caller: claim checking is part of the parse methods)")
                else:
                    res.violate("C03.R6", f.where, f.construct, f.msg, file=f.file, line=f.line)
            _outside_scan(res, facts, set(e.id for e in S.select(entries, "generic", "consumer")), "the parse methods")
            _prelude_wrappers(res, facts, entries)
            return
        res.oblige(False)
        res.violate("C03.R6", "GenericParser::verify_claims", "anchor missing", "expected exactly one verify_claims function, found %d (and the parse methods could not be decided whole)" % len(vc_bodies))
        return
    res.oblige(True)
    vc = vc_bodies[0]
    callers = []
    for bid, b in facts.bodies.items():
        v = M.view(facts, b)
        for bi, t in v.calls:
            if (t["callee"].get("resolved") or t["callee"].get("def")) == vc["id"]:
                callers.append((bid, bi, t))
    gen_cons = {e.id: e for e in S.select(entries, "generic", "consumer")}
    # who may reach verify_claims: the 8 parse methods and non-public helpers / closures that only they call
    g = M.call_graph(facts)
    rev = {}
    for a, bs_ in g.items():
        for b_ in bs_:
            rev.setdefault(b_, set()).add(a)

    def only_from(x, roots, seen=None):
        seen = seen or set()
        if x in roots:
            return True
        if x in seen:
            return True
        seen.add(x)
        b_ = facts.bodies.get(x)
        if b_ is None or (b_.get("vis") == "pub" and "{closure" not in x):
            return False
        cs = rev.get(x, set())
        return bool(cs) and all(only_from(c_, roots, seen) for c_ in cs)
    for bid, bi, t in callers:
        ok = only_from(bid, set(gen_cons))
        res.oblige(ok)
        if not ok:
            res.violate("C03.R6", bid, "verify_claims called outside the parse entry points", "claims may be examined on text that has not been authenticated", file=M.view(facts, facts.bodies[bid]).file(), line=t["ln"])
    from .. import claims_sem, layers
    sem = {}
    for f in claims_sem.parse_contracts(facts, entries):
        sem[f.where] = f
    for e in gen_cons.values():
        v = M.view(facts, e.body)
        f = sem.get(e.id)
        if f is not None and f.ok is not None:
            # semantic contract (rules/claims_sem.py): core call with the parser's expectations, verify_claims only on its Ok value
            res.oblige(f.ok)
            if f.ok:
                res.inst("C03.R6", f.desc)
            else:
                res.violate("C03.R6", f.where, f.construct, f.msg, file=f.file, line=f.line)
            continue
        N = M.Normalizer(facts, keep=KEEP)
        info = S.auth_info(facts, e.body)
        calls = [(bi, t) for bi, t in v.calls if (t["callee"].get("resolved") or t["callee"].get("def")) == vc["id"]]
        ok = bool(calls) and bool(info.edges) and all(v.cfg.must_pass([bi], edges=info.edges) for bi, _ in calls)
        res.oblige(ok)
        if not ok:
            res.violate("C03.R6", e.id, "claims examined before authentication", "verify_claims is not dominated by the success edge of the core decrypt/verify call", file=v.file(), line=e.body["line"])
            continue
        # argument = Ok value of the authenticating call
        good = True
        for bi, t in calls:
            a = N.norm(v.op_term(t["args"][1]))
            auth_terms = [s["term"] for s in info.sites]
            if not (a.op == "tryok" and any(N.norm(x) == a.args[0] for x in auth_terms)):
                good = False
                res.violate("C03.R6", e.id, "claims examined on a different text", "verify_claims receives %s, not the Ok value of the authenticating call" % M.show(a)[:160], file=v.file(), line=t["ln"])
        res.oblige(good)
        # all Ok exits are delegated to verify_claims
        oks, errs, delegated = S.ok_exits(v)
        okd = not oks and all(t is not None and (t["callee"].get("resolved") or t["callee"].get("def")) == vc["id"] for _, t in delegated)
        res.oblige(okd)
        if not okd:
            res.violate("C03.R6", e.id, "result not produced by verify_claims", "the parser returns a value that did not go through verify_claims", file=v.file(), line=e.body["line"])
        res.inst("C03.R6", "%s: verify_claims(tryok(core call)) after authentication" % e.label)
    _outside_scan(res, facts, {vc["id"]}, "verify_claims")
    _prelude_wrappers(res, facts, entries)


def check_base64(res, facts):
    """R7: one strict base64 engine everywhere."""
    for bid, b in facts.bodies.items():
        v = M.view(facts, b)
        for bi, t in v.calls:
            td = M.callee_trait_def(t["callee"])
            if re.search(r"^base64::", td):
                if re.search(r"^base64::engine::Engine::(decode|encode)$", td):
                    eng = v.op_term(t["args"][0])
                    ok = eng.op == "const" and "URL_SAFE_NO_PAD" in str(eng.name)
                    res.oblige(ok)
                    res.inst("C03.R7", "%s: %s with %s" % (M.short(bid), td.split("::")[-1], eng.name if eng.op == "const" else M.show(eng)[:60]))
                    if not ok:
                        res.violate("C03.R7", bid, "base64 engine", "base64 %s uses engine %s instead of URL_SAFE_NO_PAD (padding / lenient decoding would accept re-encoded tokens)" % (td.split("::")[-1], M.show(eng)[:80]), file=v.file(), line=t["ln"])
                else:
                    res.oblige(False)
                    res.violate("C03.R7", bid, "unrecognised base64 call " + td, "only Engine::encode / Engine::decode on URL_SAFE_NO_PAD are recognised as strict", file=v.file(), line=t["ln"])
