"""C17 A repeated top-level claim makes the batteries-included build fail (monotone-flag invariant, structurally preserved)."""
import re

from .. import absint as A
from .. import facts as F
from .. import mir as M
from .. import skeleton as S
from ..harness import Result
from . import _fpai

LEVEL = "proof"
PB = r"PasetoBuilder::<'a, Version, Purpose>::"


def run(tier):
    res = Result("C17", LEVEL)
    res.trusted = ["HashSet::insert returns false exactly for a key that is already present", "PasetoClaim::get_key is pure (the calls on one claim inside set_claim return the same string) - true for the 8 claim types of the crate, an obligation on user-defined claims"]
    res.assumptions = ["the history quantifier is removed by an invariant: (flag set <=> some key was inserted twice) and (flag set => every build fails before producing a token); its preservation by every method of PasetoBuilder is what is checked"]
    facts = F.load("all")
    # decided over call sequences from default() with the generic builder summarised (rules/builder_sem.py) - independent of how the
    # duplicate marker and the acknowledgement are represented; the per-method rules on the private fields only when that is undecided
    from .. import builder_sem
    seqs = builder_sem.analyse_cached(facts, S.entry_points(facts))
    prod = S.select(S.entry_points(facts), "prelude", "producer")
    sc = seqs.get("(set_claim)", (None, None))[0]
    seq_ok = bool(prod) and all(seqs.get(e.id, (None, None))[0] is not None for e in prod) and sc is not None
    if seq_ok:
        for e in prod:
            for f in seqs[e.id][0]:
                if f.rule in ("C17.R2", "C17.R4"):
                    for rid in ((f.rule, "C17.R1") if f.rule == "C17.R2" else (f.rule,)):
                        res.oblige(f.ok)
                        if f.ok:
                            res.inst(rid, f.desc)
                        else:
                            res.violate(rid, f.where, f.construct, f.msg, file=f.file, line=f.line)
        for f in sc:
            for _i in range(4):
                res.oblige(f.ok)
            if f.ok:
                for K in ("custom key", "nbf", "custom key, second call", "nbf, second call"):
                    res.inst(f.rule, f.desc + " [%s]" % K)
            else:
                res.violate(f.rule, f.where, f.construct, f.msg, file=f.file, line=f.line)
    else:
        set_claim(res, facts)
        monotone(res, facts)
    if seq_ok:
        pass
    elif not semantic_build(res, facts, S.entry_points(facts), ("C17.R4", "C17.R2")):
        ready(res, facts, "C17.R4")
        order(res, facts, S.entry_points(facts), "C17.R4")
    res.floor("C17.R1", 4)
    res.floor("C17.R2", 3)
    res.floor("C17.R4", 8)
    res.floor("C17.R5", 4)
    if tier == "thorough":
        # every call sequence up to 6 calls (one protocol; up to 3 for the other seven) against the reference behaviour the property states
        from .. import builder_sem
        nseq, probs_, why_ = builder_sem.exhaustive(facts, S.entry_points(facts), 6, 3)
        res.extra["call_sequences_explored"] = nseq
        if why_:
            res.oblige(False)
            res.violate("C17.R9", "PasetoBuilder", "call sequences not decided", "exhaustive exploration of call sequences could not be completed (fail closed): %s" % why_)
        for p_ in probs_[:10]:
            res.oblige(False)
            res.violate("C17.R9", "PasetoBuilder", p_.split(":")[0][:100], p_)
        if not why_ and not probs_:
            res.oblige(True)
            res.inst("C17.R9", "all %d call sequences over {set_claim(K | nbf | exp | other), acknowledge, set_footer, build} up to 6 calls behave as the reference model (duplicates -> Err naming a duplicated key, exp removed exactly when acknowledged, builds repeatable)" % nseq)
    res.explanation = ("abstract interpretation of PasetoBuilder::set_claim over {insert -> new, insert -> duplicate} x {key = nbf, other} and of verify_ready_to_build over {acknowledged} x {duplicate flag}; "
                       "who-writes analysis of the flag and the key set over the whole crate (monotonicity); CFG dominance of the duplicate check before any encryption / signing in the 8 build methods")
    return res


def semantic_build(res, facts, entries, rules):
    """the 8 build methods decided by their contract (rules/layers.py: interpreted with the generic builder summarised): duplicate flag set ->
    Err(Duplicate(recorded key)) before anything is built; exp removed iff acknowledged; flags persist.  True when all 8 were decided."""
    from .. import layers
    lay = layers.analyse(facts, entries)
    prod = S.select(entries, "prelude", "producer")
    if not prod or any(lay.get(e.id, (None, None))[0] is None for e in prod):
        return False
    for e in prod:
        for f in lay[e.id][0]:
            if f.rule in rules:
                res.oblige(f.ok)
                if f.ok:
                    res.inst(f.rule, f.desc)
                else:
                    res.violate(f.rule, f.where, f.construct, f.msg, file=f.file, line=f.line)
    return True


def set_claim_sem(facts, b):
    """PasetoBuilder::set_claim interpreted on concrete builder states: top_level_claims in {{}, {K}, {other}}, the flag (false, ""), a claim
    with key K (a custom key and "nbf"), the inner builder summarised.  Contract: the key is in the set afterwards, nothing else changes
    in it; the flag becomes (true, K) exactly when K was there before; the value goes to GenericBuilder::set_claim once.
    Returns list of (rule, ok, description / message) or None when undecided."""
    from .. import models as MD
    from .. import models_iter as MI
    out = []
    for K in ("K", "nbf"):
        for before in ([], [K], ["other"]):
            I = A.Interp(facts, MD.MODELS)
            I.concrete_maps = True

            def inner(name):
                def f(I_, st_, args_):
                    st_.events.append((name, [getattr(MD.deref(I_, st_, a), "name", None) or MD.describe(I_, st_, a) for a in args_[1:]]))
                    return args_[0]
                return f
            I.fn_stubs = [(re.compile(r"GenericBuilder::<.*>::set_claim$"), inner("inner_set_claim")), (re.compile(r"GenericBuilder::<.*>::remove_claim$"), inner("inner_remove_claim"))]
            st = A.State()
            flag0 = A.Struct("(tuple)", None, {"0": A.BoolV(False), "1": A.StrV("")})
            me_v = A.Struct("crate::prelude::paseto_builder::PasetoBuilder", None, {
                "version": A.UNIT, "purpose": A.UNIT, "builder": A.Sym("self.builder"), "top_level_claims": MI.mapv("top_level_claims", [(A.StrV(k), A.UNIT) for k in before]),
                "dup_top_level_found": flag0, "non_expiring_token": A.BoolV(False)})
            me = st.new_cell(me_v)
            outs = I.run(b, [A.Ptr(me), A.Sym("value", attrs={"claim_key": K})], st)
            if not outs:
                return None
            pre = "key %r, keys set before %s" % (K, before)
            for o in outs:
                if o.kind != "return" or _fpai.undecided(o):
                    return None
                cur = MD.deref(I, o.state, A.Ptr(me))
                if not isinstance(cur, A.Struct):
                    return None
                m = MD.deref(I, o.state, cur.fields.get("top_level_claims"))
                fl = MD.deref(I, o.state, cur.fields.get("dup_top_level_found"))
                ne = I.resolve(o.state, cur.fields.get("non_expiring_token"))
                if not MI.is_map(m) or not isinstance(fl, A.Struct):
                    return None
                got = sorted(str(MD.str_key(I, o.state, e.fields["0"])[1]) for e in MI._entries(m))
                f0, f1 = I.resolve(o.state, fl.fields.get("0")), MD.deref(I, o.state, fl.fields.get("1"))
                flag = (f0.b if isinstance(f0, A.BoolV) else None, f1.s if isinstance(f1, A.StrV) else repr(f1))
                want_flag = (True, K) if K in before else (False, "")
                probs = []
                if got != sorted(set(before) | {K}):
                    probs.append("the keys recorded afterwards are %s instead of %s" % (got, sorted(set(before) | {K})))
                if flag != want_flag:
                    probs.append("the duplicate flag is %r instead of %r" % (flag, want_flag))
                out.append(("C17.R1", not probs, "set_claim [%s]: %s" % (pre, "; ".join(probs) or "key recorded, flag %s" % ("set to (true, key)" if K in before else "untouched"))))
                fw = [e for e in o.state.events if e[0] == "inner_set_claim"]
                okf = len(fw) == 1 and fw[0][1] == ["value"]
                out.append(("C17.R5", okf, "set_claim [%s]: %s" % (pre, "value forwarded to GenericBuilder::set_claim" if okf else "every caller-supplied claim must go to GenericBuilder::set_claim(value) exactly once; calls: %s" % [e[1] for e in fw])))
                if not (isinstance(ne, A.BoolV) and ne.b is False):
                    out.append(("C17.R2", False, "set_claim [%s]: the acknowledgement flag is written (%r)" % (pre, ne)))
    return out


def set_claim(res, facts):
    b = _fpai.find_body(facts, PB + r"set_claim$")
    if b is None:
        res.violate("C17.R1", "PasetoBuilder::set_claim", "anchor missing", "PasetoBuilder::set_claim not found")
        return
    v = M.view(facts, b)
    sem = set_claim_sem(facts, b)
    if sem is not None:
        for rule, ok, text in sem:
            res.oblige(ok)
            if ok:
                res.inst(rule, text)
            else:
                res.violate(rule, b["id"], text.split(":")[0][:80] + " " + rule, text, file=v.file(), line=b["line"])
        return
    I, me, outs = _fpai.run_on_self(facts, b, [A.Sym("value")])
    if not outs:
        res.violate("C17.R1", b["id"], "no outcome", "abstract interpretation produced no path")
    for o in outs:
        cond = " & ".join(o.state.cond)
        if o.kind != "return" or _fpai.undecided(o):
            res.oblige(False)
            res.violate("C17.R1", b["id"], "undecided path", "path [%s] could not be decided: %s %s" % (cond, o.state.unmodelled, o.state.notes), file=v.file(), line=b["line"])
            continue
        ins = [e for e in o.state.events if e[0] == "HashSet::insert"]
        keyed = [e for e in ins if e[1] in (("sym", "key(value)"),) or (e[1][0] == "const" and ("streq", "key(value)") in o.state.facts and o.state.facts[("streq", "key(value)")] == e[1][1])]
        w = _fpai.written_fields(o, me)
        flag = w.get("dup_top_level_found")
        ok = len(keyed) == 1 and len(ins) == 1
        why = ""
        if not ok:
            why = "the claim's key must be inserted into top_level_claims exactly once on every path; inserts: %s" % (ins,)
        else:
            dup = keyed[0][2] == "dup"
            if dup:
                good = isinstance(flag, A.Struct) and isinstance(I.resolve(o.state, flag.fields.get("0")), A.BoolV) and I.resolve(o.state, flag.fields.get("0")).b is True and \
                    isinstance(flag.fields.get("1"), (A.Seq, A.StrV)) and (getattr(flag.fields.get("1"), "name", None) == "key(value)" or (isinstance(flag.fields.get("1"), A.StrV) and o.state.facts.get(("streq", "key(value)")) == flag.fields["1"].s))
                if not good:
                    ok = False
                    why = "when the key was already present the flag must become (true, that key); it is %r" % (flag,)
            else:
                if flag is not None:
                    ok = False
                    why = "when the key is new the duplicate flag must not be touched; it is overwritten with %r (an earlier duplicate would be forgotten)" % (flag,)
        res.oblige(ok)
        if ok:
            res.inst("C17.R1", "set_claim [%s]: key inserted once, flag %s" % (cond, "set to (true, key)" if flag is not None else "untouched"))
        else:
            res.violate("C17.R1", b["id"], "duplicate bookkeeping on path [%s]" % re.sub(r"key\(value\)", "key", cond), why, file=v.file(), line=b["line"])
        # R5: the value is forwarded to the inner builder on every path
        fw = [e for e in o.state.events if e[0] == "GenericBuilder::set_claim" and e[1][1:] == [("sym", "value")]]
        okf = len(fw) == 1
        res.oblige(okf)
        if okf:
            res.inst("C17.R5", "set_claim [%s]: value forwarded to GenericBuilder::set_claim" % cond)
        else:
            res.violate("C17.R5", b["id"], "value not forwarded on path [%s]" % re.sub(r"key\(value\)", "key", cond), "every caller-supplied claim must replace the default: GenericBuilder::set_claim(value) must be called once; events: %s" % (o.state.events,), file=v.file(), line=b["line"])
        others = set(w) - {"dup_top_level_found"}
        if others & {"non_expiring_token"}:
            res.violate("C17.R2", b["id"], "set_claim writes " + ",".join(sorted(others)), "set_claim must not touch the acknowledgement flag", file=v.file(), line=b["line"])


def monotone(res, facts):
    """R2: the flag is only ever set to true (besides construction); nothing removes from top_level_claims. R3: constant-key inserts."""
    n = 0
    for bid, b in sorted(facts.bodies.items()):
        v = M.view(facts, b)
        for w in M.field_writes(v):
            if not w["adt"].endswith("paseto_builder::PasetoBuilder"):
                continue
            if w["field"] == "dup_top_level_found":
                n += 1
                ok = bool(re.search(PB + r"set_claim$", bid)) and w["kind"] == "assign"
                res.oblige(ok)
                if ok:
                    res.inst("C17.R2", "dup_top_level_found written in %s (value checked by R1)" % M.short(bid))
                else:
                    res.violate("C17.R2", bid, "write to dup_top_level_found (%s%s)" % (w["kind"], " via " + ",".join(M.short(u) for u in w.get("users", [])) if w.get("users") else ""),
                                "the duplicate flag may only be set by set_claim: any other writer can clear a recorded duplicate", file=v.file(), line=w["ln"])
            if w["field"] == "top_level_claims":
                n += 1
                users = w.get("user_defs", [])
                ok = w["kind"] == "mutborrow" and users and all(re.search(r"HashSet::<T, S, A>::insert$", u) for u in users)
                res.oblige(bool(ok))
                if ok:
                    res.inst("C17.R2", "top_level_claims only grows in %s (insert)" % M.short(bid))
                else:
                    res.violate("C17.R2", bid, "top_level_claims modified by %s" % (",".join(M.short(u) for u in users) or w["kind"]), "keys may only be added to the set of seen top-level claims", file=v.file(), line=w["ln"])
        # constant-key inserts
        if re.search(r"paseto_builder::", bid):
            N = M.Normalizer(facts, keep=[])
            for bi, t in v.find_calls(r"HashSet::<T, S, A>::insert$"):
                k = N.norm(v.op_term(t["args"][1]))
                if k.op == "const":
                    ok = k.name == "exp" and bool(re.search(PB + r"set_no_expiration_danger_acknowledged$", bid))
                    res.oblige(ok)
                    if ok:
                        res.inst("C17.R3", "the only constant key inserted is 'exp' in set_no_expiration_danger_acknowledged (the latitude the statement grants)")
                    else:
                        res.violate("C17.R3", bid, "constant key %r pre-inserted" % (k.name,), "a key inserted without the caller supplying it makes the caller's first use a 'duplicate'", file=v.file(), line=t["ln"])
    # construction: new() starts with (false, "") and an empty set
    b = _fpai.find_body(facts, PB + r"new$")
    if b is not None:
        v = M.view(facts, b)
        N = M.Normalizer(facts, keep=[])
        rt = N.norm(v.return_term())
        flag = M.mk_field(rt, "dup_top_level_found")
        ne = M.mk_field(rt, "non_expiring_token")
        tl = M.mk_field(rt, "top_level_claims")
        ok = flag.op == "agg" and flag.args and flag.args[0].args[0] == M.T("const", 0) and tl.op == "call" and bool(re.search(r"HashSet::<T>::new$|HashSet::<T, .*>::new$|HashSet.*::(new|default)$", tl.name))
        res.oblige(ok)
        if ok:
            res.inst("C17.R2", "PasetoBuilder::new starts with flag (false, ..) and an empty key set")
        else:
            res.violate("C17.R2", b["id"], "initial builder state", "new() must start with the duplicate flag false and an empty key set; found %s / %s" % (M.show(flag)[:60], M.show(tl)[:60]), file=v.file(), line=b["line"])
    else:
        res.violate("C17.R2", "PasetoBuilder::new", "anchor missing", "PasetoBuilder::new not found")


def ready(res, facts, rule, c13=False):
    """verify_ready_to_build over {ack} x {dup}: Err(Duplicate(stored key)) iff dup; remove_claim("exp") iff ack; flags untouched."""
    b = _fpai.find_body(facts, PB + r"verify_ready_to_build$")
    if b is None:
        res.violate(rule, "PasetoBuilder::verify_ready_to_build", "anchor missing", "verify_ready_to_build not found")
        return
    v = M.view(facts, b)
    I, me, outs = _fpai.run_on_self(facts, b)
    seen = set()
    for o in outs:
        cond = " & ".join(o.state.cond)
        if o.kind != "return" or _fpai.undecided(o):
            res.oblige(False)
            res.violate(rule, b["id"], "undecided path", "path [%s] could not be decided: %s %s" % (cond, o.state.unmodelled, o.state.notes), file=v.file(), line=b["line"])
            continue
        ack = "self.non_expiring_token" in o.state.cond
        nack = "!self.non_expiring_token" in o.state.cond
        dup = "self.dup_top_level_found.0" in o.state.cond
        ndup = "!self.dup_top_level_found.0" in o.state.cond
        rv = _fpai.result_variant(I, o)
        removes = [e for e in o.state.events if e[0] == "GenericBuilder::remove_claim"]
        w = _fpai.written_fields(o, me)
        if c13:
            ok = (ack or nack) and ((len(removes) == 1 and removes[0][1][1:] == [("const", "exp")]) if ack else not removes)
            why = "exp must be removed from the builder exactly when no-expiration was acknowledged; on path [%s] removals are %s" % (cond, removes)
            if ok and "non_expiring_token" in w:
                ok = False
                why = "the acknowledgement must persist across builds; it is overwritten with %r" % (w["non_expiring_token"],)
        else:
            ok = (dup or ndup) and ((rv == "Err(DuplicateTopLevelPayloadClaim)") if dup else (rv == "Ok"))
            why = "build must fail with the duplicate-claim error exactly when the flag is set; on path [%s] the result is %s" % (cond, rv)
            if ok and dup:
                r = I.resolve(o.state, o.value)
                e = I.resolve(o.state, r.fields["0"])
                k = MD_key(I, o.state, e.fields.get("0"))
                if k != "self.dup_top_level_found.1":
                    ok = False
                    why = "the error must name the stored duplicated key; it carries %s" % k
            if ok and "dup_top_level_found" in w:
                ok = False
                why = "the duplicate flag must persist (every later build fails too); verify_ready_to_build overwrites it with %r" % (w["dup_top_level_found"],)
        res.oblige(ok)
        seen.add((ack, dup))
        if ok:
            res.inst(rule, "verify_ready_to_build [%s] -> %s, removals %s" % (cond, rv, [r[1][1] for r in removes]))
        else:
            res.violate(rule, b["id"], "readiness check on path [%s]" % cond, why, file=v.file(), line=b["line"])
    need = 4 if c13 else 2
    cov = seen if c13 else set(d for _, d in seen)
    if len(cov) < need:
        res.violate(rule, b["id"], "partition not covered", "expected the cases %s; covered %s (the function no longer reads the flag(s) - fail closed)" % ("{acknowledged} x {duplicate}" if c13 else "{duplicate flag set, not set}", sorted(seen)), file=v.file(), line=b["line"])


def MD_key(I, st, v):
    from .. import models as MD
    v = MD.deref(I, st, v)
    return getattr(v, "name", repr(v))


def order(res, facts, entries, rule):
    """each of the 8 build methods runs verify_ready_to_build()? before the inner try_encrypt / try_sign"""
    for e in S.select(entries, "prelude", "producer"):
        v = M.view(facts, e.body)
        sites = [s for s in M.try_sites(v) if S.strip_result_wrappers(s["operand"]).op == "call" and re.search(r"verify_ready_to_build$", S.strip_result_wrappers(s["operand"]).name)]
        inner = v.find_calls(r"GenericBuilder::<.*>::(try_encrypt|try_sign)$")
        ok = len(sites) >= 1 and len(inner) == 1 and v.cfg.must_pass([inner[0][0]], edges=[(s["switch_block"], s["cont"]) for s in sites])
        # receiver of the check is self
        res.oblige(ok)
        if ok:
            res.inst(rule, "%s: verify_ready_to_build()? dominates the inner %s" % (e.label, M.short(M.callee_def(inner[0][1]["callee"]))[-11:]))
        else:
            res.violate(rule, e.id, "build without the readiness check", "the inner try_encrypt/try_sign must be reachable only through the success edge of self.verify_ready_to_build()?", file=v.file(), line=e.body["line"])
