"""C12 The default parser rejects tokens that are not yet valid."""
from . import _validators

LEVEL = "proof"


def run(tier):
    return _validators.run("C12", "nbf", "nbf")
