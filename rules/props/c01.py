"""C01 Local tokens decrypt back to exactly the message that was encrypted (structural necessary conditions)."""
from . import _proto

LEVEL = "other"
RULES = {"C01.R1", "C01.R2", "C01.R3", "C01.R4", "C01.R5", "C01.R7", "C01.R8", "C01.R9", "C01.R10"}


def extra(res, facts, entries, protos):
    _proto.state_rule(res, "C01.R11", facts, entries)
    _proto.clone_rule(res, "C01.R12", facts)
    _proto.refusal_rules(res, "C01.R6", facts)


def run(tier):
    return _proto.run_rules(
        "C01", LEVEL, RULES,
        {"C01.R1": 7, "C01.R2": 6, "C01.R3": 6, "C01.R4": 18, "C01.R5": 4, "C01.R6": 2, "C01.R7": 30, "C01.R8": 5, "C01.R10": 4},
        "sibling agreement between try_encrypt and try_decrypt of the 4 local protocols read off provenance terms: cut points = specification lengths and the producer's layout, "
        "length guard rejects nothing an encryptor can produce, identical key-split derivations modulo the nonce's origin, same cipher function both ways, equal PAE component lists; "
        "plumbing of payload / key / footer / assertion through the 16 generic + 16 prelude wrappers and the setters; builders keep footer and assertion across builds",
        ["stream ciphers (AES-256-CTR, XChaCha20) are involutions under the same key/nonce; XChaCha20-Poly1305 decrypt inverts encrypt", "UTF-8 and serde_json round trips"],
        extra, "that applying the keystream twice is the identity, UTF-8 preservation, JSON round trip (behaviour of dependencies over run-time values)", sem_rules={'C01.S0': 4, 'C01.S1': 4, 'C01.S10': 4})
