"""C16 Custom validators see only authenticated values and their verdict is honoured."""
import re

from .. import claims as CL
from .. import facts as F
from .. import mir as M
from .. import skeleton as S
from ..harness import Result
from . import _validators
from . import c03

LEVEL = "other"
RULES = ("C16.R2", "C16.R3", "C16.R4", "C16.R6")


def run(tier):
    res = Result("C16", LEVEL)
    res.trusted = ["HashMap iteration visits every entry exactly once (one call site per loop => exactly once per registered key)", "HashMap::insert replaces the previous validator of a key (last registration wins)"]
    facts = F.load("all")
    entries = S.entry_points(facts)
    # R1: validators only after authentication, only from verify_claims (the C03.R6 rule set, re-evaluated here)
    r3 = Result("C03", "other")
    c03.check_wrappers(r3, facts, entries)
    for v in r3.violations:
        res.violate("C16.R1", v.where, v.construct, v.msg, file=v.file, line=v.line)
    for d in r3.instances.get("C03.R6", []):
        res.inst("C16.R1", d)
    res.obligations += r3.obligations
    res.discharged += r3.discharged
    for f in CL.analyse(facts):
        if f.rule not in RULES:
            continue
        res.oblige(f.ok)
        if f.ok:
            res.inst(f.rule, f.desc)
        else:
            res.violate(f.rule, f.where, f.construct, f.msg, file=f.file, line=f.line)
    # R5: registration stores the validator under the claim's key, replacing an earlier one, and keeps every other registered validator:
    # decided by abstract interpretation of the registration functions from every combination of earlier entries (rules/claims_sem.py);
    # the structural rules only where that is undecided
    from .. import claims_sem
    sem5 = [f for f in claims_sem.registration_contracts(facts) if f.rule == "C16.R5"]
    for f in sem5:
        if f.ok is None:
            continue
        res.oblige(f.ok)
        if f.ok:
            res.inst(f.rule, f.desc)
        else:
            res.violate(f.rule, f.where, f.construct, f.msg, file=f.file, line=f.line)
    if not sem5 or any(f.ok is None for f in sem5):
        r5 = Result("C16", "other")
        _validators.plumbing(r5, "C16", facts)
        for v in r5.violations:
            res.violate("C16.R5", v.where, v.construct, v.msg, file=v.file, line=v.line)
        for d in r5.instances.get("C16.R1", []):
            res.inst("C16.R5", d)
        res.obligations += r5.obligations
        res.discharged += r5.discharged
        extend(res, facts)
    # R7: the key a validator is registered (and later invoked) under is the claim's get_key(): every constructor of the typed claims -
    # in particular the Default placeholders documented for validate_claim - builds the claim under its registered key (C14.R1's table)
    from . import c14
    r7 = Result("C14", "other")
    c14.key_table(r7, facts)
    for v in r7.violations:
        res.violate("C16.R7", v.where, v.construct, v.msg + " - a validator registered through this claim would be stored and called under another key", file=v.file, line=v.line)
    for d in r7.instances.get("C14.R1", []):
        res.inst("C16.R7", d)
    res.obligations += r7.obligations
    res.discharged += r7.discharged
    res.floor("C16.R7", 15)
    res.floor("C16.R1", 16)
    res.floor("C16.R2", 1)
    res.floor("C16.R3", 1)
    res.floor("C16.R4", 1)
    res.floor("C16.R5", 3)
    res.floor("C16.R6", 1)
    res.explanation = ("CFG dominance: verify_claims (the only place a validator is invoked) runs only after the success edge of the core decrypt/verify in the 8 generic parse methods, on its Ok value; inside verify_claims every iteration "
                       "consults the validator table, a registered validator is called with (key, &json[key]) of the authenticated payload, its Result goes through `?`, an iteration completes only through its success edge; "
                       "validators without expected claim are visited by a second loop; registration inserts (claim key, closure) with HashMap::insert")
    return res


def extend(res, facts):
    b = [b for bid, b in facts.bodies.items() if re.search(r"GenericParser::<'a, 'b, Version, Purpose>::extend_validation_claims$", bid)]
    if len(b) != 1:
        res.violate("C16.R5", "GenericParser::extend_validation_claims", "anchor missing", "not found")
        return
    v = M.view(facts, b[0])
    N = M.Normalizer(facts, keep=[])
    cs = v.find_calls(r"core::iter::traits::collect::Extend::extend$")
    ok = len(cs) == 1
    if ok:
        ct = S.demut(N.norm(v.call_term(cs[0][1], cs[0][0])))
        ok = ct.args[0] == M.T("field", "claim_validators", (M.T("param", 1),)) and ct.args[1] == M.T("param", 2)
    res.oblige(ok)
    if ok:
        res.inst("C16.R5", "extend_validation_claims extends claim_validators with its argument")
    else:
        res.violate("C16.R5", b[0]["id"], "validators not stored", "extend_validation_claims must extend self.claim_validators with the given map", file=v.file(), line=b[0]["line"])
