"""C11 The default parser rejects expired tokens."""
from . import _validators

LEVEL = "proof"


def run(tier):
    return _validators.run("C11", "exp", "exp")
