"""C19 Mixing versions or purposes is a compile-time error.

R1  compile-fail matrix: generated programs (one function each) that mix protocols are type-checked by rustc against the
    working tree; every negative must be rejected with E0308 / E0277 / E0599 located inside it, every positive twin (same
    operation with matching types) must type-check in an error-free unit.
R2  closed-world impl-header audit over the driver's facts: the ways to obtain or consume a key / nonce type are exactly the
    frozen table (coherence makes the crate's impl set complete), marker traits cover exactly their versions, every entry
    point's key parameters carry the impl's own concrete (version, purpose).
"""
import json
import os
import re
import shutil
import subprocess

from .. import facts as F
from .. import mir as M
from .. import skeleton as S
from ..harness import Result

LEVEL = "proof"
VERS = ["V1", "V2", "V3", "V4"]
PROTOS = [(v, p) for v in VERS for p in ("Local", "Public")]
IA = ("V3", "V4")
EXPECT = {"E0308", "E0277", "E0599", "E0061", "E0282", "E0283"}
GOOD = {"E0308", "E0277", "E0599"}


# ------------------------------------------------------------------ program generator
def key_setup(v, p, role, name="k"):
    """statements creating a key value `name` valid for protocol (v, p); role in {sym, priv, pub}"""
    if p == "Local":
        return ["let %s_raw = Key::<32>::from([1u8; 32]);" % name, "let %s = PasetoSymmetricKey::<%s, Local>::from(%s_raw);" % (name, v, name)]
    if role == "priv":
        if v in ("V2", "V4"):
            return ["let %s_raw = Key::<64>::from([1u8; 64]);" % name, "let %s = PasetoAsymmetricPrivateKey::<%s, Public>::from(&%s_raw);" % (name, v, name)]
        if v == "V3":
            return ["let %s_raw = Key::<48>::from([1u8; 48]);" % name, "let %s = PasetoAsymmetricPrivateKey::<V3, Public>::from(&%s_raw);" % (name, name)]
        return ["let %s_raw = [1u8; 64];" % name, "let %s = PasetoAsymmetricPrivateKey::<V1, Public>::from(&%s_raw[..]);" % (name, name)]
    if v in ("V2", "V4"):
        return ["let %s_raw = Key::<32>::from([1u8; 32]);" % name, "let %s = PasetoAsymmetricPublicKey::<%s, Public>::from(&%s_raw);" % (name, v, name)]
    if v == "V3":
        return ["let %s_raw = Key::<49>::from([2u8; 49]);" % name, "let %s = PasetoAsymmetricPublicKey::<V3, Public>::try_from(&%s_raw).unwrap();" % (name, name)]
    return ["let %s_raw = [1u8; 64];" % name, "let %s = PasetoAsymmetricPublicKey::<V1, Public>::from(&%s_raw[..]);" % (name, name)]


def nonce_setup(v, name="n"):
    n = 24 if v == "V2" else 32
    return ["let %s_raw = Key::<%d>::from([3u8; %d]);" % (name, n, n), "let %s = PasetoNonce::<%s, Local>::from(&%s_raw);" % (name, v, name)]


def op_lines(layer, op, X, keyname="k", noncename="n"):
    """the operation of protocol X (as statements) using key variable `keyname`"""
    v, p = X
    ia = v in IA
    if layer == "core":
        if op == "produce":
            if p == "Local":
                return ["let _ = Paseto::<%s, Local>::builder().set_payload(Payload::from(\"{}\")).try_encrypt(&%s, &%s);" % (v, keyname, noncename)]
            return ["let _ = Paseto::<%s, Public>::builder().set_payload(Payload::from(\"{}\")).try_sign(&%s);" % (v, keyname)]
        f = "try_decrypt" if p == "Local" else "try_verify"
        return ["let _ = Paseto::<%s, %s>::%s(\"t\", &%s, Footer::from(\"f\")%s);" % (v, p, f, keyname, ", ImplicitAssertion::from(\"a\")" if ia else "")]
    if layer == "generic":
        if op == "produce":
            return ["let _ = GenericBuilder::<%s, %s>::default().%s(&%s);" % (v, p, "try_encrypt" if p == "Local" else "try_sign", keyname)]
        return ["let _ = GenericParser::<%s, %s>::default().parse(\"t\", &%s);" % (v, p, keyname)]
    if op == "produce":
        return ["let _ = PasetoBuilder::<%s, %s>::default().build(&%s);" % (v, p, keyname)]
    return ["let _ = PasetoParser::<%s, %s>::default().parse(\"t\", &%s);" % (v, p, keyname)]


def programs(tier):
    """(name, kind 'neg'|'pos', group, body lines)"""
    out = []

    def add(name, kind, group, lines):
        out.append((re.sub(r"[^A-Za-z0-9_]", "_", name), kind, group, lines))
    layers = ["core", "generic", "prelude"]
    for layer in layers:
        for X in PROTOS:
            for op in ("produce", "consume"):
                role = "priv" if op == "produce" else "pub"
                # positive twin
                lines = key_setup(X[0], X[1], role)
                if layer == "core" and op == "produce" and X[1] == "Local":
                    lines += nonce_setup(X[0])
                add("pos_%s_%s_%s%s" % (layer, op, X[0], X[1]), "pos", "matching key", lines + op_lines(layer, op, X))
                for Y in PROTOS:
                    if Y == X:
                        continue
                    if tier != "thorough" and layer != "core" and Y[0] != X[0] and Y[1] != X[1]:
                        # quick tier: upper layers get the pairs that share a version or a purpose (all pairs for core)
                        continue
                    lines = key_setup(Y[0], Y[1], role)
                    if layer == "core" and op == "produce" and X[1] == "Local":
                        lines += nonce_setup(X[0])
                    add("neg_%s_%s_%s%s_key_%s%s" % (layer, op, X[0], X[1], Y[0], Y[1]), "neg", "key of another protocol", lines + op_lines(layer, op, X))
    # nonce of another version
    for X in VERS:
        for Y in VERS:
            if X == Y:
                continue
            lines = key_setup(X, "Local", "sym") + nonce_setup(Y)
            add("neg_core_nonce_%s_with_%s" % (X, Y), "neg", "nonce of another version", lines + op_lines("core", "produce", (X, "Local")))
    # wrong-purpose operations
    for v in VERS:
        add("neg_core_encrypt_on_public_%s" % v, "neg", "wrong-purpose operation", key_setup(v, "Local", "sym") + nonce_setup(v) + ["let _ = Paseto::<%s, Public>::builder().try_encrypt(&k, &n);" % v])
        add("neg_core_decrypt_on_public_%s" % v, "neg", "wrong-purpose operation", key_setup(v, "Local", "sym") + ["let _ = Paseto::<%s, Public>::try_decrypt(\"t\", &k, None%s);" % (v, ", None" if v in IA else "")])
        add("neg_core_sign_on_local_%s" % v, "neg", "wrong-purpose operation", key_setup(v, "Public", "priv") + ["let _ = Paseto::<%s, Local>::builder().try_sign(&k);" % v])
        add("neg_core_verify_on_local_%s" % v, "neg", "wrong-purpose operation", key_setup(v, "Public", "pub") + ["let _ = Paseto::<%s, Local>::try_verify(\"t\", &k, None%s);" % (v, ", None" if v in IA else "")])
        add("neg_generic_encrypt_on_public_%s" % v, "neg", "wrong-purpose operation", key_setup(v, "Local", "sym") + ["let _ = GenericBuilder::<%s, Public>::default().try_encrypt(&k);" % v])
        add("neg_generic_sign_on_local_%s" % v, "neg", "wrong-purpose operation", key_setup(v, "Public", "priv") + ["let _ = GenericBuilder::<%s, Local>::default().try_sign(&k);" % v])
    # implicit assertion on v1 / v2
    for v in VERS:
        for p in ("Local", "Public"):
            for ty, ctor in (("Paseto", "Paseto::<%s, %s>::builder()"), ("GenericBuilder", "GenericBuilder::<%s, %s>::default()"), ("GenericParser", "GenericParser::<%s, %s>::default()"),
                             ("PasetoBuilder", "PasetoBuilder::<%s, %s>::default()"), ("PasetoParser", "PasetoParser::<%s, %s>::default()")):
                kind = "pos" if v in IA else "neg"
                add("%s_assertion_%s_%s%s" % (kind, ty, v, p), kind, "implicit assertion on v1/v2" if kind == "neg" else "implicit assertion on v3/v4",
                    ["let mut x = %s;" % (ctor % (v, p)), "let _ = x.set_implicit_assertion(ImplicitAssertion::from(\"a\"));"])
    # key construction
    for v in VERS:
        add("neg_symkey_public_%s" % v, "neg", "symmetric key with public purpose", ["let _ = PasetoSymmetricKey::<%s, Public>::from(Key::<32>::from([0u8; 32]));" % v])
        add("pos_symkey_local_%s" % v, "pos", "symmetric key", ["let _ = PasetoSymmetricKey::<%s, Local>::from(Key::<32>::from([0u8; 32]));" % v])
        for n in (16, 24, 31, 33, 48, 64):
            add("neg_symkey_local_%s_from_%d" % (v, n), "neg", "symmetric key from key material of the wrong length", ["let _ = PasetoSymmetricKey::<%s, Local>::from(Key::<%d>::from([0u8; %d]));" % (v, n, n)])
    priv_len = {"V2": 64, "V4": 64, "V3": 48}
    pub_len = {"V2": 32, "V4": 32, "V3": 49}
    for v in ("V2", "V3", "V4"):
        for n in (16, 24, 32, 48, 49, 64, 65):
            kind = "pos" if n == priv_len[v] else "neg"
            add("%s_privkey_%s_from_%d" % (kind, v, n), kind, "asymmetric private key from fixed-size material", ["let m = Key::<%d>::from([0u8; %d]);" % (n, n), "let _ = PasetoAsymmetricPrivateKey::<%s, Public>::from(&m);" % v])
            kind = "pos" if n == pub_len[v] else "neg"
            ctor = "try_from" if v == "V3" else "from"
            add("%s_pubkey_%s_from_%d" % (kind, v, n), kind, "asymmetric public key from fixed-size material", ["let m = Key::<%d>::from([2u8; %d]);" % (n, n), "let _ = PasetoAsymmetricPublicKey::<%s, Public>::%s(&m);" % (v, ctor)])
        add("neg_privkey_%s_local" % v, "neg", "asymmetric key with local purpose", ["let m = Key::<%d>::from([0u8; %d]);" % (priv_len[v], priv_len[v]), "let _ = PasetoAsymmetricPrivateKey::<%s, Local>::from(&m);" % v])
        add("neg_pubkey_%s_local" % v, "neg", "asymmetric key with local purpose", ["let m = Key::<%d>::from([0u8; %d]);" % (pub_len[v], pub_len[v]), "let _ = PasetoAsymmetricPublicKey::<%s, Local>::%s(&m);" % (v, "try_from" if v == "V3" else "from")])
    add("neg_privkey_V1_from_key64", "neg", "asymmetric private key from fixed-size material", ["let m = Key::<64>::from([0u8; 64]);", "let _ = PasetoAsymmetricPrivateKey::<V1, Public>::from(&m);"])
    add("neg_pubkey_V1_from_key32", "neg", "asymmetric public key from fixed-size material", ["let m = Key::<32>::from([0u8; 32]);", "let _ = PasetoAsymmetricPublicKey::<V1, Public>::from(&m);"])
    for v in VERS:
        ok_n = (24, 32) if v == "V2" else (32,)
        for n in (16, 24, 32, 48):
            kind = "pos" if n in ok_n else "neg"
            add("%s_nonce_%s_from_%d" % (kind, v, n), kind, "nonce from key material", ["let m = Key::<%d>::from([0u8; %d]);" % (n, n), "let _ = PasetoNonce::<%s, Local>::from(&m);" % v])
    return out


def render(progs, kind):
    lines = ["// generated by /verif/rules/props/c19.py", "#![allow(unused)]", "use rusty_paseto::prelude::*;", "use std::convert::TryFrom;", ""]
    ranges = {}
    for name, k, group, body in progs:
        if k != kind:
            continue
        start = len(lines) + 1
        lines.append("pub fn %s() {" % name)
        for b in body:
            lines.append("    " + b)
        lines.append("}")
        ranges[name] = (start, len(lines))
        lines.append("")
    return "\n".join(lines) + "\n", ranges


def run_unit(work, repo, name, src, protocols=None):
    d = os.path.join(work, name)
    os.makedirs(os.path.join(d, "src"), exist_ok=True)
    toml = "[package]\nname = \"pv_c19_%s\"\nversion = \"0.0.0\"\nedition = \"2021\"\n\n[workspace]\n\n[dependencies]\nrusty_paseto = { path = \"%s\", default-features = false, features = [%s] }\n" % (name, repo, ", ".join('"%s"' % f for f in ["batteries_included"] + list(protocols or F.PROTOCOLS)))
    from .c20 import _write_if_changed
    _write_if_changed(os.path.join(d, "Cargo.toml"), toml)
    _write_if_changed(os.path.join(d, "src", "lib.rs"), src)
    lock = os.path.join(repo, "Cargo.lock")
    if os.path.exists(lock):
        shutil.copyfile(lock, os.path.join(d, "Cargo.lock"))
    e = dict(os.environ)
    e["CARGO_NET_OFFLINE"] = "true"
    e["CARGO_TARGET_DIR"] = os.path.join(work, "target" if protocols is None else "target_" + "_".join(protocols))
    e.pop("RUSTC_WORKSPACE_WRAPPER", None)
    e.pop("RUSTFLAGS", None)
    r = subprocess.run(["cargo", "check", "--offline", "--lib", "--message-format=json"], cwd=d, env=e, capture_output=True, text=True)
    diags = []
    lib_broken = None
    for line in r.stdout.splitlines():
        try:
            m = json.loads(line)
        except ValueError:
            continue
        if m.get("reason") != "compiler-message":
            continue
        msg = m["message"]
        if msg.get("level") != "error":
            continue
        tgt = m.get("target", {}).get("name", "")
        spans = [s for s in msg.get("spans", []) if s.get("is_primary")]
        code = (msg.get("code") or {}).get("code")
        if not tgt.startswith("pv_c19"):
            lib_broken = msg.get("message")
            continue
        for s in spans or [{}]:
            diags.append({"code": code, "line": s.get("line_start"), "file": s.get("file_name"), "message": msg.get("message", "")[:200]})
    return r.returncode, diags, lib_broken, r.stderr


def matrix(res, tier, repo):
    progs = programs(tier)
    work = os.path.join(F.WORK, "c19" + F.repo_suffix(repo))
    os.makedirs(work, exist_ok=True)
    negs = [p for p in progs if p[1] == "neg"]
    poss = [p for p in progs if p[1] == "pos"]
    nsrc, nranges = render(progs, "neg")
    psrc, pranges = render(progs, "pos")
    rc_p, dp, broken, err_p = run_unit(work, repo, "pos", psrc)
    if broken:
        res.oblige(False)
        res.violate("C19.R1", "rusty_paseto (all features)", "library does not type-check", "the library itself does not build with all features: %s" % broken[:200])
        return len(progs)
    rc_n, dn, broken, err_n = run_unit(work, repo, "neg", nsrc)

    def fn_of(line, ranges):
        for n, (a, b) in ranges.items():
            if line is not None and a <= line <= b:
                return n
        return None
    # positives: no error at all
    bad_pos = {}
    for d in dp:
        bad_pos.setdefault(fn_of(d["line"], pranges) or "(outside)", []).append(d)
    for name, k, group, body in poss:
        ok = name not in bad_pos and rc_p == 0
        if name not in bad_pos and rc_p != 0 and not bad_pos:
            ok = False
        res.oblige(name not in bad_pos)
        if name not in bad_pos:
            res.inst("C19.R1", "compiles: %s" % name)
        else:
            d = bad_pos[name][0]
            res.violate("C19.R1", "program " + name, "matching program rejected (%s)" % d["code"], "a program with matching types must compile (%s): %s  |  %s" % (group, " ".join(body)[:240], d["message"]), file="(generated)", line=None)
    if "(outside)" in bad_pos or (rc_p != 0 and not dp):
        res.violate("C19.R1", "(positive unit)", "unit does not compile", "the positive unit failed to compile outside the generated functions: %s" % ((bad_pos.get("(outside)") or [{"message": err_p[-300:]}])[0]["message"]))
    # the matching programs of each protocol also compile when that protocol is the only one enabled (a conversion or method gated on a
    # sibling protocol's feature is missing exactly there)
    from concurrent.futures import ThreadPoolExecutor

    def single(proto):
        tag = proto[:2].upper() + proto[3:].capitalize()          # v2_public -> V2Public
        mine = [p for p in poss if p[0].endswith("_" + tag) or ("_%s_" % tag) in p[0]]
        src1, rng1 = render(mine, "pos")
        rc1, d1, broken1, err1 = run_unit(work, repo, "pos_" + proto, src1, protocols=[proto])
        return proto, mine, rng1, rc1, d1, broken1, err1
    with ThreadPoolExecutor(max_workers=8) as ex:
        singles = list(ex.map(single, F.PROTOCOLS))
    for proto, mine, rng1, rc1, d1, broken1, err1 in singles:
        if not mine:
            continue
        ok1 = rc1 == 0 and not d1 and not broken1
        res.oblige(ok1)
        if ok1:
            res.inst("C19.R1", "compiles with %s alone: %d matching programs" % (proto, len(mine)))
        else:
            d0 = (d1 or [{"message": broken1 or err1[-300:], "line": None, "code": None}])[0]
            fn = fn_of(d0.get("line"), rng1) or "(unit)"
            res.violate("C19.R1", "program %s [features %s]" % (fn, proto), "matching program rejected when only %s is enabled (%s)" % (proto, d0.get("code")),
                        "a program with matching types must compile in the configuration that enables just its protocol: %s" % str(d0.get("message"))[:300], file="(generated)")
    # negatives: at least one error with an expected code inside the function
    by_fn = {}
    for d in dn:
        by_fn.setdefault(fn_of(d["line"], nranges) or "(outside)", []).append(d)
    for name, k, group, body in negs:
        ds = by_fn.get(name, [])
        codes = set(d["code"] for d in ds)
        ok = bool(codes & GOOD)
        res.oblige(ok)
        if ok:
            res.inst("C19.R1", "rejected (%s): %s" % ("/".join(sorted(c for c in codes if c)), name))
        elif not ds:
            res.violate("C19.R1", "program " + name, "mixing program type-checks", "a program that must not compile is accepted by the type checker (%s): %s" % (group, " ".join(body)[:300]), file="(generated)")
        else:
            res.violate("C19.R1", "program " + name, "rejected for another reason (%s)" % "/".join(sorted(str(c) for c in codes)), "expected a type / trait-bound / missing-method error (%s): %s  |  %s" % (group, " ".join(body)[:200], ds[0]["message"]), file="(generated)")
    if "(outside)" in by_fn:
        res.violate("C19.R1", "(negative unit)", "error outside the generated functions", by_fn["(outside)"][0]["message"])
    res.extra["programs"] = len(progs)
    res.extra["negative_programs"] = len(negs)
    res.extra["positive_programs"] = len(poss)
    res.samples = [{"program": n, "kind": k, "group": g, "body": b} for n, k, g, b in progs[:3] + [p for p in progs if p[1] == "neg"][:3]]
    return len(progs)


# ------------------------------------------------------------------ impl-header audit
KEY_TYPES = ["key::paseto_symmetric_key::PasetoSymmetricKey", "key::paseto_asymmetric_private_key::PasetoAsymmetricPrivateKey", "key::paseto_asymmetric_public_key::PasetoAsymmetricPublicKey", "key::paseto_nonce::PasetoNonce"]
C = "crate::core::"
EXPECTED_IMPLS = {
    # (self type, trait ref) -> predicates beyond Sized
    (C + "key::paseto_symmetric_key::PasetoSymmetricKey<Version, crate::core::purpose::local::Local>", "core::convert::From<crate::core::key::keys::Key<32>>"): [],
    (C + "key::paseto_symmetric_key::PasetoSymmetricKey<Version, Purpose>", "core::convert::AsRef<[u8]>"): [],
    (C + "key::paseto_asymmetric_private_key::PasetoAsymmetricPrivateKey<'a, Version, crate::core::purpose::public::Public>", "core::convert::From<&'a [u8]>"): ["Version: crate::core::traits::V2orV4"],
    (C + "key::paseto_asymmetric_private_key::PasetoAsymmetricPrivateKey<'a, Version, Purpose>", "core::convert::AsRef<[u8]>"): [],
    (C + "key::paseto_asymmetric_private_key::PasetoAsymmetricPrivateKey<'a, crate::core::version::v1::V1, crate::core::purpose::public::Public>", "core::convert::From<&'a [u8]>"): [],
    (C + "key::paseto_asymmetric_private_key::PasetoAsymmetricPrivateKey<'a, Version, crate::core::purpose::public::Public>", "core::convert::From<&'a crate::core::key::keys::Key<64>>"): ["Version: crate::core::traits::V2orV4"],
    (C + "key::paseto_asymmetric_private_key::PasetoAsymmetricPrivateKey<'a, crate::core::version::v3::V3, crate::core::purpose::public::Public>", "core::convert::From<&'a crate::core::key::keys::Key<48>>"): [],
    (C + "key::paseto_asymmetric_public_key::PasetoAsymmetricPublicKey<'a, Version, Purpose>", "core::convert::AsRef<[u8]>"): [],
    (C + "key::paseto_asymmetric_public_key::PasetoAsymmetricPublicKey<'a, crate::core::version::v1::V1, crate::core::purpose::public::Public>", "core::convert::From<&'a [u8]>"): [],
    (C + "key::paseto_asymmetric_public_key::PasetoAsymmetricPublicKey<'a, crate::core::version::v3::V3, crate::core::purpose::public::Public>", "core::convert::TryFrom<&'a crate::core::key::keys::Key<49>>"): [],
    (C + "key::paseto_asymmetric_public_key::PasetoAsymmetricPublicKey<'a, Version, crate::core::purpose::public::Public>", "core::convert::From<&'a crate::core::key::keys::Key<32>>"): ["Version: crate::core::traits::V2orV4"],
    (C + "key::paseto_nonce::PasetoNonce<'a, Version, Purpose>", "core::ops::deref::Deref"): [],
    (C + "key::paseto_nonce::PasetoNonce<'a, Version, Purpose>", "core::convert::AsRef<[u8]>"): [],
    (C + "key::paseto_nonce::PasetoNonce<'a, crate::core::version::v1::V1, crate::core::purpose::local::Local>", "core::convert::From<&'a crate::core::key::keys::Key<32>>"): [],
    (C + "key::paseto_nonce::PasetoNonce<'a, crate::core::version::v2::V2, crate::core::purpose::local::Local>", "core::convert::From<&'a crate::core::key::keys::Key<24>>"): [],
    (C + "key::paseto_nonce::PasetoNonce<'a, crate::core::version::v2::V2, crate::core::purpose::local::Local>", "core::convert::From<&'a crate::core::key::keys::Key<32>>"): [],
    (C + "key::paseto_nonce::PasetoNonce<'a, crate::core::version::v3::V3, crate::core::purpose::local::Local>", "core::convert::From<&'a crate::core::key::keys::Key<32>>"): [],
    (C + "key::paseto_nonce::PasetoNonce<'a, crate::core::version::v4::V4, crate::core::purpose::local::Local>", "core::convert::From<&'a crate::core::key::keys::Key<32>>"): [],
    (C + "key::paseto_nonce::PasetoNonce<'a, crate::core::version::v2::V2, crate::core::purpose::public::Public>", "core::convert::From<&'a T>"): ["T: core::convert::Into<&'a [u8]>", "&'a [u8]: core::convert::From<&'a T>"],
}
MARKERS = {"crate::core::traits::V2orV4": {"V2", "V4"}, "crate::core::traits::V1orV3": {"V1", "V3"}, "crate::core::traits::ImplicitAssertionCapable": {"V3", "V4"}}


def audit(res, facts, entries):
    # (a) no field of the key / nonce structs is visible outside the crate
    for kt in KEY_TYPES:
        adt = facts.adts.get(C + kt)
        if adt is None:
            res.oblige(False)
            res.violate("C19.R2", kt, "key type missing", "struct not found")
            continue
        pub = [f["name"] for f in adt["variants"][0]["fields"] if f["vis"] == "pub"]
        res.oblige(not pub)
        if not pub:
            res.inst("C19.R2", "%s: no public field" % kt.split("::")[-1])
        else:
            res.violate("C19.R2", C + kt, "public field " + ",".join(pub), "a key / nonce type with a public field can be built for any (version, purpose) without the typed constructors", file=facts.rel(adt["file"]), line=adt["line"])
    # (a') the state of the builder / parser types is set through typed methods only: a public field lets a program put a value where its
    # setter is not offered for that (version, purpose) - e.g. an implicit assertion on a v1 / v2 core builder, whose setter exists only
    # under ImplicitAssertionCapable - and that program type-checks
    for path in ("crate::core::paseto::Paseto", "crate::generic::builders::generic_builder::GenericBuilder", "crate::generic::parsers::generic_parser::GenericParser",
                 "crate::prelude::paseto_builder::PasetoBuilder", "crate::prelude::paseto_parser::PasetoParser"):
        adt = facts.adts.get(path)
        if adt is None:
            res.oblige(False)
            res.violate("C19.R2", path, "type missing", "struct not found")
            continue
        pub = [f["name"] for f in adt["variants"][0]["fields"] if f["vis"] == "pub"]
        res.oblige(not pub)
        if not pub:
            res.inst("C19.R2", "%s: no public field (state only through the typed setters)" % path.split("::")[-1])
        else:
            res.violate("C19.R2", path, "public field " + ",".join(pub), "a public field of a builder / parser type can be assigned for any (version, purpose): the bound on its setter (e.g. ImplicitAssertionCapable) no longer rejects the mixing program",
                        file=facts.rel(adt["file"]), line=adt["line"])
    # (b) impls on the key types = frozen table
    seen = set()
    for i in facts.impls:
        st = i["self_ty"]
        if not any(st.startswith(C + kt + "<") for kt in KEY_TYPES):
            continue
        tr = i.get("trait_ref")
        if tr is None:
            # inherent impl: must not contain constructors
            # only functions a client can call matter (a private helper cannot be used to build a key from outside)
            fns = [it for it in i["items"] if (it.get("kind", "").startswith("Fn") or "sig" in it) and it.get("vis") == "pub"]
            res.oblige(not fns)
            if fns:
                res.violate("C19.R2", st, "inherent fn " + fns[0]["name"], "unexpected inherent function on a key type (not in the audited table)", file=facts.rel(i["file"]), line=i["line"])
            continue
        if re.search(r"core::(clone::Clone|fmt::Debug|marker::|default::Default|cmp::)|zeroize", tr):
            # a derived Default for a key type would allow e.g. PasetoSymmetricKey::<V, Public>::default()
            if "default::Default" in tr:
                res.oblige(False)
                res.violate("C19.R2", st, "Default impl on a key type", "a Default impl constructs the key type for any (version, purpose)", file=facts.rel(i["file"]), line=i["line"])
            continue
        preds = sorted(p for p in i["predicates"] if not p.endswith(": core::marker::Sized"))
        key = (st, tr)
        seen.add(key)
        want = EXPECTED_IMPLS.get(key)
        ok = want is not None and sorted(want) == preds
        res.oblige(ok)
        if ok:
            res.inst("C19.R2", "impl %s for %s %s" % (M.short(tr), M.short(st), ("where " + ", ".join(M.short(p) for p in preds)) if preds else ""))
        elif want is None:
            res.violate("C19.R2", st, "impl " + tr, "an impl header on a key / nonce type that is not in the audited table (a new way to obtain or convert a key): impl %s for %s where %s" % (tr, st, preds), file=facts.rel(i["file"]), line=i["line"])
        else:
            res.violate("C19.R2", st, "impl " + tr + " bounds", "impl bounds differ from the audited table: found %s, expected %s" % (preds, sorted(want)), file=facts.rel(i["file"]), line=i["line"])
    for key in EXPECTED_IMPLS:
        if key not in seen:
            res.oblige(False)
            res.violate("C19.R2", key[0], "impl " + key[1] + " missing", "an audited impl header disappeared or changed its self type (the matching program may no longer compile)")
    # (c) marker traits
    have = {}
    for i in facts.impls:
        t = i.get("trait")
        if t in MARKERS:
            have.setdefault(t, set()).add(i["self_ty"].split("::")[-1])
    for t, want in MARKERS.items():
        ok = have.get(t, set()) == want
        res.oblige(ok)
        if ok:
            res.inst("C19.R2", "%s implemented exactly for %s" % (t.split("::")[-1], sorted(want)))
        else:
            res.violate("C19.R2", t, "marker trait coverage", "%s must be implemented exactly for %s; found %s" % (t.split("::")[-1], sorted(want), sorted(have.get(t, set()))))
    # (d) entry points: key / nonce parameters carry the impl's own concrete (V, P)
    for e in entries:
        sig = e.body.get("sig", "")
        params = re.findall(r"(PasetoSymmetricKey|PasetoAsymmetricPrivateKey|PasetoAsymmetricPublicKey|PasetoNonce)<((?:[^<>]|<[^<>]*>)*)>", sig)
        ok = bool(params)
        why = "no key parameter in signature %s" % sig[:120]
        for ty, args in params:
            vp = S.vp_of(args + ">")
            if vp != e.vp:
                ok = False
                why = "%s parameter is typed %s<%s>, not with this entry point's (%s, %s)" % (ty, ty, M.short(args), e.vp[0], e.vp[1])
            if ty == "PasetoSymmetricKey" and e.vp[1] != "Local" or ty.startswith("PasetoAsymmetric") and e.vp[1] != "Public":
                ok = False
                why = "%s used by a %s entry point" % (ty, e.vp[1])
            if ty == "PasetoAsymmetricPrivateKey" and e.role != "producer" or ty == "PasetoAsymmetricPublicKey" and e.role != "consumer":
                ok = False
                why = "%s used by a %s" % (ty, e.role)
        gen = [g["name"] for g in e.body.get("generics", []) if g["kind"] == "type" and not g["name"].startswith("impl ")]
        if gen:
            ok = False
            why = "entry point is generic over %s" % gen
        res.oblige(ok)
        if ok:
            res.inst("C19.R2", "%s: key parameters typed with (%s, %s)" % (e.label, e.vp[0], e.vp[1]))
        else:
            v = M.view(facts, e.body)
            res.violate("C19.R2", e.id, "entry point key typing", why, file=v.file(), line=e.body["line"])
    # encrypt / decrypt exist only for Local, sign / verify only for Public; one entry point of each kind per protocol
    names = {"core": {"Local": {"try_encrypt", "try_decrypt"}, "Public": {"try_sign", "try_verify"}}, "generic": {"Local": {"try_encrypt", "parse"}, "Public": {"try_sign", "parse"}}}
    for e in entries:
        if e.layer in names:
            ok = e.body["name"] in names[e.layer][e.vp[1]]
            res.oblige(ok)
            if not ok:
                res.violate("C19.R2", e.id, "operation on the wrong purpose", "%s exists on a %s type" % (e.body["name"], e.vp[1]), file=M.view(facts, e.body).file(), line=e.body["line"])
    # (e) set_implicit_assertion only under ImplicitAssertionCapable
    n = 0
    for b in facts.bodies.values():
        if b["kind"] == "AssocFn" and b.get("name") in ("set_implicit_assertion", "get_implicit_assertion") and b.get("name") == "set_implicit_assertion":
            preds = " ".join(b.get("predicates", [])) + " " + " ".join(b.get("impl_predicates", []))
            ok = "ImplicitAssertionCapable" in preds
            n += 1
            res.oblige(ok)
            if ok:
                res.inst("C19.R2", "%s bounded by ImplicitAssertionCapable" % M.short(b["id"]))
            else:
                res.violate("C19.R2", b["id"], "set_implicit_assertion without the V3/V4 bound", "set_implicit_assertion must live in an impl bounded by Version: ImplicitAssertionCapable", file=M.view(facts, b).file(), line=b["line"])
    if n < 5:
        res.violate("C19.R2", "set_implicit_assertion", "anchor missing", "expected 5 set_implicit_assertion methods, found %d" % n)


def run(tier):
    res = Result("C19", LEVEL)
    res.trusted = ["the Rust type checker (rustc, stable toolchain of the repository)", "coherence: the impls listed in the driver's facts are all impls of the crate's key types"]
    res.assumptions = ["generated programs use the public API exactly as an external crate would (path dependency on the working tree, all features)"]
    facts = F.load("all")
    entries = S.entry_points(facts)
    n = matrix(res, tier, F.REPO)
    audit(res, facts, entries)
    res.floor("C19.R1", 300 if tier != "thorough" else 500)
    res.floor("C19.R2", 4 + 19 + 3 + 48 + 5)
    res.explanation = ("type checker as oracle: %d generated single-function programs (%d mixing programs that must be rejected with E0308/E0277/E0599 inside the function, %d matching twins that must type-check) compiled against the working tree "
                       "with all features; plus a closed-world audit of every impl header on the four key / nonce types, the marker traits and the typing of the 48 entry points' key parameters") % (n, res.extra.get("negative_programs", 0), res.extra.get("positive_programs", 0))
    res.checker_cmd = "cargo check --offline --lib --message-format=json (generated units pos / neg)"
    res.extra["exhaustive"] = tier == "thorough"
    return res
