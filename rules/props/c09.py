"""C09 Untrusted token text can never crash the caller.

Abstract interpretation (rules/absint.py) of the 24 consumer entry points, the two default validators and
Key::<N>::try_from(&str) over symbolic inputs: token text of arbitrary content and length, decoded payload of
arbitrary length L, arbitrary segment count.  Every panic-capable site met on any path - MIR Assert terminators
(overflow, bounds), slice / Vec / HashMap indexing, split_at, copy_from_slice, GenericArray::from_slice,
unwrap / expect, assert_eq!, explicit panics - is an obligation that must be discharged from the interval /
equality facts collected from the guards dominating it.  An external callee that is neither modelled nor in the
SAFE table is itself a finding.  Panics inside dependencies, allocation failure and stack depth are not decided.
"""
import re

from .. import absint as A
from .. import facts as F
from .. import mir as M
from .. import models as MD
from .. import skeleton as S
from ..harness import Result

LEVEL = "proof"

PUBKEY_LEN = {"V1": None, "V2": 32, "V3": 49, "V4": 32}


def opt_sym(name, carrier):
    """an `impl Into<Option<Carrier>>` argument: None or Some(carrier(arbitrary string))"""
    def mk(st, sym, variant):
        if variant == "None":
            return A.none()
        return A.some(A.Struct(carrier, None, {"0": A.Seq("%s.str" % name, A.Aff.sym("len(%s)" % name), kind="str")}))
    return A.Sym(name, attrs={"adt": "core::option::Option", "make_variant": mk})


def entry_args(st, e):
    """symbolic arguments for a consumer entry point"""
    v = M.view(F.load("all"), e.body)
    args = []
    for i in range(1, v.nargs + 1):
        ty = v.local_ty(i)
        if ty == "&str":
            args.append(A.Seq("token", A.Aff.sym("len(token)"), kind="str"))
        elif "PasetoSymmetricKey<" in ty:
            key = A.Struct("crate::core::key::paseto_symmetric_key::PasetoSymmetricKey", None,
                           {"version": A.UNIT, "purpose": A.UNIT, "key": A.Struct("crate::core::key::keys::Key", None, {"0": A.Seq("user_key", A.Aff(32), kind="array")})})
            args.append(A.Ptr(st.new_cell(key)))
        elif "PasetoAsymmetricPublicKey<" in ty:
            n = PUBKEY_LEN[e.vp[0]]
            kb = A.Seq("public_key", A.Aff(n) if n is not None else A.Aff.sym("len(public_key)"), kind="bytes")
            key = A.Struct("crate::core::key::paseto_asymmetric_public_key::PasetoAsymmetricPublicKey", None, {"version": A.UNIT, "purpose": A.UNIT, "key": kb})
            args.append(A.Ptr(st.new_cell(key)))
        elif "Footer<" in ty and "Into<Option<" in ty:
            args.append(opt_sym("footer", "crate::core::footer::Footer"))
        elif "ImplicitAssertion<" in ty and "Into<Option<" in ty:
            args.append(opt_sym("assertion", "crate::core::implicit_assertion::ImplicitAssertion"))
        elif "GenericParser<" in ty:
            p = A.Struct("crate::generic::parsers::generic_parser::GenericParser", None, {
                "version": A.UNIT, "purpose": A.UNIT, "claims": A.Sym("self.claims"), "claim_validators": A.Sym("self.claim_validators"),
                "footer": A.Struct("crate::core::footer::Footer", None, {"0": A.Seq("self.footer", A.Aff.sym("len(self.footer)"), kind="str")}),
                "implicit_assertion": A.Struct("crate::core::implicit_assertion::ImplicitAssertion", None, {"0": A.Seq("self.assertion", A.Aff.sym("len(self.assertion)"), kind="str")})})
            args.append(A.Ptr(st.new_cell(p)))
        elif "PasetoParser<" in ty:
            gp = A.Struct("crate::generic::parsers::generic_parser::GenericParser", None, {
                "version": A.UNIT, "purpose": A.UNIT, "claims": A.Sym("self.claims"), "claim_validators": A.Sym("self.claim_validators"),
                "footer": A.Struct("crate::core::footer::Footer", None, {"0": A.Seq("self.footer", A.Aff.sym("len(self.footer)"), kind="str")}),
                "implicit_assertion": A.Struct("crate::core::implicit_assertion::ImplicitAssertion", None, {"0": A.Seq("self.assertion", A.Aff.sym("len(self.assertion)"), kind="str")})})
            p = A.Struct("crate::prelude::paseto_parser::PasetoParser", None, {"version": A.UNIT, "purpose": A.UNIT, "parser": gp})
            args.append(A.Ptr(st.new_cell(p)))
        else:
            args.append(A.Sym("arg%d" % i))
    return args


def roots(facts):
    out = []
    entries = S.entry_points(facts)
    for e in entries:
        if e.role == "consumer":
            out.append((e.label, e.body, lambda st, e=e: entry_args(st, e), None))
    # default validators (reached through the validator table: analysed as entry points of their own)
    from . import _validators as VL
    vb = VL.validator_bodies(facts)
    if vb:
        for k_, (b, is_clo) in sorted(vb.items()):
            def mk(st, b=b, is_clo=is_clo):
                env = st.new_cell(A.Struct("(closure)", None, {}))
                return ([A.Ptr(env)] if is_clo else []) + [A.Seq("key", A.Aff.sym("len(key)"), kind="str"), A.Ptr(st.new_cell(MD.json_sym("value")))]
            out.append(("default validator for %s" % k_, b, mk, None))
    else:
        for bid, b in sorted(facts.bodies.items()):
            if re.search(r"PasetoParser<'a, Version, Purpose> as core::default::Default>::default::\{closure#\d+\}$", bid):
                def mk(st, b=b):
                    env = st.new_cell(A.Struct("(closure)", None, {}))
                    return [A.Ptr(env), A.Seq("key", A.Aff.sym("len(key)"), kind="str"), A.Ptr(st.new_cell(MD.json_sym("value")))]
                out.append(("default validator " + bid.split("::")[-1], b, mk, None))
    # Key::<N>::try_from(&str)
    bs = S.impl_fns(facts, r"^crate::core::key::keys::Key<KEYSIZE>$", r"^core::convert::TryFrom<&str>$", "try_from")
    for b in bs:
        out.append(("Key::<N>::try_from(&str)", b, lambda st: [A.Seq("hex", A.Aff.sym("len(hex)"), kind="str")], None))
    return out, entries


def interpret(facts, rts, tier):
    """follow every path of the given roots; returns (interpreter with its panic-site inventory, #paths, unmodelled callees, aborted paths, per-entry coverage)"""
    # thorough: one more symbolic iteration of every opaque loop (three expected claims / validators / segments) and a larger path budget
    I = A.Interp(facts, MD.MODELS, max_paths=20000 if tier != "thorough" else 400000, sym_loop_unroll=2 if tier != "thorough" else 3)
    npaths = 0
    unmod = {}
    aborted = []
    covered = []
    for label, body, mk, _ in rts:
        st = A.State()
        args = mk(st)
        outs = I.run(body, args, st)
        npaths += len(outs)
        kinds = {}
        for o in outs:
            kinds[o.kind] = kinds.get(o.kind, 0) + 1
            for u in o.state.unmodelled:
                unmod.setdefault(u, label)
            if o.kind == "abort" and o.value not in ("unreachable",):
                aborted.append((label, o.value, " & ".join(o.state.cond)[:200]))
        covered.append({"entry": label, "paths": len(outs), "returns": kinds.get("return", 0), "panics": kinds.get("panic", 0)})
    return I, npaths, unmod, aborted, covered


def run(tier):
    res = Result("C09", LEVEL)
    res.trusted = ["SAFE table of rules/models.py: the listed dependency functions return Result / values and do not panic on any input (base64 decode, serde_json from_str/to_value, from_utf8, ring hkdf / verify / constant-time compare, "
                   "hmac / blake2 update+finalize, cipher constructors taking &GenericArray, apply_keystream (< 2^32 blocks), AEAD decrypt, ed25519 / p384 parsing and verification, time parse / now)",
                   "Blake2bMac::new_from_slice fails only for keys longer than 64 bytes; HMAC accepts any key length; XChaCha20Poly1305::new_from_slice needs 32 bytes",
                   "slice and Vec lengths are at most isize::MAX (sums of two lengths do not overflow usize)"]
    res.assumptions = ["caller-supplied validators and Serialize impls may panic on their own: not the library's obligation", "tokens are shorter than 2^32 cipher blocks"]
    facts = F.load("all")
    rts, entries = roots(facts)
    I, npaths, unmod, aborted, covered = interpret(facts, rts, tier)
    floor_roots = 24 + 2 + 1
    if len(rts) < floor_roots:
        res.violate("C09.R0", "(entry points)", "entry points missing", "expected %d analysed entry points (24 consumers, 2 default validators, Key::try_from(&str)); found %d" % (floor_roots, len(rts)))
    # sites
    nsites = 0
    for site, e in sorted(I.sites.items(), key=lambda kv: str(kv[0])):
        kind, fn, what, ln, file = site
        nsites += 1
        okk = not e["fail"]
        res.oblige(okk)
        desc = "%s %s in %s (line %s): discharged on %d path(s)" % (kind, what, M.short(fn)[-70:], ln, e["ok"])
        if okk:
            res.inst("C09.R1", desc)
        else:
            why, cond = e["fail"][0]
            res.violate("C09.R1", fn, "%s %s" % (kind, what), "panic-capable site not discharged: needs [%s]; reachable e.g. when [%s]" % (why, " & ".join(cond)[-300:]), file=file, line=ln)
    # unknown external callees
    for u, label in sorted(unmod.items()):
        res.oblige(False)
        res.violate("C09.R2", u, "unclassified external callee", "an external function reachable from %s is neither modelled nor in the SAFE table: its panic behaviour is unknown (fail closed)" % label)
    for label, why, cond in aborted[:5]:
        res.oblige(False)
        res.violate("C09.R3", label, "analysis incomplete: " + str(why), "a path could not be followed to its end (%s) when [%s]" % (why, cond))
    res.inst("C09.R2", "%d paths over %d entry points followed to a return or a recorded panic; every external callee modelled or SAFE" % (npaths, len(rts)))
    res.floor("C09.R1", 40)
    res.extra.update({"entry_points": len(rts), "paths": npaths, "panic_sites": nsites, "per_entry": covered})
    res.samples = [{"site": "%s %s" % (k[0], k[2]), "function": M.short(k[1]), "line": k[3], "paths_discharged": v["ok"]} for k, v in list(sorted(I.sites.items(), key=lambda kv: str(kv[0])))[:12]]
    res.explanation = ("path-sensitive abstract interpretation with an affine / interval length domain over the MIR of %d entry points (%d paths): %d panic-capable sites inventoried, each discharged on every path reaching it "
                       "from dominating guards (length checks, segment-count range, contains_key) and type-level lengths; unknown external callees are findings") % (len(rts), npaths, nsites)
    res.checker_cmd = "./check C09"
    return res
