"""Shared runner for the properties decided through protocol skeleton rules (rules/protocol.py, rules/gates.py)."""
from .. import facts as F
from .. import protocol as PR
from .. import gates as G
from .. import mir as M
from ..harness import Result

_cache = {}


def analysis(config="all"):
    if config not in _cache:
        facts = F.load(config)
        _cache[config] = (facts,) + PR.analyse(facts)
    return _cache[config]


def run_rules(prop, level, rules, floors, explanation, trusted, extra=None, not_decided=None):
    res = Result(prop, level)
    res.trusted = trusted
    res.assumptions = ["rustc MIR (mir-opt-level=0) of the all-features configuration is a faithful CFG of the source",
                       "content-preserving std conversions (as_ref, deref, into, to_vec, to_owned ...) are as tabulated in rules/mir.py TRANSPARENT_DEFS"]
    facts, findings, entries, protos = analysis()
    for f in findings:
        if f.rule not in rules:
            continue
        res.oblige(f.ok)
        if f.ok:
            res.inst(f.rule, f.desc)
        else:
            res.violate(f.rule, f.where, f.construct, f.msg, file=f.file, line=f.line)
    if extra:
        extra(res, facts, entries, protos)
    for r, n in floors.items():
        res.floor(r, n)
    res.explanation = explanation
    if not_decided:
        res.extra["not_decided"] = not_decided
    return res


def gate_rule(res, rule, verdict, what, g):
    ok, why = verdict
    res.oblige(ok)
    if ok:
        res.inst(rule, what)
    else:
        res.violate(rule, g.body["id"] if g.body else "Paseto::parse_raw_token", what, why or "gate not established", file=g.v.file() if g.body else None, line=g.body["line"] if g.body else None)
