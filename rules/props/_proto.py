"""Shared runner for the properties decided through protocol skeleton rules (rules/protocol.py, rules/gates.py)."""
from .. import facts as F
from .. import protocol as PR
from .. import gates as G
from .. import mir as M
from ..harness import Result
import re

_cache = {}


def analysis(config="all"):
    if config not in _cache:
        facts = F.load(config)
        _cache[config] = (facts,) + PR.analyse(facts)
    return _cache[config]


TIER = {"tier": "quick"}


# structural rules whose content is decided by the semantic engine (rules/psai_rules.py) whenever that engine could follow every path of
# the 16 core entry points; they are consulted only as the second opinion when it could not
SUPERSEDED = {"C01.R1", "C01.R2", "C01.R3", "C01.R4", "C01.R5", "C01.R8", "C01.R9", "C01.R10", "C02.R1", "C02.R2", "C02.R3", "C02.R4", "C02.R6", "C02.R7", "C02.R9",
              "C04.R1", "C04.R2", "C04.R3", "C04.R4", "C05.R2", "C05.R6", "C06.R1", "C06.R2", "C08.R6", "C07.R2", "C07.R4", "C08.R1", "C08.R3", "C08.R4", "C08.R5", "C10.R3"}
_sem = {}


def semantic(config="all"):
    if config not in _sem:
        from .. import psai_rules
        facts, _f, entries, _p = analysis(config)
        _sem[config] = psai_rules.analyse(facts, entries)
    return _sem[config]


def run_rules(prop, level, rules, floors, explanation, trusted, extra=None, not_decided=None, alias=None, sem_rules=None):
    res = Result(prop, level)
    res.trusted = trusted
    res.assumptions = ["rustc MIR (mir-opt-level=0) of the all-features configuration is a faithful CFG of the source",
                       "content-preserving std conversions (as_ref, deref, into, to_vec, to_owned ...) are as tabulated in rules/mir.py TRANSPARENT_DEFS"]
    facts, findings, entries, protos = analysis()
    alias = alias or {}
    sem_rules = sem_rules or {}
    sem = semantic() if sem_rules else {"findings": [], "undecided": []}
    sem_ok = bool(sem_rules) and not sem["undecided"]
    res.sem_ok = sem_ok
    for f in sem["findings"]:
        if f.rule in sem_rules:
            res.oblige(f.ok)
            if f.ok:
                res.inst(f.rule, f.desc)
            else:
                res.violate(f.rule, f.where, f.construct, f.msg, file=f.file, line=f.line)
    for wid, role, why in sem["undecided"]:
        res.notes.append("semantic engine undecided for %s (%s): %s - structural rules consulted instead" % (M.short(wid)[-60:], role, str(why)[:200]))
    for f in findings:
        if f.rule not in rules and f.rule not in alias:
            continue
        if sem_ok and f.rule in SUPERSEDED:
            continue
        # a rule of a sibling property that is also a necessary condition of this one is reported under this property's own id
        rid = f.rule if f.rule in rules else alias[f.rule]
        res.oblige(f.ok)
        if f.ok:
            res.inst(rid, f.desc)
        else:
            res.violate(rid, f.where, f.construct, f.msg, file=f.file, line=f.line)
    if extra:
        extra(res, facts, entries, protos)
    for r, n in floors.items():
        if sem_ok and r in SUPERSEDED:
            continue
        res.floor(r, n)
    if sem_ok:
        for r, n in sem_rules.items():
            res.floor(r, n)
    if TIER["tier"] == "thorough":
        # the same rules on each singleton configuration and on the default one (cfg-dependent code variants); rules about
        # items that do not exist in a smaller configuration are skipped, floors apply to the all-features run only
        extra_cfgs = ["default"] + F.PROTOCOLS
        n_extra = 0
        for cfg in extra_cfgs:
            try:
                f2, fnd2, ent2, pr2 = analysis(cfg)
            except F.ExtractError as e:
                res.violate(prop + ".R0", "config[%s]" % cfg, "does not type-check", "configuration %s does not type-check: %s" % (cfg, (F.rustc_errors(e.stderr) or ["?"])[0][:200]))
                continue
            sem2 = semantic(cfg) if sem_rules else {"findings": [], "undecided": []}
            ok2 = bool(sem_rules) and not sem2["undecided"]
            for f in sem2["findings"]:
                if f.rule in sem_rules:
                    n_extra += 1
                    res.oblige(f.ok)
                    if not f.ok:
                        res.violate(f.rule, f.where, f.construct, "[configuration %s] %s" % (cfg, f.msg), file=f.file, line=f.line)
            for f in fnd2:
                if f.rule not in rules and f.rule not in alias:
                    continue
                if ok2 and f.rule in SUPERSEDED:
                    continue
                if not f.ok and re.search(r"missing|expected one|expected exactly one|not found|anchor", f.msg + " " + f.construct):
                    continue
                n_extra += 1
                res.oblige(f.ok)
                if not f.ok:
                    res.violate(f.rule if f.rule in rules else alias[f.rule], f.where, f.construct, "[configuration %s] %s" % (cfg, f.msg), file=f.file, line=f.line)
        explanation += "; thorough tier: the same rule set re-evaluated on the default and the 8 singleton feature configurations (%d further rule evaluations)" % n_extra
        res.extra["configurations"] = ["all"] + extra_cfgs
    res.explanation = explanation
    if not_decided:
        res.extra["not_decided"] = not_decided
    return res


def gate_rule(res, rule, verdict, what, g):
    ok, why = verdict
    res.oblige(ok)
    if ok:
        res.inst(rule, what)
    else:
        res.violate(rule, g.body["id"] if g.body else "Paseto::parse_raw_token", what, why or "gate not established", file=g.v.file() if g.body else None, line=g.body["line"] if g.body else None)


def state_rule(res, rule, facts, entries):
    """no state that outlives a call is touched by anything reachable from the token entry points (rules/layers.py process_state)"""
    from .. import layers
    for f in layers.process_state(facts, entries, rule):
        res.oblige(f.ok)
        if f.ok:
            res.inst(f.rule, f.desc)
        else:
            res.violate(f.rule, f.where, f.construct, f.msg, file=f.file, line=f.line)
    res.floor(rule, 1)


def clone_rule(res, rule, facts):
    """a clone of a builder / carrier / key value has the original's fields (rules/layers.py clone_identity)"""
    from .. import layers
    for f in layers.clone_identity(facts, rule):
        res.oblige(f.ok)
        if f.ok:
            res.inst(f.rule, f.desc)
        else:
            res.violate(f.rule, f.where, f.construct, f.msg, file=f.file, line=f.line)
    res.floor(rule, 6)


def refusal_rules(res, rule, facts):
    """parse_raw_token turns a token away only for a stated cause, and decodes the payload segment with URL_SAFE_NO_PAD
    (round-trip side of the textual gates: what the producing side writes is never refused)."""
    g = G.gates(facts)
    gate_rule(res, rule, g.refusal_ok(), "parse_raw_token refuses a token only for its segment count, a footer mismatch, a header mismatch or an undecodable payload segment", g)
    if g.body is not None:
        gate_rule(res, rule, g.path_sensitive()["engine"], "parse_raw_token decodes segment 2 with URL_SAFE_NO_PAD", g)
