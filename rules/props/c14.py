"""C14 Parsed claims equal the claims that were set (structural necessary conditions)."""
import re

from .. import absint as A
from .. import claims as CL
from .. import facts as F
from .. import mir as M
from .. import models as MD
from .. import skeleton as S
from ..harness import Result
from ..mir import T
from . import _fpai

LEVEL = "other"
GB = r"GenericBuilder::<'a, 'b, Version, Purpose>::"
TYPED = [("audience_claim::AudienceClaim", "aud"), ("issuer_claim::IssuerClaim", "iss"), ("subject_claim::SubjectClaim", "sub"), ("token_identifier_claim::TokenIdentifierClaim", "jti"),
         ("expiration_claim::ExpirationClaim", "exp"), ("not_before_claim::NotBeforeClaim", "nbf"), ("issued_at_claim::IssuedAtClaim", "iat")]


def run(tier):
    res = Result("C14", LEVEL)
    res.trusted = ["serde_json: to_value / to_string / from_str round-trip JSON values (numbers, escapes, nesting) - behaviour over run-time values, not decided",
                   "HashMap::insert replaces the value of an existing key (last wins); serde's SerializeMap writes exactly the entries it is given"]
    facts = F.load("all")
    key_table(res, facts)
    serialize_impls(res, facts)
    set_claim(res, facts)
    # the payload on concrete two-claim builders first; the symbolic pipeline rule only when that did not decide the whole of it
    if not payload_concrete(res, facts):
        payload(res, facts)
    wrap(res, facts)
    writers(res, facts)
    # R6: what build_payload_from_claims returns is what the core builder signs / encrypts (the eight generic producers interpreted with
    # the layer below summarised): no rewriting of the finished JSON text on the way
    from .. import layers
    from .. import skeleton as S_
    for eid, (fs, und) in sorted(layers.generic_producers(facts, S_.entry_points(facts)).items()):
        if fs is None:
            res.oblige(False)
            res.violate("C14.R6", eid, "generic producer not decided by the abstract interpreter", str(und)[:300])
            continue
        for f in fs:
            if f.rule != "C14.R6":
                continue
            res.oblige(f.ok)
            if f.ok:
                res.inst("C14.R6", f.desc)
            else:
                res.violate("C14.R6", f.where, f.construct, f.msg, file=f.file, line=f.line)
    for f in CL.analyse(facts):
        if f.rule == "C14.R4":
            res.oblige(f.ok)
            if f.ok:
                res.inst(f.rule, f.desc)
            else:
                res.violate(f.rule, f.where, f.construct, f.msg, file=f.file, line=f.line)
    res.floor("C14.R1", 7 + 8)
    res.floor("C14.R2", 8)
    res.floor("C14.R3", 13)
    res.floor("C14.R4", 1)
    res.floor("C14.R5", 10)
    res.floor("C14.R6", 8)
    res.explanation = ("constant table of the 7 registered claim keys over all 17 constructors; every Serialize impl of a claim writes exactly one map entry (key field, value field); abstract interpretation of GenericBuilder::set_claim over "
                       "{empty key} x JSON variant x {one-entry map of that key}: stored under the claim's key with HashMap::insert, value = the entry's value for a one-entry map of that key, otherwise the serialised value itself; "
                       "build_payload_from_claims maps every stored (key, value) to (key, to_value(value)) without further transformation; wrap_claims / wrap_value hand every entry on (identity on scalars, element-wise on arrays and objects, no filtering adaptor); writers of the claim map; the parser returns the parsed authenticated payload unmodified")
    res.extra["not_decided"] = "JSON value equality through serde_json over arbitrary trees (numbers, escapes, nesting) - run time; covered in part by the existing unit and property tests"
    return res


def ctor_keys(facts, b):
    """the keys a claim constructor (From / TryFrom / Default impl) stores, read off its interpretation with a symbolic text argument:
    (set of keys, number of constructing paths), or None when a path is undecided or the key is not a known text"""
    I = A.Interp(facts, MD.MODELS, max_paths=400)
    args = [A.Seq("value", A.Aff.sym("len(value)"), kind="str")][:b.get("arg_count") or 0]
    if len(args) != (b.get("arg_count") or 0):
        return None
    outs = I.run(b, args)
    keys, n = set(), 0
    for o in outs:
        if o.kind != "return" or o.state.unmodelled or _fpai.undecided(o):
            return None
        r = I.resolve(o.state, o.value)
        if isinstance(r, A.Struct) and r.adt == "core::result::Result":
            if r.variant != "Ok":
                continue
            r = I.resolve(o.state, r.fields.get("0"))
        inner = I.resolve(o.state, r.fields.get("0")) if isinstance(r, A.Struct) else None
        k = MD.deref(I, o.state, inner.fields.get("0")) if isinstance(inner, A.Struct) and "0" in inner.fields else None
        if not (isinstance(k, A.StrV) and isinstance(k.s, str)):
            return None
        keys.add(k.s)
        n += 1
    return (keys, n) if n else None


def key_table(res, facts):
    count = {}
    # the constructors of the typed claims, interpreted: whatever way the key gets there (a literal, a constant of a private trait, a
    # helper), the claim built holds its registered key on every constructing path
    decided = set()
    for ty, key in TYPED:
        for b in [x for nm in ("from", "try_from", "default") for x in S.impl_fns(facts, r"^crate::generic::claims::" + re.escape(ty), r"^core::convert::(Try)?From<|^core::default::Default$", nm)]:
            ck = ctor_keys(facts, b)
            if ck is None:
                continue
            decided.add(b["id"])
            ok = ck[0] == {key}
            res.oblige(ok)
            if ok:
                res.inst("C14.R1", "%s stores key %r (on %d constructing paths)" % (M.short(b["id"])[:90], key, ck[1]))
            else:
                res.violate("C14.R1", b["id"], "claim key", "%s must be constructed under its registered key %r; the constructor stores %s" % (ty.split("::")[-1], key, sorted(ck[0])), file=M.view(facts, b).file(), line=b["line"])
    for bid, b in sorted(facts.bodies.items()):
        v = None
        if bid in decided or (decided and b.get("vis") != "pub" and not (b.get("impl_trait") or "").startswith("core::")):
            continue      # a decided constructor, or a private helper that only acts through the constructors decided above
        for blk in b["blocks"]:
            for st in blk["stmts"]:
                if st["k"] == "assign" and st["rv"]["k"] == "aggregate" and st["rv"]["ak"] == "adt":
                    for ty, key in TYPED:
                        if st["rv"]["adt"].endswith(ty):
                            if " as core::clone::Clone>::clone" in bid:
                                continue
                            v = v or M.view(facts, b)
                            t = M.Normalizer(facts, keep=[]).norm(v.op_term(st["rv"]["fields"][0]))
                            k = M.mk_field(t, "0")
                            ok = k == T("const", key)
                            res.oblige(ok)
                            count[ty] = count.get(ty, 0) + 1
                            if ok:
                                res.inst("C14.R1", "%s stores key %r" % (M.short(bid)[:90], key))
                            else:
                                res.violate("C14.R1", bid, "claim key literal", "%s must be constructed under its registered key %r; found %s" % (ty.split("::")[-1], key, M.show(k)[:60]), file=v.file(), line=st["ln"])
    for ty, key in TYPED:
        bs = S.impl_fns(facts, r"^crate::generic::claims::" + re.escape(ty), r"^crate::generic::claims::traits::PasetoClaim$", "get_key")
        ok = False
        if len(bs) == 1:
            rt = M.Normalizer(facts, keep=[]).norm(M.view(facts, bs[0]).return_term())
            ok = rt == T("field", "0", (T("field", "0", (T("param", 1),)),))
        res.oblige(ok)
        if ok:
            res.inst("C14.R1", "%s::get_key returns the stored key" % ty.split("::")[-1])
        else:
            res.violate("C14.R1", ty, "get_key", "get_key must return the key field (self.0.0)", file=M.view(facts, bs[0]).file() if bs else None, line=bs[0]["line"] if bs else None)
    bs = S.impl_fns(facts, r"^crate::generic::claims::custom_claim::CustomClaim<T>$", r"^crate::generic::claims::traits::PasetoClaim$", "get_key")
    ok = len(bs) == 1 and M.Normalizer(facts, keep=[]).norm(M.view(facts, bs[0]).return_term()) == T("field", "0", (T("field", "0", (T("param", 1),)),))
    res.oblige(ok)
    if ok:
        res.inst("C14.R1", "CustomClaim::get_key returns the stored key")
    else:
        res.violate("C14.R1", "CustomClaim", "get_key", "get_key must return the key field (self.0.0)")


def serialize_impls(res, facts):
    tys = [t for t, _ in TYPED] + ["custom_claim::CustomClaim"]
    for ty in tys:
        bs = S.impl_fns(facts, r"^crate::generic::claims::" + re.escape(ty), r"^serde(_core)?::ser::Serialize$", "serialize")
        if len(bs) != 1:
            res.oblige(False)
            res.violate("C14.R2", ty, "Serialize impl missing", "expected one Serialize impl, found %d" % len(bs))
            continue
        b = bs[0]
        v = M.view(facts, b)
        N = M.Normalizer(facts, keep=[])
        keyf = T("field", "0", (T("field", "0", (T("param", 1),)),))
        valf = T("field", "1", (T("field", "0", (T("param", 1),)),))
        ks = v.find_calls(r"serde(_core)?::ser::SerializeMap::serialize_key$")
        vs = v.find_calls(r"serde(_core)?::ser::SerializeMap::serialize_value$")
        es = v.find_calls(r"serde(_core)?::ser::SerializeMap::serialize_entry$")
        other = v.find_calls(r"serde(_core)?::ser::Serialize(Seq|Struct|Tuple|TupleStruct)::|serde(_core)?::ser::Serializer::serialize_(?!map)")
        ok = False
        why = "calls: %d serialize_key, %d serialize_value, %d serialize_entry" % (len(ks), len(vs), len(es))
        sites = M.try_sites(v)
        oks, _, dele = S.ok_exits(v)
        rets = v.cfg.return_blocks()
        if len(ks) == 1 and len(vs) == 1 and not es and not other:
            kt = N.norm(v.op_term(ks[0][1]["args"][1]))
            vt = N.norm(v.op_term(vs[0][1]["args"][1]))
            ok = kt == keyf and vt == valf
            why = "serialize_key(%s), serialize_value(%s)" % (M.show(kt)[:40], M.show(vt)[:40])
            blocks = [ks[0][0], vs[0][0]]
        elif len(es) == 1 and not ks and not vs and not other:
            kt = N.norm(v.op_term(es[0][1]["args"][1]))
            vt = N.norm(v.op_term(es[0][1]["args"][2]))
            ok = kt == keyf and vt == valf
            blocks = [es[0][0]]
        if ok:
            # on every path to the final `map.end()` result
            ends = v.find_calls(r"serde(_core)?::ser::SerializeMap::end$")
            ok = len(ends) == 1 and all(v.cfg.dominates(bk, ends[0][0]) for bk in blocks)
            why = "the entry is not written on every path"
        res.oblige(ok)
        if ok:
            res.inst("C14.R2", "%s serialises as the one-entry map {key: value}" % ty.split("::")[-1])
        else:
            res.violate("C14.R2", b["id"], "claim serialisation", "each claim must serialise as exactly one map entry (its key field, its value field); %s" % why, file=v.file(), line=b["line"])


def set_claim_concrete(facts, b):
    """GenericBuilder::set_claim interpreted once per shape of the claim's serialised form, given concretely: Null, Bool, Number, String, an
    array, {}, {key: X} (the one-entry map every claim type of the crate serialises to - its value X is what must be stored), {other: X},
    {key: X, other: Y}; and with an empty key.  Afterwards the builder's claim map must hold exactly {key: expected} (nothing for an empty
    key).  Returns [(ok, description / message)] or None when a run is undecided."""
    from .. import models_iter as MI
    V = "serde_json::value::Value"

    def val(variant, payload=None):
        return A.Struct(V, variant, {} if payload is None else {"0": payload})

    def show(I, st, x):
        x = MD.deref(I, st, x)
        if isinstance(x, A.Struct) and x.adt == V:
            return "%s(%s)" % (x.variant, show(I, st, x.fields.get("0"))) if "0" in x.fields else str(x.variant)
        if MI.is_map(x):
            return "{" + ", ".join("%s: %s" % kv for kv in sorted((str(MD.str_key(I, st, e.fields["0"])[1]), show(I, st, e.fields["1"])) for e in MI._entries(x))) + "}"
        if isinstance(x, A.Seq) and x.elems is not None:
            return "[" + ", ".join(show(I, st, e) for e in x.elems) + "]"
        return getattr(x, "name", repr(x))
    om = lambda ents: val("Object", MI.mapv("obj", [(A.StrV(k), A.Sym(n, attrs={"adt": V})) for k, n in ents]))
    cases = [("Null", lambda: val("Null"), "Null"), ("Bool", lambda: val("Bool", A.Sym("B")), "Bool(B)"), ("Number", lambda: val("Number", A.Sym("N")), "Number(N)"),
             ("String", lambda: val("String", A.Sym("S")), "String(S)"), ("array", lambda: val("Array", A.Seq("arr", A.Aff(1), [A.Sym("E")], kind="vec")), "Array([E])"),
             ("empty object", lambda: om([]), "Object({})"), ("one-entry map {key: X}", lambda: om([("K", "X")]), "X"),
             ("one-entry map {other: X}", lambda: om([("other", "X")]), "Object({other: X})"), ("two-entry map {key: X, other: Y}", lambda: om([("K", "X"), ("other", "Y")]), "Object({K: X, other: Y})")]
    out = []
    # (keys with blanks around them, in mixed case, and a blank-only key: a key is stored as it is given - trimmed, folded or dropped
    # keys show here)
    for key in ("K", "", " Kx\t", " "):
        for name, mk, want in (cases if key == "K" else (cases[6:7] if key == "" else cases[3:4])):
            jv = mk()

            def m_json(I_, st_, info, args_, depth, jv=jv):
                return [(st_, "return", A.ok(jv))]
            I = A.Interp(facts, [(re.compile(r"^serde_json::de::(from_slice|from_str)$|^serde_json::value::to_value$"), m_json)] + MD.MODELS)
            I.concrete_maps = True
            st = A.State()
            me_v = A.Struct("crate::generic::builders::generic_builder::GenericBuilder", None, {
                "version": A.UNIT, "purpose": A.UNIT, "claims": MI.mapv("claims", []),
                "footer": A.Sym("self.footer", attrs={"adt": "core::option::Option"}), "implicit_assertion": A.Sym("self.implicit_assertion", attrs={"adt": "core::option::Option"})})
            me = st.new_cell(me_v)
            outs = I.run(b, [A.Ptr(me), A.Sym("value", attrs={"claim_key": key})], st)
            rets = [o for o in outs if o.kind == "return"]
            if not rets or any(o.kind not in ("return", "panic") or o.state.unmodelled or _fpai.undecided(o) for o in outs):
                return None
            for o in rets:
                cur = MD.deref(I, o.state, A.Ptr(me))
                m = MD.deref(I, o.state, cur.fields.get("claims")) if isinstance(cur, A.Struct) else None
                if not MI.is_map(m):
                    return None
                got = dict((str(MD.str_key(I, o.state, e.fields["0"])[1]), show(I, o.state, e.fields["1"])) for e in MI._entries(m))
                exp = {} if key == "" else {key: want}
                lab = "set_claim [%s%s]" % (name, ", empty key" if key == "" else ("" if key == "K" else ", key %r" % key))
                if got == exp:
                    out.append((True, "%s: %s" % (lab, "nothing stored" if key == "" else "stored as %s under the claim's key" % want)))
                else:
                    out.append((False, "%s: the claim map becomes %s, expected %s" % (lab, got, exp)))
    return out


def set_claim(res, facts):
    b = _fpai.find_body(facts, GB + r"set_claim$")
    if b is None:
        res.violate("C14.R3", "GenericBuilder::set_claim", "anchor missing", "not found")
        return
    v = M.view(facts, b)
    conc = set_claim_concrete(facts, b)
    if conc is not None:
        for okk, text in conc:
            res.oblige(okk)
            if okk:
                res.inst("C14.R3", text)
            else:
                res.violate("C14.R3", b["id"], "claim storage (%s)" % text.split(":")[0], text, file=v.file(), line=b["line"])
        return
    I, me, outs = _fpai.run_on_self(facts, b, [A.Sym("value")], stubs=[])
    seen = set()
    for o in outs:
        cond = " & ".join(o.state.cond)
        if o.kind == "panic":
            # serialisation failure of the caller's value: outside the statement (values are serialisable)
            continue
        if o.kind != "return" or _fpai.undecided(o):
            res.oblige(False)
            res.violate("C14.R3", b["id"], "undecided path", "path [%s] could not be decided (unmodelled: %s; notes: %s)" % (cond[:200], o.state.unmodelled, o.state.notes[:2]), file=v.file(), line=b["line"])
            continue
        ins = [e for e in o.state.events if e[0].endswith("HashMap::<K, V, S, A>::insert") or e[0].endswith("::insert")]
        empty_key = any(c.startswith("len(key(value))") and "== 0" in c or c == "(Eq len(key(value)) 0)" for c in o.state.cond) or o.state.bounds.get("len(key(value))") == (0, 0)
        if "does not parse" in cond:
            continue
        jv = None
        for c in o.state.cond:
            m = re.match(r"json\(value\) is (\w+)", c)
            if m:
                jv = m.group(1)
        if empty_key:
            ok = not ins
            desc = "empty key: nothing stored"
            why = "a claim with an empty key must be ignored; inserts: %s" % ins
            seen.add("empty")
        else:
            ok = len(ins) == 1 and ins[0][1][1] == ("sym", "key(value)") and ins[0][1][0].endswith(".claims")
            why = "the claim must be stored once under its own key in self.claims; inserts: %s" % (ins,)
            desc = ""
            if ok:
                stored = ins[0][1][2][1] if len(ins[0][1]) > 2 else ""
                one = any(c == "len(json(value).Object) == 1" or c == "(Eq len(json(value).Object) 1)" for c in o.state.cond) or o.state.bounds.get("len(json(value).Object)") == (1, 1)
                has = o.state.facts.get(("mapcontains", "json(value).Object", ("sym", "key(value)")))
                if jv == "Object" and one and has:
                    ok = "json(value).Object[key(value)]" in stored
                    desc = "one-entry map {key: x}: x stored under key"
                    why = "for a claim serialising as {key: x} the stored value must be x; stored %s" % stored[:120]
                    seen.add("unwrap")
                elif jv == "Object":
                    ok = "Object" in stored and "json(value).Object" in stored and "[key(value)]" not in stored
                    desc = "other object: stored as is"
                    why = "an object that is not the one-entry map of the claim's key must be stored unchanged; stored %s" % stored[:120]
                    seen.add("object")
                else:
                    ok = ("json(value)" in stored or (jv or "") in stored) and "[key(value)]" not in stored
                    desc = "%s value: stored as is" % jv
                    why = "a %s value must be stored unchanged; stored %s" % (jv, stored[:120])
                    seen.add(jv)
        res.oblige(ok)
        if ok:
            res.inst("C14.R3", "set_claim [%s]: %s" % (cond[:100], desc))
        else:
            res.violate("C14.R3", b["id"], "claim storage (%s)" % (desc or "path"), why, file=v.file(), line=b["line"])
    need = {"empty", "unwrap", "object", "Null", "Bool", "Number", "String", "Array"}
    if not need <= seen:
        res.violate("C14.R3", b["id"], "partition not covered", "abstract interpretation must cover %s; covered %s (fail closed)" % (sorted(need), sorted(x for x in seen if x)), file=v.file(), line=b["line"])


def payload(res, facts):
    """payload = to_string(wrap_claims(map)) where map holds, for every stored claim (k, v), exactly (k, to_value(v)) - Null when
    the value cannot be serialised - decided by abstract interpretation (iterator-chain or loop style alike)."""
    b = _fpai.find_body(facts, GB + r"build_payload_from_claims$")
    if b is None:
        res.violate("C14.R3", "GenericBuilder::build_payload_from_claims", "anchor missing", "not found")
        return
    v = M.view(facts, b)
    I, me, outs = _fpai.run_on_self(facts, b, stubs=[r"::wrap_claims$"])
    n_ok = 0
    for o in outs:
        r = I.resolve(o.state, o.value) if o.kind == "return" else None
        if not (isinstance(r, A.Struct) and r.variant == "Ok"):
            continue
        n_ok += 1
        cond = " & ".join(o.state.cond)
        text = MD.deref(I, o.state, r.fields["0"])
        src = text.attrs.get("json_text_of") if isinstance(text, A.Seq) else None
        wrapped = any(e[0].endswith("wrap_claims") for e in o.state.events)
        mappings = []
        problems = []
        if o.state.unmodelled or _fpai.undecided(o):
            problems.append("undecided path (unmodelled %s, notes %s)" % (o.state.unmodelled, o.state.notes[:1]))
        for e in o.state.events:
            if e[0] == "collect_map":
                if not re.fullmatch(r"self\.claims(\.0)*", str(e[1])):      # (`.0`: a private newtype around the map)
                    problems.append("the payload is collected from %s, not from self.claims" % e[1])
                for kd, vd, conds, unm in e[2]:
                    mappings.append((kd, vd, conds))
                    if unm:
                        problems.append("unmodelled call in the per-entry mapping: %s" % (unm,))
        # loop style: inserts of (key_i, value) into the map handed to wrap_claims
        items = sorted(set(m.group(0) for c in o.state.cond for m in [re.search(r"iterator yields an item", c)] if m))
        inserts = [e for e in o.state.events if e[0].endswith("::insert") and isinstance(e[1], list) and len(e[1]) >= 3 and not str(e[1][0]).endswith(".claims")]
        for e in inserts:
            kd = e[1][1][1] if isinstance(e[1][1], tuple) else str(e[1][1])
            vd = e[1][2][1] if isinstance(e[1][2], tuple) else str(e[1][2])
            mappings.append((kd, vd, ()))
        if not mappings and "iterator ends" in cond and not any("iterator yields" in c for c in o.state.cond):
            # zero-entry path of the loop style: nothing to map
            pass
        for kd, vd, conds in mappings:
            key_ok = kd in ("entry.key",) or bool(re.match(r"\*?key\d+@\d+$", kd))
            val_ok = bool(re.search(r"^to_value$|^\$?to_value|Value::Null", vd)) or vd in ("to_value",)
            if not key_ok:
                problems.append("entry stored under %s instead of the claim's key" % kd)
            if not val_ok:
                problems.append("entry value is %s instead of to_value(stored value)" % vd[:80])
        if not wrapped:
            problems.append("wrap_claims is not applied")
        if src is None:
            problems.append("the result is not the JSON text of the claim map")
        ok = not problems
        res.oblige(ok)
        if ok:
            res.inst("C14.R3", "payload [%s] = to_string(wrap_claims({k: to_value(v) for (k, v) in self.claims}))  (%d entry mappings)" % (cond[:60], len(mappings)))
        else:
            res.violate("C14.R3", b["id"], "payload entry transformed at build time", "; ".join(sorted(set(problems)))[:400], file=v.file(), line=b["line"])
    if n_ok == 0:
        res.violate("C14.R3", b["id"], "no successful outcome", "abstract interpretation found no path producing a payload (fail closed)", file=v.file(), line=b["line"])


def payload_concrete(res, facts):
    """C14.R3 on concrete state: build_payload_from_claims interpreted on a builder holding two claims {k1: C1, k2: C2}; serde_json::to_value
    of a claim yields any JSON value (Null included) or fails; the map handed to wrap_claims must hold exactly k1 and k2 on every path, each
    with the serialised value of its own claim (Null only when serialisation failed or the value is null) - nothing dropped, added,
    re-keyed or swapped."""
    from .. import models_iter as MI
    b = _fpai.find_body(facts, GB + r"build_payload_from_claims$")
    if b is None:
        return
    v = M.view(facts, b)

    def m_tv(I, st, info, args, depth):
        x = MD.deref(I, st, args[0])
        c = x.attrs.get("claim") if isinstance(x, A.Sym) else None
        if c is None:
            return None
        s2 = st.clone()
        s2.cond.append("to_value(%s) ok" % c)
        st.cond.append("to_value(%s) fails" % c)
        return [(s2, "return", A.ok(MD.json_sym("tv(%s)" % c))), (st, "return", A.err(A.Sym("serde_json::Error")))]
    def record(I_, st_, pairs):
        ents = {}
        for kx, vx in pairs:
            val = MD.deref(I_, st_, vx)
            if isinstance(val, A.Struct) and val.adt == "serde_json::value::Value":
                d = "Value::" + str(val.variant)
            else:
                d = getattr(val, "name", repr(val))
            ents.setdefault(str(MD.str_key(I_, st_, kx)[1]), []).append(d)
        st_.events.append(("wrap_claims_in", ents))

    def obj(I_, st_, pairs):
        """what wrap_claims returns for these entries: an object with the same keys, each value wrapped"""
        ents = []
        for kx, vx in pairs:
            val = MD.deref(I_, st_, vx)
            d = "Null" if isinstance(val, A.Struct) and val.adt == "serde_json::value::Value" and val.variant == "Null" else getattr(val, "name", "?")
            ents.append((A.StrV(str(MD.str_key(I_, st_, kx)[1])), A.Sym("w(%s)" % d, attrs={"adt": "serde_json::value::Value"})))
        return A.Struct("serde_json::value::Value", "Object", {"0": MI.mapv("wrapped", ents)})

    def jtext(I_, st_, x):
        """the compact JSON text of a value as a list of pieces: an object with known members is written member by member"""
        v_ = MD.deref(I_, st_, x)
        if isinstance(v_, A.Struct) and v_.adt == "serde_json::value::Value" and v_.variant == "Object" and MI.is_map(MD.deref(I_, st_, v_.fields.get("0"))):
            v_ = MD.deref(I_, st_, v_.fields.get("0"))
        if MI.is_map(v_):
            out_ = [("lit", "{")]
            for i_, e_ in enumerate(MI._entries(v_)):
                if i_:
                    out_.append(("lit", ","))
                out_ += jtext(I_, st_, e_.fields["0"]) + [("lit", ":")] + jtext(I_, st_, e_.fields["1"])
            return out_ + [("lit", "}")]
        d_ = MD.describe(I_, st_, x)
        return [("arg", A.Seq("json(%s)" % d_, A.Aff.sym("len(json(%s))" % d_), kind="str"))]

    def m_ts(I_, st_, info, args_, depth):
        ch = jtext(I_, st_, args_[0])
        ln = A.Aff(0)
        for c_ in ch:
            ln = ln.add(A.Aff(len(c_[1])) if c_[0] == "lit" else c_[1].length)
        txt = A.Seq("json_text@%d" % info["ln"], ln, None, ch, kind="str", attrs={"json_text_of": MD.describe(I_, st_, args_[0])})
        s2 = st_.clone()
        st_.cond.append("to_string ok")
        s2.cond.append("to_string fails")
        return [(st_, "return", A.ok(txt)), (s2, "return", A.err(A.Sym("serde_json::Error")))]

    def m_wc(I_, st_, info, args_, depth):
        """wrap_claims summarised: what it is handed - a map, or a lazy stream of (key, value) pairs which is drawn to its end here"""
        wrapped = A.Sym("wrapped", attrs={"adt": "serde_json::value::Value"})
        m = MD.deref(I_, st_, args_[0])
        if MI.is_map(m):
            pairs_ = [(e.fields["0"], e.fields["1"]) for e in MI._entries(m)]
            record(I_, st_, pairs_)
            return [(st_, "return", obj(I_, st_, pairs_))]
        it = MI.as_iter(I_, st_, args_[0])
        if it is None:
            st_.events.append(("wrap_claims_in", None))
            return [(st_, "return", wrapped)]
        out = []
        for s2, kind, acc in MI.drain(I_, st_, it, depth, lambda s, a, item: [(s, "cont", a + [item])], []):
            if kind != "done":
                out.append((s2, kind, acc))
                continue
            pairs = []
            for x in acc:
                t = MD.deref(I_, s2, x)
                if isinstance(t, A.Struct) and {"0", "1"} <= set(t.fields):
                    pairs.append((t.fields["0"], t.fields["1"]))
            record(I_, s2, pairs)
            out.append((s2, "return", obj(I_, s2, pairs)))
        return out
    probs = []
    probs_text = []
    text_undecided = False
    n_text = 0
    n = 0
    # the claims sit under every registered key as well as under custom ones: nothing at build time may depend on the key
    for K1, K2 in (("k1", "k2"), ("exp", "nbf"), ("iat", "jti"), ("iss", "sub"), ("aud", "x-custom")):
        I = A.Interp(facts, [(re.compile(r"^serde_json::value::to_value$"), m_tv), (re.compile(r"::wrap_claims$"), m_wc), (re.compile(r"^serde_json::ser::to_string$"), m_ts)] + MD.MODELS)
        I.concrete_maps = True
        st = A.State()
        me_v = A.Struct("crate::generic::builders::generic_builder::GenericBuilder", None, {
            "version": A.UNIT, "purpose": A.UNIT, "claims": MI.mapv("claims", [(A.StrV(K1), A.Sym("C1", attrs={"claim": "C1"})), (A.StrV(K2), A.Sym("C2", attrs={"claim": "C2"}))]),
            "footer": A.Sym("self.footer", attrs={"adt": "core::option::Option"}), "implicit_assertion": A.Sym("self.implicit_assertion", attrs={"adt": "core::option::Option"})})
        me = st.new_cell(me_v)
        outs = I.run(b, [A.Ptr(me)], st)
        if not outs or any(o.kind not in ("return", "panic") or o.state.unmodelled or _fpai.undecided(o) for o in outs):
            return False   # undecided: the symbolic pipeline rule stands alone
        for o in outs:
            if o.kind != "return":
                continue
            cond = " & ".join(o.state.cond)
            ins = [e[1] for e in o.state.events if e[0] == "wrap_claims_in"]
            if len(ins) != 1 or ins[0] is None:
                r = I.resolve(o.state, o.value)
                if isinstance(r, A.Struct) and r.variant == "Err" and not ins:
                    continue
                probs.append("wrap_claims is applied %d times to a concrete claim map when [%s]" % (len(ins), cond[-160:]))
                continue
            n += 1
            got = ins[0]
            for k, c in ((K1, "C1"), (K2, "C2")):
                failed = ("to_value(%s) fails" % c) in o.state.cond
                want = ["Value::Null"] if failed else ["tv(%s)" % c]
                if got.get(k) != want:
                    probs.append("claim %s reaches the payload as %s instead of %s when [%s]" % (k, got.get(k, "nothing (entry dropped)"), want[0], cond[-200:]))
            extra = sorted(set(got) - {K1, K2})
            if extra:
                probs.append("members %s appear in the payload without a stored claim" % extra)
            # the payload text: the compact JSON text of what wrap_claims returned, member by member in the map's order
            r = I.resolve(o.state, o.value)
            if isinstance(r, A.Struct) and r.variant == "Ok":
                names = {"Value::Null": "Null"}
                want_text = "{" + ",".join("{json(%r)}:{json(w(%s))}" % (k, names.get(vs[0], vs[0])) for k, vs in got.items()) + "}"
                got_text = MD.describe(I, o.state, r.fields.get("0"))
                if got_text != want_text:
                    text_undecided = True if "json" not in got_text else text_undecided
                    probs_text.append("the payload text is %s, expected the JSON text %s when [%s]" % (got_text[:160], want_text[:160], cond[-120:]))
                else:
                    n_text += 1
    if probs_text and not text_undecided:
        probs += probs_text
    ok = not probs and n > 0
    res.oblige(ok)
    if ok:
        res.inst("C14.R3", "build_payload_from_claims on a two-claim builder: wrap_claims receives exactly {k1: to_value(C1), k2: to_value(C2)} (Null only when serialisation fails) on %d paths, with k1, k2 ranging over the registered keys and custom ones" % n)
    else:
        res.violate("C14.R3", b["id"], "payload entry dropped / transformed at build time", "; ".join(sorted(set(probs)))[:500] or "no path hands a claim map to wrap_claims", file=v.file(), line=b["line"])
    if ok and n_text > 0 and not probs_text:
        res.oblige(True)
        res.inst("C14.R3", "build_payload_from_claims returns the compact JSON text of the wrapped claim map, member by member (%d paths)" % n_text)
        return True
    return False


def wrap(res, facts):
    """C14.R5: the build-time helpers wrap_claims / wrap_value hand every entry on.  They are interpreted on *concrete small inputs* with
    symbolic members - the empty and a two-entry claim map; Null, Bool, Number, String, the empty and a two-element array, the empty and a
    two-member object - with the recursive call of wrap_value summarised.  Whatever the style (iterator chains, loops, intermediate
    collections, helper functions) the result must be: identity on scalars; [wrap_value(e1), wrap_value(e2)] for an array;
    {k1: wrap_value(v1), k2: wrap_value(v2)} for an object / the claim map - no entry dropped, added, re-keyed or left unwrapped."""
    from .. import models_iter as MI
    V = "serde_json::value::Value"

    def val(variant, payload=None):
        return A.Struct(V, variant, {} if payload is None else {"0": payload})

    def run(body, arg, recursive_stub):
        I = A.Interp(facts, MD.MODELS)
        I.concrete_maps = True
        calls = []

        def stub(I_, st, args):
            d = MD.describe(I_, st, args[0])
            v_ = MD.deref(I_, st, args[0])
            if isinstance(v_, A.Sym):
                d = v_.name
            return A.Sym("wrap_value(%s)" % d)
        if recursive_stub:
            I.fn_stubs = [(re.compile(r"::wrap_value$"), stub)]
        st = A.State()
        return I, I.run(body, [arg], st)

    def show(I, st, x):
        x = MD.deref(I, st, x)
        if isinstance(x, A.Struct) and x.adt == V:
            if x.variant in ("Object", "Array"):
                return "%s(%s)" % (x.variant, show(I, st, x.fields.get("0")))
            if x.variant == "Null":
                return "Null"
            return "%s(%s)" % (x.variant, show(I, st, x.fields.get("0")))
        if MI.is_map(x):
            ents = [(MD.str_key(I, st, e.fields["0"])[1], show(I, st, e.fields["1"])) for e in MI._entries(x)]
            return "{" + ", ".join("%s: %s" % kv for kv in sorted(ents)) + "}"
        if isinstance(x, A.Seq) and x.elems is not None:
            return "[" + ", ".join(show(I, st, e) for e in x.elems) + "]"
        if isinstance(x, A.Sym):
            return x.name
        return repr(x)

    two_map = lambda: MI.mapv("m", [(A.StrV("k1"), A.Sym("V1")), (A.StrV(" "), A.Sym("V2"))])     # (the second key is a blank)
    cases = {
        "wrap_claims": [("empty claim map", lambda: MI.mapv("m", []), "Object({})"), ("claim map {k1: V1, ' ': V2}", two_map, "Object({ : wrap_value(V2), k1: wrap_value(V1)})")],
        "wrap_value": [("Null", lambda: val("Null"), "Null"), ("Bool", lambda: val("Bool", A.Sym("B")), "Bool(B)"), ("Number", lambda: val("Number", A.Sym("N")), "Number(N)"),
                       ("String", lambda: val("String", A.Sym("S")), "String(S)"), ("empty array", lambda: val("Array", A.Seq("arr", A.Aff(0), [], kind="vec")), "Array([])"),
                       ("array [E1, E2]", lambda: val("Array", A.Seq("arr", A.Aff(2), [A.Sym("E1"), A.Sym("E2")], kind="vec")), "Array([wrap_value(E1), wrap_value(E2)])"),
                       ("empty object", lambda: val("Object", MI.mapv("m", [])), "Object({})"), ("object {k1: V1, ' ': V2}", lambda: val("Object", two_map()), "Object({ : wrap_value(V2), k1: wrap_value(V1)})")],
    }
    for fn, cs in cases.items():
        b = _fpai.find_body(facts, r"^crate::generic::.*::%s$" % fn)
        if b is None:
            res.oblige(False)
            res.violate("C14.R5", "generic builders::" + fn, "anchor missing", "not found")
            continue
        v = M.view(facts, b)
        for name, mk, want in cs:
            I, outs = run(b, mk(), True)
            problems = []
            if not outs:
                problems.append("no outcome")
            for o in outs:
                if o.kind != "return" or _fpai.undecided(o):
                    problems.append("path not decided (%s; unmodelled %s; %s)" % (o.kind, o.state.unmodelled[:2], [n for n in o.state.notes if "undecided" in n][:1]))
                    continue
                got = show(I, o.state, o.value)
                if got != want:
                    problems.append("%s(%s) is %s, expected %s" % (fn, name, got, want))
            ok = not problems
            res.oblige(ok)
            if ok:
                res.inst("C14.R5", "%s(%s) = %s" % (fn, name, want))
            else:
                res.violate("C14.R5", b["id"], "%s alters the claim set (%s)" % (fn, name), "; ".join(sorted(set(problems)))[:500], file=v.file(), line=b["line"])


def mutator_contracts(facts):
    """remove_claim / extend_claims of GenericBuilder on a concrete claim map {K: old, other: o2}: remove_claim(K) leaves {other: o2},
    remove_claim(absent) changes nothing, extend_claims({K: new, fresh: f}) gives {K: new, other: o2, fresh: f}.
    dict function name -> (ok, text) or None when undecided."""
    from .. import models_iter as MI
    out = {}

    def run(name, mkarg, want, pre=(("K", "old"), ("other", "o2"))):
        b = _fpai.find_body(facts, GB + name + r"$")
        if b is None:
            return None
        I = A.Interp(facts, MD.MODELS)
        I.concrete_maps = True
        st = A.State()
        me_v = A.Struct("crate::generic::builders::generic_builder::GenericBuilder", None, {
            "version": A.UNIT, "purpose": A.UNIT, "claims": MI.mapv("claims", [(A.StrV(k), A.Sym(n)) for k, n in pre]),
            "footer": A.Sym("self.footer", attrs={"adt": "core::option::Option"}), "implicit_assertion": A.Sym("self.implicit_assertion", attrs={"adt": "core::option::Option"})})
        me = st.new_cell(me_v)
        outs = I.run(b, [A.Ptr(me), mkarg(st)], st)
        if not outs or any(o.kind != "return" or o.state.unmodelled or _fpai.undecided(o) for o in outs):
            return None
        for o in outs:
            cur = MD.deref(I, o.state, A.Ptr(me))
            m = MD.deref(I, o.state, cur.fields.get("claims")) if isinstance(cur, A.Struct) else None
            if not MI.is_map(m):
                return None
            got = dict((str(MD.str_key(I, o.state, e.fields["0"])[1]), getattr(MD.deref(I, o.state, e.fields["1"]), "name", "?")) for e in MI._entries(m))
            if got != want:
                return (False, "the claim map becomes %s, expected %s" % (got, want))
        return (True, "claim map %s" % want)
    r1 = run("remove_claim", lambda st: A.StrV("K"), {"other": "o2"})
    r2 = run("remove_claim", lambda st: A.StrV("absent"), {"K": "old", "other": "o2"})
    out["remove_claim"] = None if (r1 is None or r2 is None) else ((r1[0] and r2[0]), "remove_claim(K): %s; remove_claim(absent): %s" % (r1[1], r2[1]))
    r3 = run("extend_claims", lambda st: MI.mapv("arg", [(A.StrV("K"), A.Sym("new")), (A.StrV("fresh"), A.Sym("f"))]), {"K": "new", "other": "o2", "fresh": "f"})
    # (also with an incoming map larger than the one held, and into an empty builder: the later value wins whichever side is bigger)
    r4 = run("extend_claims", lambda st: MI.mapv("arg", [(A.StrV("K"), A.Sym("new")), (A.StrV("fresh"), A.Sym("f")), (A.StrV("more"), A.Sym("g"))]), {"K": "new", "fresh": "f", "more": "g"}, pre=(("K", "old"),))
    r5 = run("extend_claims", lambda st: MI.mapv("arg", [(A.StrV("K"), A.Sym("new"))]), {"K": "new"}, pre=())
    rs = [r3, r4, r5]
    out["extend_claims"] = None if any(r is None for r in rs) else (all(r[0] for r in rs), "extend_claims({K: new, fresh: f}) on {K, other}: %s; a larger map on {K}: %s; on an empty builder: %s" % (r3[1], r4[1], r5[1]))
    return out


def writers(res, facts):
    mc = mutator_contracts(facts)
    for fn, r in sorted(mc.items()):
        if r is None:
            continue
        b_ = _fpai.find_body(facts, GB + fn + r"$")
        res.oblige(r[0])
        if r[0]:
            res.inst("C14.R3", "%s on a concrete claim map: %s" % (fn, r[1]))
        else:
            res.violate("C14.R3", b_["id"], "%s contract" % fn, r[1], file=M.view(facts, b_).file(), line=b_["line"])
    decided = set(fn for fn, r in mc.items() if r is not None)
    allowed = {r"new$": r"", r"set_claim$": r"HashMap::<K, V, S, A>::insert$", r"remove_claim$": r"HashMap::<K, V, S, A>::remove$", r"extend_claims$": r"Extend::extend$"}
    for bid, b in sorted(facts.bodies.items()):
        v = M.view(facts, b)
        for w in M.field_writes(v):
            if not (w["adt"].endswith("generic_builder::GenericBuilder") and w["field"] == "claims"):
                continue
            users = w.get("user_defs", [])
            ok = False
            for fn, upat in allowed.items():
                if re.search(GB + fn, bid) and users and all(re.search(upat, u) for u in users):
                    ok = True
            # what these functions do to the map was decided on a concrete map above: how they do it (extend / insert loop ..) is free
            if any(re.search(GB + fn + r"$", bid) or bid.startswith(b0["id"] + "::{closure") for fn in decided for b0 in [_fpai.find_body(facts, GB + fn + r"$")] if b0 is not None):
                ok = True
            if re.search(GB + r"set_claim$", bid) and set_claim_concrete(facts, facts.bodies[bid]) is not None:
                ok = True
            res.oblige(ok)
            if ok:
                res.inst("C14.R3", "claims written by %s via %s" % (M.short(bid)[-40:], ",".join(M.short(u)[-20:] for u in users)))
            else:
                res.violate("C14.R3", bid, "unexpected writer of GenericBuilder.claims (%s)" % (",".join(M.short(u) for u in users) or w["kind"]), "the claim map may only be changed by set_claim (insert), remove_claim (remove) and extend_claims (extend)", file=v.file(), line=w["ln"])
