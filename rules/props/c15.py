"""C15 Expected-claim checks accept exactly the tokens that carry those claims."""
from .. import claims as CL
from .. import facts as F
from .. import skeleton as S
from ..harness import Result

LEVEL = "other"


def run(tier, prop="C15", rules=("C15.R1", "C15.R2", "C15.R3"), floors=None):
    res = Result(prop, LEVEL)
    res.trusted = ["serde_json::Value equality is JSON equality; Value indexing by a missing key yields Null", "HashMap iteration visits every entry exactly once"]
    facts = F.load("all")
    entries = S.entry_points(facts)
    fs = CL.analyse(facts) + CL.parser_state_writes(facts, entries)
    for f in fs:
        if f.rule not in rules:
            continue
        res.oblige(f.ok)
        if f.ok:
            res.inst(f.rule, f.desc)
        else:
            res.violate(f.rule, f.where, f.construct, f.msg, file=f.file, line=f.line)
    for r, n in (floors or {"C15.R1": 2, "C15.R2": 2, "C15.R3": 3}).items():
        res.floor(r, n)
    res.explanation = ("CFG must-pass-through inside the loop of GenericParser::verify_claims: the loop ranges over the whole expected-claim map and Ok is returned only after its exhaustion; for a key without validator an iteration "
                       "completes only through the not-null edge and the equal edge of serde_json Value comparisons between expected[key] and json[key] of the authenticated payload (failing edges end in Err); "
                       "who-writes: no function reachable from the 16 parse methods changes parser state, verify_claims takes &self and the parser has no interior-mutable field (outcome independent of earlier tokens)")
    return res
