"""C15 Expected-claim checks accept exactly the tokens that carry those claims."""
import re
from .. import claims as CL
from .. import facts as F
from .. import skeleton as S
from ..harness import Result

LEVEL = "other"


def run(tier, prop="C15", rules=("C15.R1", "C15.R2", "C15.R3"), floors=None):
    res = Result(prop, LEVEL)
    res.trusted = ["serde_json::Value equality is JSON equality; Value indexing by a missing key yields Null", "HashMap iteration visits every entry exactly once"]
    facts = F.load("all")
    entries = S.entry_points(facts)
    fs = CL.analyse(facts) + CL.parser_state_writes(facts, entries)
    for f in fs:
        if f.rule not in rules:
            continue
        res.oblige(f.ok)
        if f.ok:
            res.inst(f.rule, f.desc)
        else:
            res.violate(f.rule, f.where, f.construct, f.msg, file=f.file, line=f.line)
    if prop == "C15":
        # R4: a key that has a validator is decided by the validator alone (C16.R6), so an expected value registered for it with check_claim is
        # not compared: the batteries-included parser therefore must not register validators beyond the two time checks it documents
        from . import _validators as VL
        from .. import mir as M
        b = VL.default_body(facts)
        if b is None:
            res.oblige(False)
            res.violate("C15.R4", "PasetoParser::default", "anchor missing", "impl Default for PasetoParser not found")
        else:
            v, regs = VL.registrations(facts, b)
            keys = sorted(str(r["key"]) for r in regs)
            per, _why = VL.discover(facts)
            if per:
                keys = sorted(set(str(k_) for regs_ in per for k_, _f in regs_))
                regs = [{"key": k_, "ln": b["line"]} for k_ in keys]
            ok = keys == ["exp", "nbf"]
            res.oblige(ok)
            if ok:
                res.inst("C15.R4", "PasetoParser::default registers validators for exactly %s: every other key set with check_claim is compared by value" % keys)
            else:
                extra = [r for r in regs if r["key"] not in ("exp", "nbf")]
                res.violate("C15.R4", b["id"], "default validator for %s" % (", ".join(str(r["key"]) for r in extra) or "a changed key set"),
                            "the default parser registers validators for %s; an expected value given with check_claim for such a key is no longer compared with the token's value (a validator takes the place of the comparison)" % keys,
                            file=v.file(), line=(extra[0]["ln"] if extra else b["line"]))
        # R5: registration contract (what "configured with expected claims" means): decided by abstract interpretation from every
        # combination of earlier entries
        from .. import claims_sem
        for f in claims_sem.registration_contracts(facts):
            if f.rule != "C15.R5":
                if f.ok is False and re.search(r"::(check_claim|extend_check_claims)$", f.where):
                    # registering an expectation disturbs the validator table: a validator under the key takes the place of the comparison
                    res.oblige(False)
                    res.violate("C15.R5", f.where, f.construct, "registering an expected claim changes the validators (a validator under the claim's key replaces the comparison with the expected value): " + f.msg, file=f.file, line=f.line)
                continue
            res.oblige(bool(f.ok))
            if f.ok:
                res.inst(f.rule, f.desc)
            else:
                res.violate(f.rule, f.where, f.construct, f.msg if f.ok is False else "not decided by the abstract interpreter (fail closed): " + f.msg, file=f.file, line=f.line)
        dep_semantics(res)
    for r, n in (floors or {"C15.R1": 1, "C15.R2": 1, "C15.R3": 2, "C15.R4": 1, "C15.R5": 5, "C15.R6": 1}).items():
        res.floor(r, n)
    res.explanation = ("CFG must-pass-through inside the loop of GenericParser::verify_claims: the loop ranges over the whole expected-claim map and Ok is returned only after its exhaustion; for a key without validator an iteration "
                       "completes only through the not-null edge and the equal edge of serde_json Value comparisons between expected[key] and json[key] of the authenticated payload (failing edges end in Err); "
                       "who-writes: no function reachable from the 16 parse methods changes parser state, verify_claims takes &self and the parser has no interior-mutable field (outcome independent of earlier tokens)")
    return res


# dependency features that change the meaning of an operation the rules above take as given (trusted base), with the reason
SEMANTIC_FEATURES = {
    "serde_json": {"arbitrary_precision": "serde_json::Number keeps the literal text: Value equality on numbers becomes textual (1.5 != 1.50, 25.0 != 2.5e1), so a token "
                                          "carrying the expected number in another form is rejected (JSON-equal values must be accepted)"},
}


def dep_semantics(res):
    """C15.R6: "JSON-equal" is decided by serde_json's Value equality (trusted).  The resolved feature set of that dependency (cargo metadata
    over the manifest, all features of this crate) must not contain a feature that changes that equality."""
    import json
    import os
    import subprocess
    repo = F.REPO
    env = dict(os.environ, CARGO_NET_OFFLINE="true")
    r = subprocess.run(["cargo", "metadata", "--offline", "--format-version", "1", "--all-features", "--manifest-path", os.path.join(repo, "Cargo.toml")], capture_output=True, text=True, env=env)
    if r.returncode != 0:
        res.oblige(False)
        res.violate("C15.R6", "Cargo.toml", "dependency resolution", "cargo metadata failed (fail closed): %s" % r.stderr.strip()[-200:])
        return
    m = json.loads(r.stdout)
    pk = {p["id"]: p for p in m["packages"]}
    found = False
    for n in m["resolve"]["nodes"]:
        p = pk[n["id"]]
        deny = SEMANTIC_FEATURES.get(p["name"])
        if deny is None:
            continue
        found = True
        bad = sorted(set(n["features"]) & set(deny))
        res.oblige(not bad)
        if bad:
            for b in bad:
                res.violate("C15.R6", "Cargo.toml", "%s feature %s" % (p["name"], b), deny[b], file="Cargo.toml")
        else:
            res.inst("C15.R6", "%s %s resolved with features %s: Value equality is JSON equality" % (p["name"], p["version"], sorted(n["features"])))
    if not found:
        res.oblige(False)
        res.violate("C15.R6", "Cargo.toml", "anchor missing", "serde_json is not among the resolved dependencies")
