"""C08 Tokens are exactly those defined by the PASETO specification (agreement with the transcribed specification tables)."""
from . import _proto

LEVEL = "other"
RULES = {"C08.R1", "C08.R3", "C08.R4", "C08.R5"}


def extra(res, facts, entries, protos):
    from . import c08_extra
    c08_extra.run(res, facts, entries, protos)


def run(tier):
    return _proto.run_rules(
        "C08", LEVEL, RULES,
        {"C08.R1": 5, "C08.R3": 4, "C08.R4": 16, "C08.R5": 11},
        "the skeleton of the 16 core entry points (PAE component lists, nonce derivations, payload layout, primitives named by type) and the constants of the key split are compared with tables transcribed from Version1-4.md / Common.md; "
        "format_token is evaluated over {no footer, empty footer, non-empty footer}; PAE::le64 / parse are evaluated over a symbolic u64 / piece list",
        ["byte-exactness of the primitives (ring, aes, chacha20, blake2, hmac, sha2, ed25519-dalek, p384)", "the transcription rules/protocol.py SPEC_* of the specification"],
        extra, "byte-exactness of the primitives and interoperability runs against an independent implementation (execution)")
