"""C08 Tokens are exactly those defined by the PASETO specification (agreement with the transcribed specification tables)."""
from . import _proto

LEVEL = "other"
RULES = {"C08.R1", "C08.R3", "C08.R4", "C08.R5"}


# necessary conditions shared with sibling properties, reported under C08's own ids:
#  R8  the library accepts what the specification's algorithm produces: rejection inventories, length guards, returned message, refusals of parse_raw_token
#  R5  the payload segment's engine;  R9  the footer / assertion the caller gave is the one that is used (setters, wrappers)
ALIAS = {"C01.R8": "C08.R8", "C01.R9": "C08.R8", "C01.R10": "C08.R8", "C02.R6": "C08.R8", "C02.R7": "C08.R8", "C02.R9": "C08.R8",
         "C01.R5": "C08.R5", "C02.R3": "C08.R5", "C05.R5": "C08.R9", "C06.R4": "C08.R9"}


def extra(res, facts, entries, protos):
    from . import c08_extra
    c08_extra.run(res, facts, entries, protos)
    _proto.refusal_rules(res, "C08.R8", facts)
    from .. import keys_sem
    for f in keys_sem.v3_public_key_admission(facts, "C08.S4"):
        res.oblige(bool(f.ok))
        if f.ok:
            res.inst(f.rule, f.desc)
        else:
            res.violate(f.rule, f.where, f.construct, f.msg if f.ok is False else "not decided (fail closed): " + f.msg, file=f.file, line=f.line)
    res.floor("C08.S4", 2)


def run(tier):
    return _proto.run_rules(
        "C08", LEVEL, RULES,
        {"C08.R1": 8, "C08.R3": 4, "C08.R4": 16, "C08.R5": 11 + 8, "C08.R8": 2, "C08.R9": 30},
        "the skeleton of the 16 core entry points (PAE component lists, nonce derivations, payload layout, primitives named by type) and the constants of the key split are compared with tables transcribed from Version1-4.md / Common.md; "
        "format_token is evaluated over {no footer, empty footer, non-empty footer}; PAE::le64 / parse are evaluated over a symbolic u64 / piece list",
        ["byte-exactness of the primitives (ring, aes, chacha20, blake2, hmac, sha2, ed25519-dalek, p384)", "the transcription rules/protocol.py SPEC_* of the specification"],
        extra, "byte-exactness of the primitives and interoperability runs against an independent implementation (execution)", alias=ALIAS, sem_rules={"C08.S1": 8, "C08.S2": 8, "C08.S3": 8})
