"""C18 Custom claims cannot shadow registered claims; time claims validate input."""
import re

from .. import absint as A
from .. import facts as F
from .. import mir as M
from .. import models as MD
from .. import skeleton as S
from ..harness import Result
from . import _fpai

LEVEL = "other"
RESERVED = ["iss", "sub", "aud", "exp", "nbf", "iat", "jti"]


def run(tier):
    res = Result("C18", LEVEL)
    res.trusted = ["iso8601::datetime accepts every RFC 3339 date-time written with 'T' and 'Z' / numeric offset and rejects strings that do not start with an ISO 8601 date (behaviour of that crate, not decided)",
                   "<[&str]>::contains / str equality are exact byte comparisons"]
    facts = F.load("all")
    # the reserved set is decided by interpreting the check over the key partition (R2); the table constant, if there is one, is read as a
    # second opinion - a check written as a match or with `matches!` has no table and is decided by R2 alone
    n0 = len(res.violations)
    check_fn(res, facts)
    r2_ok = len(res.violations) == n0 and len(res.instances.get("C18.R2", [])) >= 8
    table(res, facts, required=not r2_ok)
    constructors(res, facts)
    time_ctors(res, facts)
    res.floor("C18.R1", 1)
    res.floor("C18.R2", 8 + 6)
    res.floor("C18.R3", 12)
    res.explanation = ("constant table RESERVED_CLAIMS = the 7 registered keys; abstract interpretation of check_if_reserved_claim_key over the key partition {each reserved literal, any other string}; "
                       "of the three CustomClaim::try_from forms (check on the unmodified key precedes construction, the stored key is the given key); of the six time-claim constructors over {iso8601::datetime Ok, Err} "
                       "(Ok <=> accepted, value stored verbatim under the type's key)")
    res.extra["not_decided"] = "which strings iso8601::datetime accepts (behaviour of the iso8601 crate)"
    return res


def table(res, facts, required=True):
    b = None
    for bid, bb in facts.bodies.items():
        if re.search(r"custom_claim::CustomClaim::<T>::RESERVED_CLAIMS$", bid):
            b = bb
    if b is None and not required:
        res.oblige(True)
        res.inst("C18.R1", "no table constant: the reserved set is the one the check function was found to refuse (C18.R2, all 8 key classes)")
        return
    if b is None:
        res.violate("C18.R1", "CustomClaim::RESERVED_CLAIMS", "anchor missing", "constant not found")
        return
    v = M.view(facts, b)
    rt = M.Normalizer(facts, keep=[]).norm(v.return_term())
    lits = [f.args[0].name for f in rt.args] if rt.op == "agg" else None
    ok = lits is not None and sorted(lits) == sorted(RESERVED) and len(lits) == 7
    res.oblige(ok)
    if ok:
        res.inst("C18.R1", "RESERVED_CLAIMS = %s" % lits)
    else:
        res.violate("C18.R1", b["id"], "reserved key table", "RESERVED_CLAIMS must be exactly %s; found %s" % (RESERVED, lits), file=v.file(), line=b["line"])


def classify_key(o):
    eq = o.state.facts.get(("streq", "key"))
    if eq is not None:
        return eq
    ne = o.state.facts.get(("strne", "key"), frozenset())
    return ("other", frozenset(ne))


def check_fn(res, facts):
    b = _fpai.find_body(facts, r"custom_claim::CustomClaim::<T>::check_if_reserved_claim_key$")
    if b is None:
        res.violate("C18.R2", "CustomClaim::check_if_reserved_claim_key", "anchor missing", "not found")
        return
    v = M.view(facts, b)
    I = A.Interp(facts, MD.MODELS)
    outs = I.run(b, [A.Seq("key", A.Aff.sym("len(key)"), kind="str")])
    verdicts = {}
    for o in outs:
        k = classify_key(o)
        rv = "undecided" if _fpai.undecided(o) else _fpai.result_variant(I, o)
        verdicts.setdefault(k if isinstance(k, str) else "other", set()).add((rv, k[1] if not isinstance(k, str) else None))
    for lit in RESERVED + ["other"]:
        got = verdicts.get(lit, set())
        if lit == "other":
            ok = bool(got) and all(rv == "Ok" and excl == frozenset(RESERVED) for rv, excl in got)
            want = "Ok for every key different from the 7 reserved literals"
        else:
            ok = got == {("Err(Reserved)", None)}
            want = "Err(Reserved)"
        res.oblige(ok)
        if ok:
            res.inst("C18.R2", "check_if_reserved_claim_key(%s) -> %s" % (repr(lit) if lit != "other" else "any other key", "Err(Reserved)" if lit != "other" else "Ok"))
        else:
            res.violate("C18.R2", b["id"], "verdict for key %s" % (repr(lit) if lit != "other" else "outside the reserved set"),
                        "required %s (case-sensitive, on the unmodified key); abstract evaluation gives %s" % (want, sorted((rv, sorted(e) if e else None) for rv, e in got) or "no decided outcome (the key is transformed or compared by an unmodelled function - fail closed)"),
                        file=v.file(), line=b["line"])


def constructors(res, facts):
    forms = [("&str", r"^core::convert::TryFrom<&str>$", lambda st: [A.Seq("key", A.Aff.sym("len(key)"), kind="str")]),
             ("(String, T)", r"^core::convert::TryFrom<\(alloc::string::String, T\)>$", lambda st: [A.Struct("(tuple)", None, {"0": A.Seq("key", A.Aff.sym("len(key)"), kind="str"), "1": A.Sym("value")})]),
             ("(&str, T)", r"^core::convert::TryFrom<\(&str, T\)>$", lambda st: [A.Struct("(tuple)", None, {"0": A.Seq("key", A.Aff.sym("len(key)"), kind="str"), "1": A.Sym("value")})])]
    for name, tr, mk in forms:
        bs = S.impl_fns(facts, r"^crate::generic::claims::custom_claim::CustomClaim<", tr, "try_from")
        if len(bs) != 1:
            res.oblige(False)
            res.violate("C18.R2", "CustomClaim::try_from" + name, "constructor missing", "expected one TryFrom<%s> impl, found %d" % (name, len(bs)))
            continue
        b = bs[0]
        v = M.view(facts, b)
        I = A.Interp(facts, MD.MODELS)
        st = A.State()
        outs = I.run(b, mk(st), st)
        bad = []
        n_ok = n_err = 0
        for o in outs:
            k = classify_key(o)
            rv = "undecided" if _fpai.undecided(o) else _fpai.result_variant(I, o)
            if isinstance(k, str):
                if rv != "Err(Reserved)":
                    bad.append("key %r -> %s" % (k, rv))
                else:
                    n_err += 1
            else:
                if rv != "Ok" or k[1] != frozenset(RESERVED):
                    bad.append("other key (excluded %s) -> %s" % (sorted(k[1]), rv))
                    continue
                n_ok += 1
                r = I.resolve(o.state, o.value)
                claim = I.resolve(o.state, r.fields["0"])
                inner = I.resolve(o.state, claim.fields.get("0")) if isinstance(claim, A.Struct) else None
                kk = MD.deref(I, o.state, inner.fields.get("0")) if isinstance(inner, A.Struct) else None
                if not (isinstance(kk, A.Seq) and kk.name == "key"):
                    bad.append("stored key is %r, not the given key" % (kk,))
        ok = not bad and n_err == 7 and n_ok >= 1
        res.oblige(ok)
        if ok:
            res.inst("C18.R2", "CustomClaim::try_from(%s): Err(Reserved) for the 7 reserved keys, otherwise Ok(claim storing the given key)" % name)
        else:
            res.violate("C18.R2", b["id"], "constructor form " + name, "; ".join(bad)[:400] or "expected 7 rejecting and 1 accepting key class, found %d / %d" % (n_err, n_ok), file=v.file(), line=b["line"])
    # who-constructs: CustomClaim values are built only inside these impls (private tuple field)
    for bid, b in facts.bodies.items():
        for blk in b["blocks"]:
            for st_ in blk["stmts"]:
                if st_["k"] == "assign" and st_["rv"]["k"] == "aggregate" and st_["rv"].get("adt", "").endswith("custom_claim::CustomClaim"):
                    ok = bool(re.search(r"CustomClaim<.*> as core::convert::TryFrom<", bid)) or bool(re.search(r"custom_claim::<impl core::convert::TryFrom<", bid)) or " as core::clone::Clone>::clone" in bid
                    res.oblige(ok)
                    if ok:
                        res.inst("C18.R2", "CustomClaim constructed in %s" % M.short(bid)[:80])
                    else:
                        res.violate("C18.R2", bid, "CustomClaim constructed outside its checked constructors", "a custom claim can be created without the reserved-key check", file=M.view(facts, b).file(), line=st_["ln"])


def time_ctors(res, facts):
    for ty, key in (("expiration_claim::ExpirationClaim", "exp"), ("not_before_claim::NotBeforeClaim", "nbf"), ("issued_at_claim::IssuedAtClaim", "iat")):
        for form, tr in (("String", r"^core::convert::TryFrom<alloc::string::String>$"), ("&str", r"^core::convert::TryFrom<&str>$")):
            bs = S.impl_fns(facts, r"^crate::generic::claims::" + re.escape(ty) + "$", tr, "try_from")
            if len(bs) != 1:
                res.oblige(False)
                res.violate("C18.R3", ty + "::try_from(" + form + ")", "constructor missing", "expected one impl, found %d" % len(bs))
                continue
            b = bs[0]
            v = M.view(facts, b)
            I = A.Interp(facts, MD.MODELS)
            outs = I.run(b, [A.Seq("value", A.Aff.sym("len(value)"), kind="str")])
            bad = []
            seen = set()
            for o in outs:
                iso = o.state.facts.get(("iso8601", "value"))
                rv = "undecided" if _fpai.undecided(o) else _fpai.result_variant(I, o)
                seen.add(iso)
                if iso is True:
                    if rv != "Ok":
                        bad.append("a string accepted by iso8601::datetime is rejected on path [%s] (%s)" % (" & ".join(o.state.cond), rv))
                        continue
                    r = I.resolve(o.state, o.value)
                    claim = I.resolve(o.state, r.fields["0"])
                    inner = I.resolve(o.state, claim.fields.get("0")) if isinstance(claim, A.Struct) else None
                    k = MD.deref(I, o.state, inner.fields.get("0")) if isinstance(inner, A.Struct) else None
                    val = MD.deref(I, o.state, inner.fields.get("1")) if isinstance(inner, A.Struct) else None
                    if not (isinstance(k, A.StrV) and k.s == key):
                        bad.append("stored under key %r instead of %r" % (k, key))
                    if not (isinstance(val, A.Seq) and val.name == "value"):
                        bad.append("the stored value is %r, not the given string verbatim" % (val,))
                elif iso is False:
                    if rv != "Err(RFC3339Date)":
                        bad.append("a string rejected by iso8601::datetime yields %s on path [%s]" % (rv, " & ".join(o.state.cond)))
                else:
                    bad.append("path [%s] does not consult iso8601::datetime (%s)" % (" & ".join(o.state.cond), rv))
            ok = not bad and seen == {True, False}
            res.oblige(ok)
            if ok:
                res.inst("C18.R3", "%s::try_from(%s): Ok(value verbatim under %r) iff iso8601::datetime(value) is Ok, else Err(RFC3339Date)" % (ty.split("::")[-1], form, key))
            else:
                res.violate("C18.R3", b["id"], "time claim constructor (%s)" % form, "; ".join(bad)[:500] or "both outcomes of iso8601::datetime must be covered; seen %s" % seen, file=v.file(), line=b["line"])
    # Default impls use the same keys (registration key table, shared with C14)
    for ty, key in (("expiration_claim::ExpirationClaim", "exp"), ("not_before_claim::NotBeforeClaim", "nbf"), ("issued_at_claim::IssuedAtClaim", "iat")):
        bs = S.impl_fns(facts, r"^crate::generic::claims::" + re.escape(ty) + "$", r"^core::default::Default$", "default") + S.impl_fns(facts, r"^crate::generic::claims::" + re.escape(ty) + "$", r"^crate::generic::claims::traits::PasetoClaim$", "get_key")
        for b in bs:
            v = M.view(facts, b)
            rt = M.Normalizer(facts, keep=[]).norm(v.return_term())
            if b["name"] == "default":
                from . import c14
                ck = c14.ctor_keys(facts, b)
                t0 = M.mk_field(M.mk_field(rt, "0"), "0")
                # interpreted (the key may come from a constant of a private trait or a helper); the literal form as second opinion
                ok = (ck[0] == {key}) if ck is not None else (t0 == M.T("const", key))
            else:
                ok = rt == M.T("field", "0", (M.T("field", "0", (M.T("param", 1),)),))
            res.oblige(ok)
            if ok:
                res.inst("C18.R3", "%s::%s uses key field / %r" % (ty.split("::")[-1], b["name"], key))
            else:
                res.violate("C18.R3", b["id"], "claim key", "expected key %r / the stored key field; found %s" % (key, M.show(rt)[:100]), file=v.file(), line=b["line"])
