"""C20 Every documented feature combination builds; adding a feature never breaks a client.

Decided with the Rust type checker as the oracle (no code of the crate is executed):
  R1/R2  `cargo check` of a generated client ("smoke") crate - whose cfg-gated body type-checks the
         whole build -> parse call chain of every enabled protocol at every enabled layer - for every
         feature configuration of the tier.  The smoke body of S u {f} contains that of S, so success
         over the lattice is additivity for this client.
  R3     monotone gating: no cfg predicate in src/ uses not(feature = ..) (an item that disappears
         when a feature is added).
  R4     API growth, from the driver's api/adt facts of 10 configurations: every item reachable in a
         singleton configuration is reachable with the identical signature in the all-features
         configuration; a public exhaustive enum whose variant set differs between configurations is
         reported per (enum, variant).
The third clause of the statement that needs execution (each protocol round-trips a token) is not decided.
"""
import itertools
import json
import os
import re
import shutil
import subprocess
import time
from concurrent.futures import ThreadPoolExecutor

from .. import facts as F
from ..harness import Result

LEVEL = "proof"
PROTOCOLS = F.PROTOCOLS
LAYERS = ["core", "generic", "batteries_included"]


# ------------------------------------------------------------------ smoke crate
def _ver(p):
    return p[:2].upper()


def _smoke_fn(layer, proto):
    v = _ver(proto)
    local = proto.endswith("local")
    ia = v in ("V3", "V4")
    P = "Local" if local else "Public"
    gate = 'feature = "%s"' % proto if layer == "core" else 'all(feature = "%s", feature = "%s")' % (layer, proto)
    L = []
    L.append("#[cfg(%s)]" % gate)
    L.append("pub fn %s_%s() -> Result<(), Box<dyn std::error::Error>> {" % (layer, proto))
    mod = {"core": "core", "generic": "generic", "batteries_included": "prelude"}[layer]
    L.append("    use rusty_paseto::%s::*;" % mod)
    # keys
    if local:
        L.append("    let key = PasetoSymmetricKey::<%s, Local>::from(Key::<32>::from([7u8; 32]));" % v)
        L.append("    let pkey = &key;")
        L.append("    let skey = &key;")
    elif v in ("V2", "V4"):
        L.append("    let sk = Key::<64>::from([1u8; 64]);")
        L.append("    let pk = Key::<32>::from([1u8; 32]);")
        L.append("    let skey = &PasetoAsymmetricPrivateKey::<%s, Public>::from(&sk);" % v)
        L.append("    let pkey = &PasetoAsymmetricPublicKey::<%s, Public>::from(&pk);" % v)
    elif v == "V3":
        L.append("    let sk = Key::<48>::from([1u8; 48]);")
        L.append("    let pk = Key::<49>::from([2u8; 49]);")
        L.append("    let skey = &PasetoAsymmetricPrivateKey::<V3, Public>::from(&sk);")
        L.append("    let pkey = &PasetoAsymmetricPublicKey::<V3, Public>::try_from(&pk)?;")
    else:  # V1 public
        L.append("    let der = [0u8; 16];")
        L.append("    let skey = &PasetoAsymmetricPrivateKey::<V1, Public>::from(&der[..]);")
        L.append("    let pkey = &PasetoAsymmetricPublicKey::<V1, Public>::from(&der[..]);")
    # client code whose type-checking rests on inference through a single applicable impl (`x.as_ref()` with one `AsRef` impl): a
    # feature that adds a second impl for the same type breaks such a client although the crate itself still builds
    L.append("    let _: usize = skey.as_ref().len() + pkey.as_ref().len() + Footer::from(\"f\").as_ref().len() + Payload::from(\"{}\").as_ref().len()"
             " + ImplicitAssertion::from(\"a\").as_ref().len() + Key::<32>::from([7u8; 32]).as_ref().len();")
    if layer == "core":
        b = "    let token: String = Paseto::<%s, %s>::builder().set_payload(Payload::from(\"{}\")).set_footer(Footer::from(\"f\"))" % (v, P)
        if ia:
            b += ".set_implicit_assertion(ImplicitAssertion::from(\"a\"))"
        if local:
            n = 24 if v == "V2" else 32
            L.append("    let n = Key::<%d>::try_new_random()?;" % n)
            L.append("    let nonce = PasetoNonce::<%s, Local>::from(&n);" % v)
            L.append("    let _: usize = nonce.as_ref().len();")
            b += ".try_encrypt(skey, &nonce)?;"
        else:
            b += ".try_sign(skey)?;"
        L.append(b)
        op = "try_decrypt" if local else "try_verify"
        a = "    let msg: String = Paseto::<%s, %s>::%s(&token, pkey, Footer::from(\"f\")" % (v, P, op)
        if ia:
            a += ", ImplicitAssertion::from(\"a\")"
        a += ")?;"
        L.append(a)
        L.append("    let _: String = Paseto::<%s, %s>::%s(&token, pkey, None%s)?;" % (v, P, op, ", None" if ia else ""))
        L.append("    let _ = msg;")
    else:
        Bn, Pn = ("GenericBuilder", "GenericParser") if layer == "generic" else ("PasetoBuilder", "PasetoParser")
        L.append("    let mut b = %s::<%s, %s>::default();" % (Bn, v, P))
        L.append("    b.set_claim(AudienceClaim::from(\"a\")).set_claim(SubjectClaim::from(\"s\")).set_claim(IssuerClaim::from(\"i\")).set_claim(TokenIdentifierClaim::from(\"j\"));")
        L.append("    b.set_claim(CustomClaim::try_from((\"k\", 1u64))?).set_claim(ExpirationClaim::try_from(\"2099-01-01T00:00:00+00:00\")?);")
        L.append("    b.set_footer(Footer::from(\"f\"));")
        if ia:
            L.append("    b.set_implicit_assertion(ImplicitAssertion::from(\"a\"));")
        L.append("    let token: String = b.%s(skey)?;" % ({"generic": "try_encrypt" if local else "try_sign", "batteries_included": "build"}[layer]))
        L.append("    let mut p = %s::<%s, %s>::default();" % (Pn, v, P))
        L.append("    p.check_claim(AudienceClaim::from(\"a\")).validate_claim(SubjectClaim::from(\"s\"), &|_k, _v| Ok(())).set_footer(Footer::from(\"f\"));")
        if ia:
            L.append("    p.set_implicit_assertion(ImplicitAssertion::from(\"a\"));")
        L.append("    let json = p.parse(&token, pkey)?;")
        L.append("    let _ = json[\"aud\"].as_str();")
    L.append("    Ok(())")
    L.append("}")
    return "\n".join(L)


def smoke_source():
    parts = ["// generated by /verif/rules/props/c20.py - type-checks the build -> parse chain of every enabled protocol",
             "#![allow(unused)]"]
    for layer in LAYERS:
        for proto in PROTOCOLS:
            parts.append(_smoke_fn(layer, proto))
    # a client that only names layer modules
    parts.append('#[cfg(feature = "core")]\npub fn names_core() { let _ = std::any::type_name::<rusty_paseto::core::PasetoError>(); }')
    parts.append('#[cfg(feature = "generic")]\npub fn names_generic() { let _ = std::any::type_name::<rusty_paseto::generic::GenericParserError>(); }')
    parts.append('#[cfg(feature = "batteries_included")]\npub fn names_prelude() { let _ = std::any::type_name::<rusty_paseto::prelude::GeneralPasetoError>(); }')
    # auto traits of the public error types do not depend on the feature set: a client that moves errors across threads, or converts
    # them with `?` into anyhow / Box<dyn Error + Send + Sync>, keeps compiling when a feature is added (witness: this must type-check in
    # every configuration; the smallest ones establish that the bound holds there)
    parts.append("fn pv_send_sync<T: Send + Sync + 'static>() {}")
    parts.append('#[cfg(feature = "core")]\npub fn auto_traits_core() { pv_send_sync::<rusty_paseto::core::PasetoError>(); }')
    parts.append('#[cfg(feature = "generic")]\npub fn auto_traits_generic() { pv_send_sync::<rusty_paseto::generic::GenericParserError>(); pv_send_sync::<rusty_paseto::generic::GenericBuilderError>(); '
                 'pv_send_sync::<rusty_paseto::generic::PasetoClaimError>(); }')
    parts.append('#[cfg(feature = "batteries_included")]\npub fn auto_traits_prelude() { pv_send_sync::<rusty_paseto::prelude::GeneralPasetoError>(); }')
    return "\n\n".join(parts) + "\n"


def write_smoke(dirpath, repo):
    os.makedirs(os.path.join(dirpath, "src"), exist_ok=True)
    feats = ["[features]", 'default = []', 'core = ["rusty_paseto/core"]', 'generic = ["core", "rusty_paseto/generic"]',
             'batteries_included = ["generic", "rusty_paseto/batteries_included"]', 'repo_default = ["rusty_paseto/default", "batteries_included", "v4_local", "v4_public"]']
    for p in PROTOCOLS:
        feats.append('%s = ["core", "rusty_paseto/%s"]' % (p, p))
    toml = "[package]\nname = \"pv_smoke\"\nversion = \"0.0.0\"\nedition = \"2021\"\n\n[workspace]\n\n[dependencies]\nrusty_paseto = { path = \"%s\", default-features = false }\n\n%s\n" % (repo, "\n".join(feats))
    _write_if_changed(os.path.join(dirpath, "Cargo.toml"), toml)
    _write_if_changed(os.path.join(dirpath, "src", "lib.rs"), smoke_source())
    lock = os.path.join(repo, "Cargo.lock")
    if os.path.exists(lock):
        shutil.copyfile(lock, os.path.join(dirpath, "Cargo.lock"))


def _write_if_changed(path, text):
    try:
        if open(path).read() == text:
            return
    except OSError:
        pass
    with open(path, "w") as fh:
        fh.write(text)


# ------------------------------------------------------------------ configurations
def configs(tier):
    out = []

    def add(name, feats):
        out.append((name, feats))

    singles = [[p] for p in PROTOCOLS]
    pairs = [list(c) for c in itertools.combinations(PROTOCOLS, 2)]
    full = [list(PROTOCOLS)]
    if tier == "thorough":
        subsets = []
        for r in range(1, 9):
            subsets += [list(c) for c in itertools.combinations(PROTOCOLS, r)]
        for layer in LAYERS:
            for sset in subsets:
                add(layer + ":" + "+".join(sset), [layer] + sset)
    else:
        for layer in LAYERS:
            for sset in singles + full:
                add(layer + ":" + "+".join(sset), [layer] + sset)
        # pairs at the top layer (its code is a superset of the lower layers' code) and at core
        for layer in ("batteries_included", "core"):
            for sset in pairs:
                add(layer + ":" + "+".join(sset), [layer] + sset)
    for layer in LAYERS:
        add(layer + ":(no protocol)", [layer])
    add("repo default", ["repo_default"])
    add("(no features)", [])
    return out


def _check_one(smoke_dir, target, feats, extra_env=None):
    e = dict(os.environ)
    e["CARGO_NET_OFFLINE"] = "true"
    e["CARGO_TARGET_DIR"] = target
    e.pop("RUSTC_WORKSPACE_WRAPPER", None)
    e.pop("RUSTFLAGS", None)
    cmd = ["cargo", "check", "--offline", "--lib", "--message-format=short", "--no-default-features"]
    if feats:
        cmd += ["--features", " ".join(feats)]
    r = subprocess.run(cmd, cwd=smoke_dir, env=e, capture_output=True, text=True)
    return r.returncode, r.stderr


def run_matrix(res, tier, repo):
    work = os.path.join(F.WORK, "c20" + F.repo_suffix(repo))
    os.makedirs(work, exist_ok=True)
    cfgs = configs(tier)
    nshards = 8
    shards = [cfgs[i::nshards] for i in range(nshards)]
    results = {}

    def worker(i):
        sdir = os.path.join(work, "smoke%d" % i)
        write_smoke(sdir, repo)
        target = os.path.join(work, "target%d" % i)
        for name, feats in shards[i]:
            rc, err = _check_one(sdir, target, feats)
            results[name] = (rc, err, feats)

    with ThreadPoolExecutor(max_workers=nshards) as ex:
        list(ex.map(worker, range(nshards)))
    ok = 0
    for name, feats in cfgs:
        rc, err, _ = results[name]
        res.oblige(rc == 0)
        if rc == 0:
            ok += 1
            res.inst("C20.R1", name)
        else:
            errs = [l for l in err.splitlines() if re.search(r"\berror(\[E\d+\])?:", l)]
            first = errs[0] if errs else (err.strip().splitlines() or ["?"])[-1]
            m = re.search(r"^(\S+?):(\d+):\d+: error(\[E\d+\])?: (.*)$", first)
            code = (m.group(3) or "") if m else ""
            # key: configuration + error code + file (no line numbers)
            where = "features[%s]" % " ".join(feats)
            fl = m.group(1) if m else None
            construct = "%s %s" % (code.strip("[]") or "error", os.path.basename(fl) if fl else "")
            res.violate("C20.R1", where, construct.strip(), "configuration does not type-check: %s" % first.strip()[:300], file=fl, line=int(m.group(2)) if m else None,
                        extra={"features": feats, "errors": errs[:5]})
    return len(cfgs), ok


# ------------------------------------------------------------------ R3: monotone gating lint
CFG_RE = re.compile(r"cfg(?:_attr)?\s*!?\s*\(")


def cfg_predicates(text):
    """Yield (offset, predicate text) of every cfg(...) / cfg_attr(...) / cfg!(...) in the source text (comments stripped)."""
    # strip line comments and block comments but keep offsets
    def blank(m):
        return re.sub(r"[^\n]", " ", m.group(0))
    t = re.sub(r"//[^\n]*", blank, text)
    t = re.sub(r"/\*.*?\*/", blank, t, flags=re.S)
    for m in CFG_RE.finditer(t):
        i = m.end()
        depth = 1
        j = i
        while j < len(t) and depth > 0:
            c = t[j]
            if c == "(":
                depth += 1
            elif c == ")":
                depth -= 1
            elif c == '"':
                j += 1
                while j < len(t) and t[j] != '"':
                    j += 1
            j += 1
        yield m.start(), t[i:j - 1]


def run_lint(res, repo):
    n = 0
    import glob
    for path in sorted(glob.glob(os.path.join(repo, "src", "**", "*.rs"), recursive=True)):
        text = open(path).read()
        for off, pred in cfg_predicates(text):
            n += 1
            rel = os.path.relpath(path, repo)
            line = text.count("\n", 0, off) + 1
            res.oblige(True)
            # not( ... feature = ...) : find not( groups that contain `feature`
            for nm in re.finditer(r"\bnot\s*\(", pred):
                k = nm.end()
                depth = 1
                while k < len(pred) and depth > 0:
                    if pred[k] == "(":
                        depth += 1
                    elif pred[k] == ")":
                        depth -= 1
                    k += 1
                inner = pred[nm.end():k - 1]
                if "feature" in inner:
                    res.obligations += 0
                    res.discharged -= 1
                    res.violate("C20.R3", rel, "not(%s)" % re.sub(r"\s+", " ", inner.strip()),
                                "cfg predicate negates a feature: the gated item disappears when that feature is added (not additive)", file=rel, line=line)
            res.inst("C20.R3", "%s: cfg(%s)" % (rel, re.sub(r"\s+", " ", pred.strip())[:80]))
    return n


# ------------------------------------------------------------------ R4: API growth
def run_api(res, tier, repo):
    cfg_names = ["all", "default"] + PROTOCOLS
    loaded = {}
    for c in cfg_names:
        try:
            loaded[c] = F.load(c, repo)
        except F.ExtractError as e:
            errs = F.rustc_errors(e.stderr)
            res.oblige(False)
            res.violate("C20.R4", "config[%s]" % c, "does not type-check", "nightly type check of configuration %s failed: %s" % (c, (errs or ["?"])[0][:300]))
    if "all" not in loaded:
        return 0
    big = loaded["all"]
    big_api = {(a["path"], a["kind"]): a for a in big.api}
    n = 0
    for c, f in loaded.items():
        if c == "all":
            continue
        for a in f.api:
            n += 1
            k = (a["path"], a["kind"])
            res.oblige(True)
            if k not in big_api:
                res.discharged -= 1
                res.violate("C20.R4", a["path"], "item missing", "public item of configuration %s is not reachable when all features are enabled" % c)
            elif a.get("sig") != big_api[k].get("sig"):
                res.discharged -= 1
                res.violate("C20.R4", a["path"], "signature differs", "signature in %s: %s; with all features: %s" % (c, a.get("sig"), big_api[k].get("sig")))
    # exhaustive public enums whose variant set depends on the configuration
    for path, adt in big.adts.items():
        if adt["kind"] != "Enum" or not adt["reachable"] or adt["non_exhaustive"]:
            continue
        allv = [v["name"] for v in adt["variants"]]
        for c, f in loaded.items():
            if c == "all" or path not in f.adts:
                continue
            have = set(v["name"] for v in f.adts[path]["variants"])
            for v in allv:
                res.oblige(True)
                n += 1
                if v not in have:
                    res.discharged -= 1
                    pub = _public_name(big, path)
                    res.violate("C20.R4", pub, v, "exhaustive public enum gains variant %s when features are added to configuration %s: a client's exhaustive match stops compiling (E0004)" % (v, c),
                                file=f.rel(adt["file"]), line=adt["line"])
    res.inst("C20.R4", "%d api items compared over %d configurations" % (n, len(loaded)))
    return n


def _public_name(facts, path):
    # crate::core::error::PasetoError -> rusty_paseto::core::PasetoError (public re-export path, stable key)
    parts = path.split("::")
    if parts[0] == "crate" and len(parts) >= 3:
        return "rusty_paseto::%s::%s" % (parts[1], parts[-1])
    return path


def run(tier):
    repo = F.REPO
    res = Result("C20", LEVEL)
    res.trusted = ["rustc / cargo (type checker and feature resolution)", "the generated smoke client stands for 'code that compiled without the feature'"]
    res.assumptions = ["dependencies resolve from the vendored registry cache exactly as Cargo.lock pins them"]
    t0 = time.time()
    ncfg, ok = run_matrix(res, tier, repo)
    t1 = time.time()
    nl = run_lint(res, repo)
    na = run_api(res, tier, repo)
    # R5: a necessary condition of "every enabled protocol round-trips" that the type checker does not see: shared constant tables gated per
    # protocol must hold the entry of every protocol the configuration enables (the header table, evaluated in each single-protocol build)
    from . import c07
    c07.header_table_configs(res, "C20.R5")
    res.floor("C20.R3", 40)
    res.floor("C20.R4", 1)
    res.explanation = ("type checker as oracle: %d feature configurations of a generated client crate exercising every enabled protocol at every enabled layer were "
                       "type-checked with cargo check (%d ok); %d cfg predicates linted for not(feature); %d api facts compared across 10 configurations") % (ncfg, ok, nl, na)
    res.extra = {"configurations": ncfg, "configurations_ok": ok, "cfg_predicates": nl, "api_comparisons": na,
                 "exhaustive": tier == "thorough", "matrix_wall_s": round(t1 - t0, 1),
                 "not_decided": "that every enabled protocol round-trips a token at run time (execution)"}
    res.samples = [{"configuration": n, "features": f} for n, f in configs(tier)[:6]]
    res.checker_cmd = "cargo check --offline --lib --no-default-features --features <set> (generated smoke crate)"
    return res
