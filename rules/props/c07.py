"""C07 Tokens are bound to their version and purpose."""
import re

from . import _proto
from .. import gates as G
from .. import mir as M
from .. import skeleton as S
from .. import protocol as PR

LEVEL = "other"
RULES = {"C07.R3", "C07.R4"}


def extra(res, facts, entries, protos):
    g = G.gates(facts)
    for pr in g.problems:
        res.violate("C07.R1", "Paseto::parse_raw_token", pr[1], pr[2], line=pr[3])
    _proto.gate_rule(res, "C07.R1", g.header_gate_ok(0), "every accepted token passed the equal edge of a comparison of segment 0 with the expected version", g)
    _proto.gate_rule(res, "C07.R1", g.header_gate_ok(1), "every accepted token passed the equal edge of a comparison of segment 1 with the expected purpose", g)
    _proto.gate_rule(res, "C07.R1", g.payload_ok(), "the returned payload is the strict base64url decoding of segment 2", g)
    # the gate is shared code: its configuration-dependent variants (`#[cfg]` / `cfg!` on the feature set - e.g. a build with one purpose
    # only) are decided too, on the default and the eight single-protocol configurations
    from .. import facts as F
    for cfg in ["default"] + list(F.PROTOCOLS):
        try:
            f2 = F.load(cfg)
        except F.ExtractError:
            res.notes.append("configuration %s does not type-check: header gate not evaluated there (C20 reports it)" % cfg)
            continue
        g2 = G.gates(f2)
        for i, what in ((0, "version"), (1, "purpose")):
            ok, why = g2.header_gate_ok(i)
            res.oblige(ok)
            if ok:
                res.inst("C07.R8", "[configuration %s] every accepted token passed the equal edge of a comparison of segment %d with the expected %s" % (cfg, i, what))
            else:
                res.violate("C07.R8", g2.body["id"] if g2.body else "Paseto::parse_raw_token", "[configuration %s] header gate (%s)" % (cfg, what), "in a build with features [%s]: %s" % (cfg, why or "gate not established"),
                            file=g2.v.file() if g2.body else None, line=g2.body["line"] if g2.body else None)
    res.floor("C07.R8", 18)
    # R2: each consumer calls parse_raw_token first, `?`-propagated, with its own version / purpose markers
    # (second opinion: only when the semantic rule C07.S6 - every accepting path of the consumer found the token's header equal to the
    # protocol's own - could not be decided)
    for e in (S.select(entries, "core", "consumer") if not getattr(res, "sem_ok", False) else []):
        v = M.view(facts, e.body)
        N = M.Normalizer(facts, keep=S.KEEP)
        calls = v.find_calls(r"parse_raw_token$")
        ok = len(calls) == 1
        msg = "expected exactly one parse_raw_token call, found %d" % len(calls)
        ln = e.body["line"]
        if ok:
            bi, t = calls[0]
            ln = t["ln"]
            ct = N.norm(v.call_term(t, bi))
            want_v = M.T("agg", "crate::core::version::%s::%s::%s" % (e.vp[0].lower(), e.vp[0], e.vp[0]), [M.T("fld", "0", (M.T("const", e.vp[0].lower()),))])
            want_p = M.T("agg", "crate::core::purpose::%s::%s::%s" % (e.vp[1].lower(), e.vp[1], e.vp[1]), [M.T("fld", "0", (M.T("const", e.vp[1].lower()),))])
            tok = ct.args[0].op == "param" and ct.args[0].name == 1
            ok = tok and ct.args[2] == want_v and ct.args[3] == want_p
            msg = "parse_raw_token must receive the token parameter and this protocol's own markers (%s, %s); found %s" % (e.vp[0].lower(), e.vp[1].lower(), M.show(ct)[:200])
            # first: it dominates every other call; `?`-propagated
            sites = [s for s in M.try_sites(v) if S.strip_result_wrappers(s["operand"]).op == "call" and re.search(r"parse_raw_token", S.strip_result_wrappers(s["operand"]).name)]
            first = all(v.cfg.dominates(bi, ob) for ob, ot in v.calls if not re.search(r"core::default::Default::default$", M.callee_trait_def(ot["callee"])))
            oks, errs, dele = S.ok_exits(v)
            gated = bool(sites) and v.cfg.must_pass(oks + [b for b, _ in dele], edges=[(s["switch_block"], s["cont"]) for s in sites])
            if ok and not (first and gated):
                ok = False
                msg = "parse_raw_token must run before anything else and its failure must be propagated with `?` (first=%s, gated=%s)" % (first, gated)
        res.oblige(ok)
        if ok:
            res.inst("C07.R2", "%s: parse_raw_token(token, footer, %s, %s)? first" % (e.label, e.vp[0].lower(), e.vp[1].lower()))
        else:
            res.violate("C07.R2", e.id, "header check call", msg, file=v.file(), line=ln)
    header_table(res, facts)
    header_table_configs(res, "C07.R9")
    header_writers(res, facts)


def header_table(res, facts):
    """R3: Header::<V, P>::default() evaluated (abstract interpretation with the type parameters bound) yields "vN.purpose." for the 8 protocols."""
    from .. import absint as A
    from .. import models as MD
    bs = S.impl_fns(facts, r"^crate::core::header::Header<Version, Purpose>$", r"^core::default::Default$", "default")
    if len(bs) != 1:
        res.violate("C07.R3", "Header::default", "anchor missing", "expected one Default impl for Header<Version, Purpose>, found %d" % len(bs))
        return
    b = bs[0]
    v = M.view(facts, b)
    got_all = []
    for (vv, pp) in S.PROTOS:
        want = PR.HEADER[(vv, pp)]
        I = A.Interp(facts, MD.MODELS)
        I.root_tparams = {"Version": "crate::core::version::%s::%s" % (vv.lower(), vv), "Purpose": "crate::core::purpose::%s::%s" % (pp.lower(), pp)}
        outs = I.run(b, [])
        vals = set()
        for o in outs:
            if o.kind != "return" or o.state.unmodelled:
                vals.add("undecided (%s)" % (o.state.unmodelled or o.value,))
                continue
            r = I.resolve(o.state, o.value)
            h = MD.deref(I, o.state, r.fields.get("header")) if isinstance(r, A.Struct) else None
            vals.add(h.s if isinstance(h, A.StrV) else repr(h))
        ok = vals == {want}
        res.oblige(ok)
        got_all += list(vals)
        if ok:
            res.inst("C07.R3", "Header::<%s, %s>::default().header = %r" % (vv, pp, want))
        else:
            res.violate("C07.R3", b["id"], "header for (%s, %s)" % (vv.lower(), pp.lower()), "Header::<%s, %s>::default() must carry %r; abstract evaluation gives %s" % (vv, pp, want, sorted(vals)), file=v.file(), line=b["line"])
    if len(set(got_all)) != len(got_all):
        res.violate("C07.R3", b["id"], "header strings not distinct", "two protocols share a header string: %s" % sorted(got_all), file=v.file(), line=b["line"])


def header_table_configs(res, rule):
    """the same evaluation in the default and the eight single-protocol configurations, for the protocols each of them enables: the header
    table is shared code and may be cfg-gated per protocol (a v3.public entry gated on v3_local compiles everywhere and yields "" in a
    build with v3_public alone)"""
    from .. import absint as A
    from .. import models as MD
    from .. import facts as F
    for cfg in ["default"] + list(F.PROTOCOLS):
        try:
            f2 = F.load(cfg)
        except F.ExtractError:
            res.notes.append("configuration %s does not type-check: header table not evaluated there (C20 reports it)" % cfg)
            continue
        protos = [("V4", "Local"), ("V4", "Public")] if cfg == "default" else [(cfg[:2].upper(), cfg[3:].capitalize())]
        bs = S.impl_fns(f2, r"^crate::core::header::Header<Version, Purpose>$", r"^core::default::Default$", "default")
        if len(bs) != 1:
            res.oblige(False)
            res.violate(rule, "Header::default", "[configuration %s] anchor missing" % cfg, "expected one Default impl for Header<Version, Purpose> in configuration %s, found %d" % (cfg, len(bs)))
            continue
        b = bs[0]
        v = M.view(f2, b)
        for (vv, pp) in protos:
            want = PR.HEADER[(vv, pp)]
            I = A.Interp(f2, MD.MODELS)
            I.root_tparams = {"Version": "crate::core::version::%s::%s" % (vv.lower(), vv), "Purpose": "crate::core::purpose::%s::%s" % (pp.lower(), pp)}
            vals = set()
            for o in I.run(b, []):
                if o.kind != "return" or o.state.unmodelled:
                    vals.add("undecided (%s)" % (o.state.unmodelled or o.value,))
                    continue
                r = I.resolve(o.state, o.value)
                h = MD.deref(I, o.state, r.fields.get("header")) if isinstance(r, A.Struct) else None
                vals.add(h.s if isinstance(h, A.StrV) else repr(h))
            ok = vals == {want}
            res.oblige(ok)
            if ok:
                res.inst(rule, "[configuration %s] Header::<%s, %s>::default().header = %r" % (cfg, vv, pp, want))
            else:
                res.violate(rule, b["id"], "[configuration %s] header for (%s, %s)" % (cfg, vv.lower(), pp.lower()),
                            "in a build with features [%s] Header::<%s, %s>::default() must carry %r; abstract evaluation gives %s: tokens are written / expected with another header" % (cfg, vv, pp, want, sorted(vals)),
                            file=v.file(), line=b["line"])
    res.floor(rule, 10)


def header_writers(res, facts):
    """R4 support: Paseto.header is written only by construction from Header::default (derive(Default) / builder())."""
    n = 0
    for bid, b in facts.bodies.items():
        v = M.view(facts, b)
        for w in M.field_writes(v):
            if w["adt"].endswith("paseto::Paseto") and w["field"] == "header":
                res.oblige(False)
                res.violate("C07.R4", bid, "write to Paseto.header", "the token builder's header is assigned outside its constructor", file=v.file(), line=w["ln"])
        for blk in b["blocks"]:
            for st in blk["stmts"]:
                if st["k"] == "assign" and st["rv"]["k"] == "aggregate" and st["rv"].get("adt", "").endswith("paseto::Paseto"):
                    t = v.op_term(st["rv"]["fields"][st["rv"]["field_names"].index("header")])
                    ok = t.op == "call" and bool(re.search(r"Header<.*> as core::default::Default>::default$", t.name)) or (t.op == "field" and t.name == "header") or \
                        (t.op == "call" and bool(re.search(r"Header<.*> as core::clone::Clone>::clone$", t.name)) and t.args[0].op == "field" and t.args[0].name == "header")
                    res.oblige(ok)
                    n += 1
                    if ok:
                        res.inst("C07.R4", "%s constructs Paseto{header: %s}" % (M.short(bid), M.show(t)[:60]))
                    else:
                        res.violate("C07.R4", bid, "Paseto constructed with a foreign header", "Paseto.header must be Header::<V, P>::default(); found %s" % M.show(t)[:120], file=v.file(), line=st["ln"])


def run(tier):
    return _proto.run_rules(
        "C07", LEVEL, RULES,
        {"C07.R1": 3, "C07.R2": 8, "C07.R3": 18 + 8, "C07.R4": 18},
        "must-pass-through on parse_raw_token (both header components compared on every accepting path), call-site terms of the 8 consumers (own version / purpose markers, checked first, `?`-propagated), "
        "constant tables of the 6 marker types and the 8 header strings, and the protocol's own header as first authenticated component of all 16 pre-authentication encodings",
        ["MAC / signature strength (a relabelled token fails authentication because the header is under the authenticator)", "segments produced by str::split('.') contain no '.'"],
        extra, "that a relabelled token fails authentication (follows from R4 + MAC strength)", sem_rules={'C07.S4': 8, 'C07.S5': 24, 'C07.S6': 8})
