"""C07 Tokens are bound to their version and purpose."""
import re

from . import _proto
from .. import gates as G
from .. import mir as M
from .. import skeleton as S
from .. import protocol as PR

LEVEL = "other"
RULES = {"C07.R3", "C07.R4"}


def extra(res, facts, entries, protos):
    g = G.gates(facts)
    for pr in g.problems:
        res.violate("C07.R1", "Paseto::parse_raw_token", pr[1], pr[2], line=pr[3])
    _proto.gate_rule(res, "C07.R1", g.header_gate_ok(0), "every accepted token passed the equal edge of a comparison of segment 0 with the expected version", g)
    _proto.gate_rule(res, "C07.R1", g.header_gate_ok(1), "every accepted token passed the equal edge of a comparison of segment 1 with the expected purpose", g)
    _proto.gate_rule(res, "C07.R1", g.payload_ok(), "the returned payload is the strict base64url decoding of segment 2", g)
    # R2: each consumer calls parse_raw_token first, `?`-propagated, with its own version / purpose markers
    for e in S.select(entries, "core", "consumer"):
        v = M.view(facts, e.body)
        N = M.Normalizer(facts, keep=S.KEEP)
        calls = v.find_calls(r"parse_raw_token$")
        ok = len(calls) == 1
        msg = "expected exactly one parse_raw_token call, found %d" % len(calls)
        ln = e.body["line"]
        if ok:
            bi, t = calls[0]
            ln = t["ln"]
            ct = N.norm(v.call_term(t, bi))
            want_v = M.T("agg", "crate::core::version::%s::%s::%s" % (e.vp[0].lower(), e.vp[0], e.vp[0]), [M.T("fld", "0", (M.T("const", e.vp[0].lower()),))])
            want_p = M.T("agg", "crate::core::purpose::%s::%s::%s" % (e.vp[1].lower(), e.vp[1], e.vp[1]), [M.T("fld", "0", (M.T("const", e.vp[1].lower()),))])
            tok = ct.args[0].op == "param" and ct.args[0].name == 1
            ok = tok and ct.args[2] == want_v and ct.args[3] == want_p
            msg = "parse_raw_token must receive the token parameter and this protocol's own markers (%s, %s); found %s" % (e.vp[0].lower(), e.vp[1].lower(), M.show(ct)[:200])
            # first: it dominates every other call; `?`-propagated
            sites = [s for s in M.try_sites(v) if S.strip_result_wrappers(s["operand"]).op == "call" and re.search(r"parse_raw_token", S.strip_result_wrappers(s["operand"]).name)]
            first = all(v.cfg.dominates(bi, ob) for ob, ot in v.calls if not re.search(r"core::default::Default::default$", M.callee_trait_def(ot["callee"])))
            oks, errs, dele = S.ok_exits(v)
            gated = bool(sites) and v.cfg.must_pass(oks + [b for b, _ in dele], edges=[(s["switch_block"], s["cont"]) for s in sites])
            if ok and not (first and gated):
                ok = False
                msg = "parse_raw_token must run before anything else and its failure must be propagated with `?` (first=%s, gated=%s)" % (first, gated)
        res.oblige(ok)
        if ok:
            res.inst("C07.R2", "%s: parse_raw_token(token, footer, %s, %s)? first" % (e.label, e.vp[0].lower(), e.vp[1].lower()))
        else:
            res.violate("C07.R2", e.id, "header check call", msg, file=v.file(), line=ln)
    header_table(res, facts)
    header_writers(res, facts)


def header_table(res, facts):
    """R3: Header::<V, P>::default maps (version string, purpose string) to the static whose literal is "vN.purpose."."""
    bs = S.impl_fns(facts, r"^crate::core::header::Header<Version, Purpose>$", r"^core::default::Default$", "default")
    if len(bs) != 1:
        res.violate("C07.R3", "Header::default", "anchor missing", "expected one Default impl for Header<Version, Purpose>, found %d" % len(bs))
        return
    b = bs[0]
    v = M.view(facts, b)
    N = M.Normalizer(facts, keep=[])
    # decision structure: chains of `<str as PartialEq>::eq(version_str, const)` / purpose; each arm assigns a static
    arms = {}
    sws = M.bool_switches(v)
    eqs = {}
    for sw in sws:
        t = N.norm(sw["term"])
        eq = M.as_equality(t)
        if eq and sw["ty"] == "bool":
            a, bb, pos, kind = eq
            const = a if a.op == "const" else bb
            other = bb if a.op == "const" else a
            nm = M.show(other)
            which = "version" if ("<Version as" in nm and "<Purpose as" not in nm) else ("purpose" if ("<Purpose as" in nm and "<Version as" not in nm) else None)
            tr, fl = M.truth_edges(sw)
            eqs[sw["block"]] = (which, const.name if const.op == "const" else None, tr if pos else fl, fl if pos else tr)
    # walk from entry following equal edges to enumerate (version, purpose) -> header constant
    hdr_local = None
    table = {}

    def static_assigned(block):
        for st in v.body["blocks"][block]["stmts"]:
            if st["k"] == "assign":
                t = N.norm(v.rv_term(st["rv"]))
                if t.op == "const" and isinstance(t.name, str) and t.meta.get("static"):
                    return t.name, t.meta["static"]
                if t.op == "const" and isinstance(t.name, str) and st["rv"]["k"] == "use" and st["rv"]["op"]["k"] == "const" and "str" in st["rv"]["op"]:
                    return t.name, None
        return None

    def walk(block, ver, pur, depth):
        if depth > 60:
            return
        sa = static_assigned(block)
        if sa is not None:
            table.setdefault((ver, pur), set()).add(sa[0])
            return
        if block in eqs:
            which, lit, eq_t, ne_t = eqs[block]
            if which == "version":
                walk(eq_t, lit, pur, depth + 1)
                walk(ne_t, ver, pur, depth + 1)
            elif which == "purpose":
                walk(eq_t, ver, lit, depth + 1)
                walk(ne_t, ver, pur, depth + 1)
            return
        for s2 in v.cfg.succ[block]:
            walk(s2, ver, pur, depth + 1)
    walk(0, None, None, 0)
    n = 0
    for (vv, pp) in S.PROTOS:
        want = PR.HEADER[(vv, pp)]
        got = table.get((vv.lower(), pp.lower()))
        ok = got == {want}
        res.oblige(ok)
        if ok:
            n += 1
            res.inst("C07.R3", "Header::default: (%s, %s) -> %r" % (vv.lower(), pp.lower(), want))
        else:
            res.violate("C07.R3", b["id"], "header for (%s, %s)" % (vv.lower(), pp.lower()), "Header::default must map (%s, %s) to %r; the decision structure yields %s" % (vv.lower(), pp.lower(), want, sorted(got) if got else "nothing (unrecognised table shape, fail closed)"),
                        file=v.file(), line=b["line"])
    vals = [x for k, s in table.items() if k[0] and k[1] for x in s]
    if len(set(vals)) != len(vals):
        res.violate("C07.R3", b["id"], "header strings not distinct", "two protocols share a header string: %s" % sorted(vals), file=v.file(), line=b["line"])


def header_writers(res, facts):
    """R4 support: Paseto.header is written only by construction from Header::default (derive(Default) / builder())."""
    n = 0
    for bid, b in facts.bodies.items():
        v = M.view(facts, b)
        for w in M.field_writes(v):
            if w["adt"].endswith("paseto::Paseto") and w["field"] == "header":
                res.oblige(False)
                res.violate("C07.R4", bid, "write to Paseto.header", "the token builder's header is assigned outside its constructor", file=v.file(), line=w["ln"])
        for blk in b["blocks"]:
            for st in blk["stmts"]:
                if st["k"] == "assign" and st["rv"]["k"] == "aggregate" and st["rv"].get("adt", "").endswith("paseto::Paseto"):
                    t = v.op_term(st["rv"]["fields"][st["rv"]["field_names"].index("header")])
                    ok = t.op == "call" and bool(re.search(r"Header<.*> as core::default::Default>::default$", t.name)) or (t.op == "field" and t.name == "header") or \
                        (t.op == "call" and bool(re.search(r"Header<.*> as core::clone::Clone>::clone$", t.name)) and t.args[0].op == "field" and t.args[0].name == "header")
                    res.oblige(ok)
                    n += 1
                    if ok:
                        res.inst("C07.R4", "%s constructs Paseto{header: %s}" % (M.short(bid), M.show(t)[:60]))
                    else:
                        res.violate("C07.R4", bid, "Paseto constructed with a foreign header", "Paseto.header must be Header::<V, P>::default(); found %s" % M.show(t)[:120], file=v.file(), line=st["ln"])


def run(tier):
    return _proto.run_rules(
        "C07", LEVEL, RULES,
        {"C07.R1": 3, "C07.R2": 8, "C07.R3": 18 + 8, "C07.R4": 18},
        "must-pass-through on parse_raw_token (both header components compared on every accepting path), call-site terms of the 8 consumers (own version / purpose markers, checked first, `?`-propagated), "
        "constant tables of the 6 marker types and the 8 header strings, and the protocol's own header as first authenticated component of all 16 pre-authentication encodings",
        ["MAC / signature strength (a relabelled token fails authentication because the header is under the authenticator)", "segments produced by str::split('.') contain no '.'"],
        extra, "that a relabelled token fails authentication (follows from R4 + MAC strength)")
