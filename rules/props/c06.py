"""C06 v3/v4 implicit assertions bind the token without appearing in it."""
import re

from . import _proto
from .. import skeleton as S
from .. import mir as M
from ..mir import T

LEVEL = "other"
RULES = {"C06.R1", "C06.R4", "C06.R5"}


def extra(res, facts, entries, protos):
    # R7: a clone of the builder / carrier types keeps the implicit assertion (and everything else) set on the original
    _proto.clone_rule(res, "C06.R7", facts)
    # R2 non-interference with the token text: on producer sides the only use of self.implicit_assertion is the PAE component
    # (decided on the token's symbolic description - C06.S3 - when the semantic engine followed every path)
    for (role, vp), pr in sorted(protos.items()):
        if role != "producer" or vp[0] not in ("V3", "V4") or getattr(res, "sem_ok", False):
            continue
        v = pr.v
        uses = []
        for bi in sorted(v.cfg.reach):
            b = v.body["blocks"][bi]
            for st in b["stmts"]:
                if st["k"] != "assign":
                    continue
                uses += _field_reads(st["rv"], "implicit_assertion")
            t = b["term"]
            if t["k"] == "call":
                for a in t["args"]:
                    uses += _op_reads(a, "implicit_assertion")
        ok_single = len(uses) == 1
        # token text = format_token(raw payload); raw payload built from (nonce, ciphertext, tag) / (payload, signature): the assertion may only occur below the tag / signature
        ft = v.find_calls(r"format_token$")
        ok_text = False
        detail = ""
        if len(ft) == 1:
            bi, t = ft[0]
            ct = pr.N.norm(v.call_term(t, bi))
            rp = ct.args[1]
            ia = T("field", "implicit_assertion", (T("param", pr.params.get("self")),))
            paths = _paths_to(rp, ia)
            # every occurrence must sit under Tag::from(..) or a signing call, i.e. inside a fixed-length authenticator
            ok_text = bool(paths) and all(any(re.search(r"tag::Tag<.*>>::(from|try_from|new|try_new)|Signer.*::sign|try_sign_digest|sign_digest|RsaKeyPair::sign|SigningKey.*::sign", n) for n in p) for p in paths)
            detail = "; ".join(" > ".join(M.short(n)[:40] for n in p[-4:]) for p in paths[:3])
        res.oblige(ok_single and ok_text)
        if ok_single and ok_text:
            res.inst("C06.R2", "%s: self.implicit_assertion is read once (the PAE component) and reaches the token only below the tag / signature" % pr.e.label)
        else:
            res.violate("C06.R2", pr.e.id, "assertion flows into the token text", "the implicit assertion must only enter the fixed-length tag / signature; reads=%d, paths=%s" % (len(uses), detail or "none found"), file=v.file(), line=pr.e.body["line"])
    # format_token reads only header and footer of self
    bs = [b for bid, b in facts.bodies.items() if re.search(r"paseto::Paseto::<'a, Version, Purpose>::format_token$", bid)]
    if getattr(res, "sem_ok", False):
        pass    # decided by C06.S3 (the assertion occurs in the produced token only below the tag / signature)
    elif len(bs) != 1:
        res.violate("C06.R2", "Paseto::format_token", "anchor missing", "expected one format_token")
    else:
        v = M.view(facts, bs[0])
        reads = set()
        for bi in sorted(v.cfg.reach):
            for st in v.body["blocks"][bi]["stmts"]:
                if st["k"] == "assign":
                    for f in _all_field_reads(st["rv"]):
                        reads.add(f)
            t = v.body["blocks"][bi]["term"]
            if t["k"] == "call":
                for a in t["args"]:
                    for f in _all_op_reads(a):
                        reads.add(f)
        own = set(f for adt, f in reads if adt.endswith("paseto::Paseto"))
        ok = own <= {"header", "footer"}
        res.oblige(ok)
        if ok:
            res.inst("C06.R2", "format_token reads only %s of the builder" % sorted(own))
        else:
            res.violate("C06.R2", bs[0]["id"], "format_token reads " + ",".join(sorted(own - {"header", "footer"})), "format_token must only write header, payload and footer", file=v.file(), line=bs[0]["line"])
    # R3 PAE framing: each call passes one array literal (count = number of pieces, each piece length-prefixed inside parse - trusted, pinned by vectors)
    n = 0
    for bid, b in facts.bodies.items():
        for p in S.pae_sites(facts, b):
            n += 1
            ok = p["components"] is not None
            res.oblige(ok)
            if ok:
                res.inst("C06.R3", "%s: PAE::parse(&[%d pieces])" % (M.short(bid), len(p["components"])))
            else:
                res.violate("C06.R3", bid, "PAE argument is not an array literal", "PreAuthenticationEncoding::parse must receive an array literal of pieces", file=M.view(facts, b).file(), line=p["ln"])
    # R6: the encoding under the tag is injective in the piece list (an empty footer next to assertion A is not the footer A next to an empty assertion)
    from . import c08_fpai
    c08_fpai.pae(res, facts, rule="C06.R6")
    # gated setters: set_implicit_assertion exists only in impls bounded by ImplicitAssertionCapable
    for b in facts.bodies.values():
        if b["kind"] == "AssocFn" and b.get("name") == "set_implicit_assertion":
            preds = " ".join(b.get("predicates", [])) + " " + " ".join(b.get("impl_predicates", []))
            ok = "ImplicitAssertionCapable" in preds
            res.oblige(ok)
            if ok:
                res.inst("C06.R4", "%s is bounded by ImplicitAssertionCapable" % M.short(b["id"]))
            else:
                res.violate("C06.R4", b["id"], "set_implicit_assertion without the V3/V4 bound", "set_implicit_assertion must live in an impl bounded by Version: ImplicitAssertionCapable", file=M.view(facts, b).file(), line=b["line"])


def _impl_preds(facts, b):
    imp = b.get("impl")
    for i in facts.impls:
        if i["path"] == imp:
            return i["predicates"]
    return []


def _place_fields(pl):
    return [(pr.get("adt", ""), pr.get("name")) for pr in pl["p"] if pr["k"] == "field"]


def _op_reads(op, field):
    if op["k"] in ("copy", "move"):
        return [1 for adt, f in _place_fields(op["place"]) if f == field and adt.endswith("paseto::Paseto")]
    return []


def _field_reads(rv, field):
    out = []
    for key in ("op", "l", "r", "x"):
        if key in rv and isinstance(rv[key], dict):
            out += _op_reads(rv[key], field)
    if "place" in rv:
        out += [1 for adt, f in _place_fields(rv["place"]) if f == field and adt.endswith("paseto::Paseto")]
    for f in rv.get("fields", []):
        out += _op_reads(f, field)
    return out


def _all_op_reads(op):
    if op["k"] in ("copy", "move"):
        return _place_fields(op["place"])
    return []


def _all_field_reads(rv):
    out = []
    for key in ("op", "l", "r", "x"):
        if key in rv and isinstance(rv[key], dict):
            out += _all_op_reads(rv[key])
    if "place" in rv:
        out += _place_fields(rv["place"])
    for f in rv.get("fields", []):
        out += _all_op_reads(f)
    return out


def _paths_to(t, target, path=None):
    """call-name paths from the root of t to every occurrence of `target`"""
    path = path or []
    if not isinstance(t, T):
        return []
    if t == target:
        return [list(path)]
    out = []
    here = path + ([t.name] if t.op == "call" else [])
    for a in t.args:
        out += _paths_to(a, target, here)
    return out


def run(tier):
    return _proto.run_rules(
        "C06", LEVEL, RULES,
        {"C06.R1": 16, "C06.R2": 1, "C06.R3": 16, "C06.R4": 13 + 5, "C06.R5": 3, "C06.R6": 2},
        "provenance terms and field-read sets: the assertion is the last PAE component of the 8 v3/v4 core entry points (caller's value on consumer sides, builder's own on producer sides, absent == empty through unwrap_or_default); "
        "dataflow non-interference: on producer sides it is read once and reaches the token text only below the fixed-length tag / signature, format_token reads only header and footer; "
        "the ImplicitAssertion carrier is the identity on content; wrappers and setters forward it; set_implicit_assertion exists only under ImplicitAssertionCapable",
        ["MAC / signature strength: another assertion yields another tag", "PreAuthenticationEncoding::parse / le64 are evaluated abstractly (R6, shared with C08.R7): LE64(count) || (LE64(len) || piece)* - an injective framing"],
        extra, "that any other assertion fails authentication (MAC / signature strength)", sem_rules={'C06.S1': 4, 'C06.S2': 4, 'C06.S3': 4})
