"""Extra C08 rules: key-split constants (R2). R6 (footer segment iff non-empty) and R7 (PAE encoding) are added by the abstract interpreter."""
import re

from .. import mir as M
from .. import skeleton as S
from .. import protocol as PR
from ..mir import T


def run(res, facts, entries, protos):
    if not getattr(res, "sem_ok", False):
        key_split(res, facts)      # the constants of the key split are part of "producer == specification" (C08.S1) when that was decided
    try:
        from . import c08_fpai
        c08_fpai.run(res, facts)
    except ImportError:
        pass


def key_split(res, facts):
    """R2: domain separation strings and the per-version split."""
    N = M.Normalizer(facts, keep=[])
    for name, lit in (("encryption_key_separator::EncryptionKeySeparator", PR.SEP_ENC), ("authentication_key_separator::AuthenticationKeySeparator", PR.SEP_AUTH)):
        bs = S.impl_fns(facts, r"^crate::core::common::" + re.escape(name) + "$", r"^core::default::Default$", "default")
        ok = False
        msg = "Default impl not found"
        if len(bs) == 1:
            rt = N.norm(M.view(facts, bs[0]).return_term())
            ok = rt.op == "agg" and rt.args[0].args[0] == T("const", lit)
            msg = "found %s" % M.show(rt)[:100]
        res.oblige(ok)
        if ok:
            res.inst("C08.R2", "%s = %r (%d bytes)" % (name.split("::")[-1], lit, len(lit)))
        else:
            res.violate("C08.R2", name, "domain separation string", "must be %r; %s" % (lit, msg), file=M.view(facts, bs[0]).file() if bs else None, line=bs[0]["line"] if bs else None)
        # separator + nonce = separator bytes || nonce bytes
        ab = S.impl_fns(facts, r"^crate::core::common::" + re.escape(name) + "$", r"^core::ops::arith::Add<", "add")
        ok = False
        msg = "Add impl not found"
        if len(ab) == 1:
            v = M.view(facts, ab[0])
            rt = N.norm(v.return_term())
            n = len(lit)
            parts = [m for m in rt.walk() if m.op == "part"]
            ok = len(parts) == 2 and parts[0].args[1] == T("field", "0", (T("param", 1),)) and PR.const_int(M.mk_field(parts[0].args[0], "end")) == n and \
                parts[1].args[1] == T("field", "key", (T("param", 2),)) and PR.const_int(M.mk_field(parts[1].args[0], "start")) == n
            msg = "found %s" % M.show(rt)[:200]
        res.oblige(ok)
        if ok:
            res.inst("C08.R2", "%s + nonce = separator[..%d] || nonce" % (name.split("::")[-1], len(lit)))
        else:
            res.violate("C08.R2", name, "separator || nonce", "the key-derivation message must be the separator followed by the nonce; %s" % msg, file=M.view(facts, ab[0]).file() if ab else None, line=ab[0]["line"] if ab else None)
    # per-version derivation constants
    table = {
        ("V1", "authentication_key"): {"prim": r"ring::hkdf::Salt::extract", "salt": ("nonce", 0, 16), "info": "param1", "out": 32},
        ("V1", "encryption_key"): {"prim": r"ring::hkdf::Salt::extract", "salt": ("nonce", 0, 16), "info": "param1", "out": 32, "ctr": ("nonce", 16, None)},
        ("V3", "authentication_key"): {"prim": r"ring::hkdf::Salt::extract", "salt": "empty", "info": "param1", "out": 48},
        ("V3", "encryption_key"): {"prim": r"ring::hkdf::Salt::extract", "salt": "empty", "info": "param1", "out": 48, "ek": (0, 32), "n2": (32, None)},
        ("V4", "authentication_key"): {"prim": r"blake2::Blake2bMac<U32>", "out": 32},
        ("V4", "encryption_key"): {"prim": r"blake2::Blake2bMac<U56>", "out": 56, "ek": (0, 32), "n2": (32, 56)},
    }
    for (V, what), spec in sorted(table.items()):
        pat = r"^crate::core::common::%s::%s<crate::core::version::%s::%s, crate::core::purpose::local::Local>$" % (what, "".join(w.capitalize() for w in what.split("_")), V.lower(), V)
        bs = [b for b in S.impl_fns(facts, pat, None, "from") + S.impl_fns(facts, pat, None, "try_from")]
        if len(bs) != 1:
            res.oblige(False)
            res.violate("C08.R2", "%s %s" % (V, what), "derivation function missing", "expected one derivation function, found %d" % len(bs))
            continue
        b = bs[0]
        v = M.view(facts, b)
        Nk = M.Normalizer(facts, keep=S.KEEP)
        names = " ".join(M.callee_name(t["callee"]) for _, t in v.calls)
        ok = bool(re.search(spec["prim"], names))
        why = []
        if not ok:
            why.append("primitive %s not used" % spec["prim"])
        if "salt" in spec:
            hk = "HKDF_SHA384" in M.show(Nk.norm(v.return_term())) or any("HKDF_SHA384" in M.show(Nk.norm(v.call_term(t, bi))) for bi, t in v.find_calls(r"ring::hkdf::Salt::new$"))
            if not hk:
                ok = False
                why.append("HKDF algorithm is not HKDF_SHA384")
            for bi, t in v.find_calls(r"ring::hkdf::Salt::new$"):
                salt = Nk.norm(v.op_term(t["args"][1]))
                if spec["salt"] == "empty":
                    good = salt.op == "agg" and not salt.args or (salt.op == "const" and salt.name in (b"", "")) or M.show(salt) in ("(array){}",)
                else:
                    good = salt.op == "call" and bool(re.search(r"RangeTo<usize>", salt.name)) and PR.const_int(M.mk_field(salt.args[1], "end")) == 16 and salt.args[0] == T("field", "key", (T("param", 3),))
                if not good:
                    ok = False
                    why.append("salt is %s" % M.show(salt)[:80])
            outs = [Nk.norm(v.op_term(t["args"][2])) for bi, t in v.find_calls(r"ring::hkdf::Prk::expand")]
            if not outs or any(M.mk_field(o, "0") != T("const", spec["out"]) for o in outs):
                ok = False
                why.append("HKDF output length is %s, expected %d" % ([M.show(o)[:40] for o in outs], spec["out"]))
            infos = [Nk.norm(v.op_term(t["args"][1])) for bi, t in v.find_calls(r"ring::hkdf::Prk::expand")]
            for i in infos:
                if not (i.op == "agg" and len(i.args) == 1 and i.args[0].args[0] in (T("field", "0", (T("param", 1),)), T("param", 1))):
                    ok = False
                    why.append("HKDF info is %s, expected [message]" % M.show(i)[:80])
        rt = Nk.norm(v.return_term())
        aggs = [x for x in rt.walk() if x.op == "agg" and re.search(r"(AuthenticationKey|EncryptionKey)::", str(x.name))]
        if not aggs:
            ok = False
            why.append("result aggregate not found")
        else:
            a = aggs[0]
            keyt = M.mk_field(a, "key")
            def rng(t):
                c = t
                if c.op == "call" and re.search(r"Index<core::ops::range::(RangeTo|Range|RangeFrom)<usize>>", c.name):
                    r = c.args[1]
                    st = PR.const_int(M.mk_field(r, "start")) if "RangeTo" not in str(r.name) else 0
                    en = PR.const_int(M.mk_field(r, "end")) if "RangeFrom" not in str(r.name) else None
                    return (st, en)
                return None
            if "ek" in spec and rng(keyt) != spec["ek"]:
                ok = False
                why.append("Ek slice is %s, expected %s" % (rng(keyt), spec["ek"]))
            if "ek" not in spec and rng(keyt) is not None:
                ok = False
                why.append("key is sliced %s" % (rng(keyt),))
            if "n2" in spec or "ctr" in spec:
                nt = M.mk_field(a, "nonce")
                want = spec.get("n2") or (spec["ctr"][1], spec["ctr"][2])
                if rng(nt) != want:
                    ok = False
                    why.append("counter nonce slice is %s, expected %s" % (rng(nt), want))
        res.oblige(ok)
        if ok:
            res.inst("C08.R2", "%s %s: %s" % (V, what, {k: v2 for k, v2 in spec.items()}))
        else:
            res.violate("C08.R2", b["id"], "key split constants", "; ".join(why), file=v.file(), line=b["line"])
    res.floor("C08.R2", 10)
