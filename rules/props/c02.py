"""C02 Public tokens verify back to exactly the message that was signed (structural necessary conditions)."""
from . import _proto

LEVEL = "other"
RULES = {"C02.R1", "C02.R2", "C02.R3", "C02.R4", "C02.R5", "C02.R6", "C02.R7", "C02.R9"}


def extra(res, facts, entries, protos):
    _proto.state_rule(res, "C02.R10", facts, entries)
    _proto.refusal_rules(res, "C02.R8", facts)
    from .. import keys_sem
    for f in keys_sem.v3_public_key_admission(facts, "C02.S11"):
        res.oblige(bool(f.ok))
        if f.ok:
            res.inst(f.rule, f.desc)
        else:
            res.violate(f.rule, f.where, f.construct, f.msg if f.ok is False else "not decided (fail closed): " + f.msg, file=f.file, line=f.line)
    res.floor("C02.S11", 2)


def run(tier):
    return _proto.run_rules(
        "C02", LEVEL, RULES,
        {"C02.R1": 4, "C02.R2": 12, "C02.R3": 4, "C02.R4": 4, "C02.R5": 26, "C02.R6": 5, "C02.R8": 2, "C02.R9": 4},
        "sibling agreement between try_sign and try_verify of the 4 public protocols: the consumer cuts the message at len - (signature length of the specification), the length guard rejects only "
        "payloads shorter than a signature, both sides authenticate the same PAE component list (v3: compressed public key first), the producer emits message || signature(PAE); wrappers forward key, footer, assertion",
        ["correctness of RSA-PSS (ring), Ed25519 (ed25519-dalek) and ECDSA P-384 (p384): verify(sign(m)) holds for a valid key pair"],
        extra, "signature scheme correctness and key-pair validity (cryptographic / run time)", sem_rules={'C02.S0': 4, 'C02.S1': 4, 'C02.S9': 4})
