"""C08.R6 (footer segment iff the footer is non-empty) and C08.R7 (PAE = LE64(count) || (LE64(len) || piece)*) decided by
abstract interpretation of format_token, PreAuthenticationEncoding::le64 and ::parse."""
import re

from .. import absint as A
from .. import models as MD
from .. import mir as M


def run(res, facts):
    if not getattr(res, "sem_ok", False):
        # second opinion only (producer == specification, C08.S1, covers the token text of all 8 producers)
        format_token(res, facts)
        res.floor("C08.R6", 3)
    pae(res, facts)
    res.floor("C08.R7", 2)


def format_token(res, facts, rule="C08.R6"):
    bs = [b for bid, b in facts.bodies.items() if re.search(r"paseto::Paseto::<'a, Version, Purpose>::format_token$", bid)]
    if len(bs) != 1:
        res.violate(rule, "Paseto::format_token", "anchor missing", "expected one format_token")
        return
    b = bs[0]
    v = M.view(facts, b)
    cases = [("no footer", A.none(), False), ("empty footer", A.some(A.Struct("crate::core::footer::Footer", None, {"0": A.StrV("")})), False),
             ("non-empty footer", A.some(A.Struct("crate::core::footer::Footer", None, {"0": A.Seq("F", A.Aff.sym("len(F)"), kind="str")})), True)]
    for name, foot, want_segment in cases:
        st = A.State()
        st.bounds["len(F)"] = (1, A.LEN_MAX)
        me = A.Struct("crate::core::paseto::Paseto", None, {"header": A.Struct("crate::core::header::Header", None, {"header": A.StrV("HDR")}), "payload": A.Sym("payload"),
                                                            "footer": foot, "implicit_assertion": A.Sym("assertion")})
        c = st.new_cell(me)
        I = A.Interp(facts, MD.MODELS)
        outs = I.run(b, [A.Ptr(c), A.Seq("P", A.Aff.sym("len(P)"), kind="str")], st)
        okk = True
        why = []
        if not outs:
            okk = False
            why.append("no outcome")
        for o in outs:
            if o.kind != "return" or o.state.unmodelled or not isinstance(o.value, A.Seq) or o.value.chunks is None:
                okk = False
                why.append("undecided: %r (unmodelled %s)" % (o, o.state.unmodelled))
                continue
            ch = o.value.chunks
            shape = []
            for c_ in ch:
                kind, x = c_[0], c_[1]
                if kind == "lit":
                    shape.append("<header>" if x == "HDR" else x)
                elif isinstance(x, A.StrV):
                    shape.append("<header>" if x.s == "HDR" else repr(x.s))
                elif isinstance(x, A.Seq) and x.name == "P":
                    shape.append("<payload>")
                elif isinstance(x, A.Seq) and x.name == "b64":
                    src = x.attrs.get("b64_of")
                    inner = src.fields.get("0") if isinstance(src, A.Struct) else src
                    good = isinstance(inner, A.Seq) and inner.name == "F" and "URL_SAFE_NO_PAD" in x.attrs.get("engine", "")
                    shape.append("<b64url(footer)>" if good else "<b64 of %r with %s>" % (src, x.attrs.get("engine")))
                else:
                    shape.append("<%r>" % (x,))
            want = ["<header>", "<payload>"] + ([".", "<b64url(footer)>"] if want_segment else [])
            if shape != want:
                okk = False
                why.append("token text is %s, the specification's is %s" % ("".join(shape), "".join(want)))
        res.oblige(okk)
        if okk:
            res.inst(rule, "format_token with %s -> %s" % (name, "header payload '.' b64url(footer)" if want_segment else "header payload (no footer segment)"))
        else:
            res.violate(rule, b["id"], "token text with " + name, "; ".join(why)[:500], file=v.file(), line=b["line"])


def pae(res, facts, rule="C08.R7"):
    def find(name, sigpat):
        c_ = [b for bid, b in facts.bodies.items() if "pre_authentication_encoding" in bid and bid.rsplit("::", 1)[-1] == name]
        if len(c_) != 1:
            c_ = [b for bid, b in facts.bodies.items() if "pre_authentication_encoding" in bid and re.search(sigpat, b.get("sig", ""))]
        return c_[0] if len(c_) == 1 else None
    le = find("le64", r"^fn\(u64\) -> alloc::vec::Vec<u8>$")
    pa = find("parse", r"fn\(&'\w+ \[&'\w+ \[u8\]\]\) -> crate::core::common::pre_authentication_encoding::PreAuthenticationEncoding$")
    if (le is None or pa is None) and getattr(res, "sem_ok", False):
        # the encoding is evaluated in place by the semantic engine: every producer's pre-authentication encoding equals the specification's
        res.inst(rule, "PAE framing decided within producer == specification (rules/psai_rules.py); the encoder functions are not separate items in this tree")
        res.inst(rule, "LE64 / PAE as used by the 16 entry points equal the specification's (C08.S1)")
        return
    if le is None or pa is None:
        res.violate(rule, "PreAuthenticationEncoding", "anchor missing", "le64 / parse not found")
        return

    def le64_of(aff):
        return [A.Bits(aff, 8 * i, 0xFF, "u8") for i in range(8)]

    def norm_byte(x):
        if isinstance(x, A.Bits):
            return ("bits", x.src.key(), x.shift, x.mask & 0xFF)
        if isinstance(x, A.Aff) and x.is_const():
            return ("const", x.const & 0xFF)
        return ("?", repr(x))

    # le64 on a symbolic u64
    I = A.Interp(facts, MD.MODELS)
    x = A.Aff.sym("x", "u64")
    st = A.State()
    st.bounds["x"] = (0, A.USIZE_MAX)
    outs = I.run(le, [x], st)
    okk = len(outs) == 1 and outs[0].kind == "return" and isinstance(outs[0].value, A.Seq) and outs[0].value.elems is not None and \
        [norm_byte(e) for e in outs[0].value.elems] == [norm_byte(e) for e in le64_of(x)] and not outs[0].state.unmodelled
    res.oblige(okk)
    v = M.view(facts, le)
    if okk:
        res.inst(rule, "le64(x) = [(x >> 8i) & 0xff for i in 0..8]  (little endian, all 64 bits)")
    else:
        res.violate(rule, le["id"], "LE64 byte table", "le64(x) must be the 8 little-endian bytes of x; abstract evaluation gives %s" % ([repr(o) for o in outs][:2],), file=v.file(), line=le["line"])
    # parse on two symbolic pieces
    I = A.Interp(facts, MD.MODELS)
    st = A.State()
    pa_, pb_ = A.Seq("A", A.Aff.sym("len(A)"), kind="bytes"), A.Seq("B", A.Aff.sym("len(B)"), kind="bytes")
    ca, cb = st.new_cell(pa_), st.new_cell(pb_)
    arr = A.Seq("pieces", A.Aff(2), [A.Ptr(ca), A.Ptr(cb)], kind="array")
    c = st.new_cell(arr)
    outs = I.run(pa, [A.Ptr(c)], st)
    okk = False
    got = None
    if len(outs) == 1 and outs[0].kind == "return" and not outs[0].state.unmodelled:
        val = outs[0].value
        seq = val.fields.get("0") if isinstance(val, A.Struct) else val
        if isinstance(seq, A.Seq) and seq.chunks is not None:
            flat = []
            for ch in seq.chunks:
                if ch[0] == "elems":
                    flat += [norm_byte(e) for e in ch[1]]
                elif ch[0] == "seq":
                    flat.append(("piece", ch[1]))
                else:
                    flat.append(ch)
            want = [norm_byte(e) for e in [A.Aff((2 >> (8 * i)) & 0xFF) for i in range(8)]] + \
                [norm_byte(e) for e in le64_of(A.Aff.sym("len(A)"))] + [("piece", "A")] + [norm_byte(e) for e in le64_of(A.Aff.sym("len(B)"))] + [("piece", "B")]
            got = flat
            okk = flat == want
    res.oblige(okk)
    v = M.view(facts, pa)
    if okk:
        res.inst(rule, "PAE([A, B]) = LE64(2) || LE64(len A) || A || LE64(len B) || B")
    else:
        res.violate(rule, pa["id"], "PAE framing", "PAE([A, B]) must be LE64(2) || LE64(len A) || A || LE64(len B) || B; abstract evaluation gives %s" % (str(got)[:300] if got else [repr(o) for o in outs][:2]), file=v.file(), line=pa["line"])
