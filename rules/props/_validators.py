"""C11 / C12: registration and behaviour table of the default exp / nbf validators of PasetoParser::default()."""
import re

from .. import absint as A
from .. import facts as F
from .. import mir as M
from .. import models as MD
from .. import skeleton as S
from ..harness import Result


def default_body(facts):
    bs = S.impl_fns(facts, r"^crate::prelude::paseto_parser::PasetoParser<'a, Version, Purpose>$", r"^core::default::Default$", "default")
    return bs[0] if len(bs) == 1 else None


def registrations(facts, b):
    """[(claim key literal, closure def path, block, line)] of validate_claim calls in PasetoParser::default, plus structural verdicts"""
    v = M.view(facts, b)
    N = M.Normalizer(facts, keep=[r"::validate_claim$", r"PasetoParser::<.*>::new$"])
    regs = []
    for bi, t in v.find_calls(r"PasetoParser::<'a, Version, Purpose>::validate_claim$"):
        ct = N.norm(v.call_term(t, bi))
        claim = ct.args[1]
        key = None
        # claim aggregate: Xxx((key, value))
        for x in claim.walk():
            if x.op == "agg" and x.name == "(tuple)" and x.args and x.args[0].args[0].op == "const":
                key = x.args[0].args[0].name
                break
        clos = None
        for x in ct.args[2].walk():
            if x.op == "closure":
                clos = x.name
        regs.append({"key": key, "closure": clos, "block": bi, "ln": t["ln"], "claim": M.show(claim)[:80]})
    return v, regs


def discover(facts):
    """What PasetoParser::default() registers, by interpreting it with PasetoParser::validate_claim summarised:
    (list of per-path registrations [(key, validator value)], why-undecided or None).  The validator may be a closure or a named function."""
    b = default_body(facts)
    if b is None:
        return None, "impl Default for PasetoParser not found"

    def stub(I, st, args):
        claim = MD.deref(I, st, args[1]) if len(args) > 1 else None
        k = None
        if isinstance(claim, A.Struct):
            inner = MD.deref(I, st, claim.fields.get("0"))
            if isinstance(inner, A.Struct) and "0" in inner.fields:
                kv = MD.deref(I, st, inner.fields["0"])
                k = kv.s if isinstance(kv, A.StrV) else MD.describe(I, st, kv)
        f = MD.deref(I, st, args[2]) if len(args) > 2 else None
        st.events.append(("register", k, f))
        return args[0]
    I = A.Interp(facts, MD.MODELS)
    I.fn_stubs = [(re.compile(r"PasetoParser::<.*>::validate_claim$"), stub)]
    st = A.State()
    outs = I.run(b, [], st)
    if not outs or any(o.kind != "return" or o.state.unmodelled or any("undecided" in n for n in o.state.notes) for o in outs):
        o = [o for o in outs if o.kind != "return" or o.state.unmodelled or any("undecided" in n for n in o.state.notes)]
        return None, "default() not decided: %s" % (((o[0].kind, o[0].state.unmodelled[:2], o[0].state.notes[:1]),) if o else ("no outcome",))
    return [[(e[1], e[2]) for e in o.state.events if e[0] == "register"] for o in outs], None


def validator_bodies(facts):
    """{key: (body, is_closure)} of the default validators (semantic discovery, else the closures of default())"""
    per, why = discover(facts)
    out = {}
    if per:
        for regs in per:
            for k, f in regs:
                if isinstance(f, A.FnV) and f.defn in facts.bodies:
                    out[k] = (facts.bodies[f.defn], f.kind == "closure")
    return out


def run(prop, key, direction):
    """direction: 'exp' (reject instants <= now) or 'nbf' (reject instants >= now)"""
    res = Result(prop, "proof")
    res.trusted = ["time::OffsetDateTime::parse(.., &Rfc3339) returns Ok exactly for RFC 3339 timestamps, as an absolute instant independent of the offset / fraction rendering",
                   "OffsetDateTime ordering compares instants", "serde_json::Value::{is_null, as_str} as documented"]
    res.assumptions = ["the JSON value space is partitioned into {Null, Bool, Number, Array, Object, empty string, RFC 3339 string, other string} and time into {before, equal, after now}; "
                       "models of the library calls on these classes are listed in rules/models.py",
                       "the validator is invoked with the payload's value for its key (decided by C16)"]
    facts = F.load("all")
    b = default_body(facts)
    if b is None:
        res.violate(prop + ".R1", "PasetoParser::default", "anchor missing", "impl Default for PasetoParser not found")
        return res
    per, why_und = discover(facts)
    sem_fn = None
    if per is not None:
        # semantic: on every path of default() exactly one registration under the key, with an interpretable validator
        v = M.view(facts, b)
        good = all(len([1 for k_, f_ in regs_ if k_ == key]) == 1 for regs_ in per) and bool(per)
        fns = [f_ for regs_ in per for k_, f_ in regs_ if k_ == key]
        good = good and all(isinstance(f_, A.FnV) and f_.defn in facts.bodies for f_ in fns) and len(set(f_.defn for f_ in fns)) == 1
        res.oblige(good)
        if not good:
            res.violate(prop + ".R1", b["id"], "no %s validator registered" % key, "PasetoParser::default must call validate_claim with the %s claim and a validator on every path; registrations per path: %s" % (key, [[k_ for k_, _f in regs_] for regs_ in per]),
                        file=v.file(), line=b["line"])
            return res
        sem_fn = fns[0]
        res.inst(prop + ".R1", "PasetoParser::default registers a validator for %r on every path (%s %s)" % (key, sem_fn.kind, M.short(sem_fn.defn)))
        res.inst(prop + ".R1", "the registrations are made on the parser that default() returns (interpreted whole)")
        mine = [{"closure": sem_fn.defn, "is_closure": sem_fn.kind == "closure"}]
        ok = True
    else:
        res.notes.append("default() not decided semantically (%s): structural registration rules consulted" % why_und)
    v, regs = registrations(facts, b)
    if sem_fn is None:
        mine = [r for r in regs if r["key"] == key]
    # R1 registration on every path, on the parser that is returned
    if sem_fn is None:
        ok = len(mine) == 1 and mine[0]["closure"] is not None
        rets = v.cfg.return_blocks()
        if ok:
            ok = all(v.cfg.dominates(mine[0]["block"], rb) for rb in rets)
        res.oblige(ok)
    if sem_fn is not None:
        pass
    elif ok:
        res.inst(prop + ".R1", "PasetoParser::default registers a validator for %r on every path (closure %s)" % (key, M.short(mine[0]["closure"])))
    else:
        res.violate(prop + ".R1", b["id"], "no %s validator registered" % key, "PasetoParser::default must call validate_claim with the %s claim and a validator on every path; registrations found: %s" % (key, [(r["key"], r["ln"]) for r in regs]),
                    file=v.file(), line=b["line"])
        return res
    # the returned parser is the one the validators were registered on
    N = M.Normalizer(facts, keep=[r"::validate_claim$", r"PasetoParser::<.*>::new$"])
    rt = N.norm(v.return_term())
    okr = sem_fn is not None or any(x.op == "call" and re.search(r"validate_claim(::<.*>)?$", x.name) for x in rt.walk())
    res.oblige(okr)
    if okr:
        res.inst(prop + ".R1", "the returned parser is the object validate_claim was called on")
    else:
        res.violate(prop + ".R1", b["id"], "returned parser is not the configured one", "default() returns %s" % M.show(rt)[:160], file=v.file(), line=b["line"])
    # the registration reaches GenericParser.claim_validators under the claim's key (plumbing)
    plumbing(res, prop, facts, strict=False)
    table_monotone(res, prop + ".R5", facts)
    # the GenericParser that PasetoParser wraps (whose extend_validation_claims can replace the default validators) is not reachable
    # through the wrapper
    from .. import layers
    for f in layers.encapsulation(facts, prop + ".R6", "PasetoParser", "GenericParser"):
        res.oblige(f.ok)
        if f.ok:
            res.inst(f.rule, f.desc)
        else:
            res.violate(f.rule, f.where, f.construct, f.msg, file=f.file, line=f.line)
    res.floor(prop + ".R6", 2)
    # R7: the validators are reached: each of the 8 generic parse methods hands the authenticated payload to the claim checks and returns
    # Ok only through them (parse contracts, rules/claims_sem.py); the 8 prelude parse methods delegate (rules/layers.py)
    from .. import claims_sem, skeleton as S_
    ents = S_.entry_points(facts)
    lay = layers.analyse(facts, ents)
    for f in claims_sem.parse_contracts(facts, ents):
        res.oblige(bool(f.ok))
        if f.ok:
            res.inst(prop + ".R7", f.desc)
        else:
            res.violate(prop + ".R7", f.where, f.construct, (f.msg if f.ok is False else "not decided (fail closed): " + f.msg) + " - the default %s validator is not (only) what decides this entry point" % key, file=f.file, line=f.line)
    for e in S_.select(ents, "prelude", "consumer"):
        fs, why = lay.get(e.id, (None, None))
        for f in (fs or []):
            if f.rule == "C03.R6":
                res.oblige(f.ok)
                if f.ok:
                    res.inst(prop + ".R7", f.desc)
                else:
                    res.violate(prop + ".R7", f.where, f.construct, f.msg, file=f.file, line=f.line)
    res.floor(prop + ".R7", 8)
    # R4: the registered validator is actually invoked with the payload's value and its verdict honoured (verify_claims rules of C16)
    from .. import claims as CL
    for f in CL.analyse(facts):
        if f.rule in ("C16.R2", "C16.R3", "C16.R4", "C16.R6"):
            res.oblige(f.ok)
            if f.ok:
                res.inst(prop + ".R4", f.desc)
            else:
                res.violate(prop + ".R4", f.where, f.construct, f.msg, file=f.file, line=f.line)
    res.floor(prop + ".R4", 4)
    # R2 / R3 behaviour table by abstract interpretation of the closure
    cb = facts.bodies.get(mine[0]["closure"])
    if cb is None:
        res.violate(prop + ".R2", mine[0]["closure"], "closure body missing", "validator closure has no MIR body")
        return res
    table = evaluate(facts, cb, key, is_closure=mine[0].get("is_closure", True))
    cv = M.view(facts, cb)
    want = expected(direction)
    samples = []
    for cls in sorted(want):
        got = table.get(cls, {"undecided: no outcome"})
        w = want[cls]
        ok = got <= w and bool(got) and not any(str(g).startswith("undecided") for g in got)
        res.oblige(ok)
        samples.append({"input_class": cls, "outcome": sorted(got), "required": sorted(w)})
        if ok:
            res.inst(prop + ".R2", "%s -> %s" % (cls, "/".join(sorted(got))))
        else:
            res.violate(prop + ".R2", cb["id"], "%s value class %s" % (key, cls), "the default %s validator must map %s to %s; abstract evaluation gives %s" % (key, cls, " or ".join(sorted(w)), sorted(got)),
                        file=cv.file(), line=cb["line"])
    res.samples = samples
    res.extra["behaviour_table"] = samples
    res.floor(prop + ".R1", 3)
    res.floor(prop + ".R2", len(want))
    res.explanation = ("registration of the %s validator in PasetoParser::default on every path (CFG dominance + provenance terms) and its behaviour table computed by abstract interpretation of the closure's MIR over the partition "
                       "JSON {Null, Bool, Number, Array, Object, '', RFC 3339 string, other string} x time order {before, equal, after now}: %d input classes, each with the required verdict" % (key, len(want)))
    res.checker_cmd = "./check %s" % prop
    return res


def plumbing(res, prop, facts, strict=True):
    """PasetoParser::validate_claim(value, closure) ends in claim_validators.insert(value.get_key(), closure) - decided by abstract
    interpretation of the method (through whatever private helpers it uses); strict: HashMap::insert (a later registration replaces)."""
    from .. import absint as A
    from .. import models as MD
    bs = [b for bid, b in facts.bodies.items() if re.search(r"PasetoParser::<'a, Version, Purpose>::validate_claim$", bid)]
    if len(bs) != 1:
        res.oblige(False)
        res.violate(prop + ".R1", "PasetoParser::validate_claim", "anchor missing", "expected one PasetoParser::validate_claim, found %d" % len(bs))
        return
    b = bs[0]
    v = M.view(facts, b)
    I = A.Interp(facts, MD.MODELS)
    st = A.State()
    me = A.Sym("self")
    outs = I.run(b, [A.Ptr(st.new_cell(me)), A.Sym("value"), A.Sym("closure")], st)
    ok = bool(outs)
    why = "no outcome"
    for o in outs:
        evs = [e for e in o.state.events if isinstance(e[1], list) and e[1] and isinstance(e[1][0], str) and e[1][0].endswith(".claim_validators")]
        ins = [e for e in evs if e[0].endswith("::insert") and len(e[1]) >= 3 and e[1][1] == ("sym", "key(value)") and "closure" in str(e[1][2])]
        keyed = [e for e in evs if len(e[1]) >= 2 and e[1][1] == ("sym", "key(value)")]
        good = bool(ins) if strict else bool(keyed)
        if o.kind != "return" or not good:
            ok = False
            why = "on path [%s] the validator table receives %s" % (" & ".join(o.state.cond), [(e[0], e[1][1:]) for e in evs] or "nothing")
    res.oblige(ok)
    if ok:
        res.inst(prop + ".R1", "validate_claim(value, closure) registers the closure in claim_validators under value.get_key()" + (" with HashMap::insert (replacing)" if strict else ""))
    else:
        res.violate(prop + ".R1", b["id"], "validator registration plumbing", "validate_claim must store the closure in the validator table under the claim's key%s; %s" % (" with insert (last registration wins)" if strict else "", why[:300]),
                    file=v.file(), line=b["line"])


GROW_ONLY = r"::(insert|extend|reserve|try_reserve|shrink_to_fit|shrink_to|get|get_mut|contains_key|iter|iter_mut|values|values_mut|keys|len|is_empty|entry)$"


def table_monotone(res, rule, facts):
    """No function of the crate takes a registered validator away again: outside GenericParser::new the validator table is only
    borrowed mutably by growing operations (insert / extend ...) and never assigned, cleared, drained or removed from - otherwise a later
    builder-style call (e.g. check_claim on the same key) silently disarms the default exp / nbf validators."""
    n = 0
    bad = []
    for bid, b in sorted(facts.bodies.items()):
        v = M.view(facts, b)
        for w in M.field_writes(v):
            if not (w["adt"].endswith("generic_parser::GenericParser") and w["field"] == "claim_validators"):
                continue
            n += 1
            if w["kind"] in ("assign", "call_dest"):
                if not re.search(r"GenericParser::<'a, 'b, Version, Purpose>::new$", bid):
                    bad.append((bid, "claim_validators is overwritten", w["ln"], v.file()))
            elif w["kind"] == "mutborrow":
                users = w.get("user_defs") or w.get("users") or []
                off = [u for u in users if not re.search(GROW_ONLY, u or "")]
                if off or not users:
                    bad.append((bid, "claim_validators is passed to %s" % (", ".join(M.short(u) for u in off) or "an untracked user"), w["ln"], v.file()))
    res.oblige(not bad and n > 0)
    if n == 0:
        res.violate(rule, "GenericParser.claim_validators", "anchor missing", "no registration into the validator table found")
    for bid, what, ln, file in bad:
        res.violate(rule, bid, what, "a registered validator can be removed or replaced wholesale: the default expiry / not-before validators would no longer run for that parser", file=file, line=ln)
    if not bad and n:
        res.inst(rule, "the validator table only grows: %d mutable uses of GenericParser.claim_validators, all insert / extend" % n)


def evaluate(facts, cb, key, is_closure=True):
    I = A.Interp(facts, MD.MODELS)
    st = A.State()
    val = MD.json_sym("value")
    c = st.new_cell(val)
    env = st.new_cell(A.Struct("(closure)", None, {}))
    outs = I.run(cb, ([A.Ptr(env)] if is_closure else []) + [A.StrV(key), A.Ptr(c)], st)
    table = {}
    for o in outs:
        s = o.state
        classes = s.facts.get(("cls", "value"), MD.JSON_CLASSES)
        if o.kind == "return":
            r = I.resolve(s, o.value)
            if isinstance(r, A.Struct) and r.variant == "Ok":
                verdict = "Ok"
            elif isinstance(r, A.Struct) and r.variant == "Err":
                e = I.resolve(s, r.fields.get("0"))
                while isinstance(e, A.Struct) and e.adt == "(converted)":
                    e = I.resolve(s, e.fields.get("source"))
                verdict = "Err(%s)" % (e.variant if isinstance(e, A.Struct) and e.variant else "?")
            else:
                verdict = "undecided: returns %r" % (r,)
        elif o.kind == "panic":
            verdict = "panic"
        else:
            verdict = "undecided: %s" % (o.value,)
        if any("undecided" in n or "non-instants" in n for n in s.notes):
            verdict = "undecided: " + "; ".join(s.notes)[:120]
        orders = [v for k, v in s.facts.items() if isinstance(k, tuple) and k[0] == "order"]
        for cls in classes:
            if cls == "String:rfc3339":
                if orders:
                    for rel in orders:
                        table.setdefault("RFC 3339 string, instant %s now" % {"<": "before", "=": "equal to", ">": "after"}[rel], set()).add(verdict)
                else:
                    for rel in ("before", "equal to", "after"):
                        table.setdefault("RFC 3339 string, instant %s now" % rel, set()).add(verdict)
            else:
                table.setdefault({"String:empty": "empty string", "String:other": "string that is not RFC 3339"}.get(cls, cls), set()).add(verdict)
    return table


def expected(direction):
    errs_fmt = {"Err(RFC3339Date)", "Err(Unexpected)", "Err(Invalid)", "Err(CustomValidation)", "Err(Missing)"}
    w = {"Null": {"Ok"}}
    for c in ("Bool", "Number", "Array", "Object", "empty string", "string that is not RFC 3339"):
        w[c] = set(errs_fmt)
    if direction == "exp":
        w["RFC 3339 string, instant before now"] = {"Err(Expired)"}
        w["RFC 3339 string, instant equal to now"] = {"Err(Expired)", "Ok"}
        w["RFC 3339 string, instant after now"] = {"Ok"}
    else:
        w["RFC 3339 string, instant before now"] = {"Ok"}
        w["RFC 3339 string, instant equal to now"] = {"Err(UseBeforeAvailable)", "Ok"}
        w["RFC 3339 string, instant after now"] = {"Err(UseBeforeAvailable)"}
    return w
