"""C10 High-level builders never reuse a nonce (freshness by construction)."""
from . import _proto

LEVEL = "other"
RULES = {"C10.R1", "C10.R2", "C10.R3", "C10.R4"}


def extra(res, facts, entries, protos):
    # no token, nonce or entropy is remembered from one build to the next (anywhere below the 8 local builder entry points)
    _proto.state_rule(res, "C10.R5", facts, entries)


def run(tier):
    return _proto.run_rules(
        "C10", LEVEL, RULES,
        {"C10.R1": 4, "C10.R2": 1, "C10.R3": 4, "C10.R4": 4},
        "provenance terms: each of the 4 GenericBuilder::<V, Local>::try_encrypt passes PasetoNonce::from(&Key::<N>::try_new_random()?) - drawn inside the function on every path to the core call, with no self / static / constant leaf - "
        "to the core encryptor; try_new_random returns a buffer handed whole to SystemRandom::fill whose Result gates the Ok return; all drawn bytes reach the wire (verbatim v3/v4, as MAC key of the nonce derivation v1/v2); the prelude builders only delegate",
        ["ring::rand::SystemRandom is a CSPRNG: draws are unpredictable and collide with negligible probability"],
        extra, "the statistical statement (pairwise distinct nonces over 10^5 builds, per-bit frequency): a property of histories of the OS CSPRNG", sem_rules={'C10.S3': 4})
