"""C04 A token is accepted only under the key it was produced with (structural necessary conditions)."""
from . import _proto
from .. import skeleton as S
from .. import mir as M

LEVEL = "other"
RULES = {"C04.R1", "C04.R2", "C04.R3", "C04.R4"}


# the caller's key is the one that reaches the core call in every wrapper (layer contracts), reported under C04's own id
ALIAS = {"C01.R7": "C04.R5", "C02.R5": "C04.R5"}


def extra(res, facts, entries, protos):
    _proto.state_rule(res, "C04.R6", facts, entries)
    # key admission: a v3 public key other than the signer's canonical encoding must not be taken for it (symbolic tag byte)
    from .. import keys_sem
    for f in keys_sem.v3_public_key_admission(facts, "C04.S4"):
        res.oblige(bool(f.ok))
        if f.ok:
            res.inst(f.rule, f.desc)
        else:
            res.violate(f.rule, f.where, f.construct, f.msg if f.ok is False else "not decided (fail closed): " + f.msg, file=f.file, line=f.line)
    res.floor("C04.S4", 2)
    # prerequisite: the check exists and gates success (C03.R1 / R4 re-evaluated here) - decided by C04.S1 when the semantic engine followed every path
    if getattr(res, "sem_ok", False):
        return
    for e in S.select(entries, "core", "consumer"):
        ok = S.is_authenticating(facts, e.body)
        res.oblige(ok)
        if ok:
            res.inst("C04.R0", "%s: every Ok exit passes the authentication success edge" % e.label)
        else:
            v = M.view(facts, e.body)
            res.violate("C04.R0", e.id, "Ok exit not gated by authentication", "a token can be accepted without the key-dependent check having succeeded", file=v.file(), line=e.body["line"])


def run(tier):
    return _proto.run_rules(
        "C04", LEVEL, RULES,
        {"C04.R1": 22, "C04.R2": 6, "C04.R3": 6, "C04.R4": 4, "C04.R5": 50},
        "provenance terms: the caller's whole 32-byte key (unsliced) is the key of HKDF-extract / keyed BLAKE2b / XChaCha20-Poly1305 in all 8 derivation functions and reaches them from the key parameter; "
        "the derived authentication key keys the tag that is compared; the verifier's key is built from the public_key parameter only (v3: the compressed supplied key is also first in the PAE); every Ok exit is gated by that check",
        ["HKDF-SHA384 / keyed BLAKE2b are PRFs of the whole key; signature schemes are unforgeable: another key fails"],
        extra, "that a different key makes authentication fail (PRF / unforgeability: cryptographic)", alias=ALIAS, sem_rules={'C04.S1': 8, 'C04.S2': 8, 'C04.S3': 4})
