"""Behavioural (semantic) rules for the claim-checking half of the parsers, decided by abstract interpretation.

verify_claims is interpreted on a *concrete parser configuration* and a symbolic payload:
    expected claims   {"aud": E_aud, "exp": E_exp}
    validators        {"exp": V_exp, "nbf": V_nbf}    (V_exp shadows the expectation for "exp"; V_nbf has no expectation)
    payload           json(token), every member json[k] ranging over the JSON classes, equal / unequal to the expectation
and the resulting path outcomes are compared with the behaviour the properties state.  How the function is written - for loops,
iterator chains, helper functions, `match` or `?` - does not matter: only the validator calls (events), their arguments and the
result are observed.  The same is done for the eight GenericParser::parse methods with the core call and verify_claims replaced
by summaries (layer contract: claims are examined only on the Ok value of the authenticating call)."""
import re

from . import absint as A
from . import mir as M
from . import models as MD
from . import models_iter as MI
from . import skeleton as S
from .protocol import Finding


def _f(out, rule, ok, where, construct, msg, line=None, file=None, desc=None):
    out.append(Finding(rule, ok, where, construct, msg, file, line, desc))


# ------------------------------------------------------------------ models used only by these runs
LOCAL = []


def lmodel(pat):
    def deco(f):
        LOCAL.append((re.compile(pat), f))
        return f
    return deco


@lmodel(r"^serde_json::value::to_value$")
def m_to_value(I, st, info, args, depth):
    x = MD.deref(I, st, args[0])
    k = x.attrs.get("expected_of") if isinstance(x, A.Sym) else None
    if k is None:
        return None
    s2 = st.clone()
    s2.cond.append("to_value(expected %s) ok" % k)
    st.cond.append("to_value(expected %s) fails" % k)
    v = A.Sym("expected(%s)" % k, "serde_json::value::Value", attrs={"adt": "serde_json::value::Value"})
    return [(s2, "return", A.ok(v)), (st, "return", A.err(A.Sym("serde_json::Error")))]


def _jname(I, st, v):
    v = MD.deref(I, st, v)
    if isinstance(v, A.Struct) and v.adt == "serde_json::value::Value":
        origin = st.facts.get(("refined_from", id(v)))
        if origin is not None and v.variant != "Null":
            return origin, v       # a member of the payload seen through a `match` on its variant: still that member
        return "Value::" + str(v.variant), v
    return getattr(v, "name", repr(v)), v


@lmodel(r"^core::cmp::PartialEq::(eq|ne)$")
def m_json_eq(I, st, info, args, depth):
    if "serde_json::value::Value" not in info["name"]:
        return None
    neg = info["tdef"].endswith("ne")
    (na, a), (nb, b) = _jname(I, st, args[0]), _jname(I, st, args[1])
    if isinstance(a, A.Struct) and isinstance(b, A.Struct) and a.variant == "Null" and b.variant == "Null":
        return MD.ret(st, A.BoolV(not neg))
    for x, y in ((a, b), (b, a)):
        if isinstance(x, A.Struct) and x.variant == "Null" and isinstance(y, A.Sym) and y.classes is not None:
            return [(s2, "return", A.BoolV(r != neg)) for s2, r in MD.fork_classes(I, st, y, lambda c: c == "Null")]
    key = tuple(sorted((na, nb)))
    known = st.facts.get(("jsoneq",) + key)
    if known is not None:
        return MD.ret(st, A.BoolV(known != neg))
    out = []
    for truth in (True, False):
        s2 = st.clone() if truth else st
        # equality with a concrete expectation implies the member is present
        ok_ = True
        for x in (a, b):
            if truth and isinstance(x, A.Sym) and x.classes is not None and x.name.startswith("json("):
                cls = s2.facts.get(("cls", x.name), x.classes)
                nn = frozenset(c for c in cls if c != "Null")
                if not nn:
                    ok_ = False
                s2.facts[("cls", x.name)] = nn
        if not ok_:
            continue
        s2.facts[("jsoneq",) + key] = truth
        s2.cond.append("%s %s %s" % (key[0], "==" if truth else "!=", key[1]))
        out.append((s2, "return", A.BoolV(truth != neg)))
    return out


@lmodel(r"^core::ops::function::Fn::call$|^core::ops::function::FnMut::call_mut$|^core::ops::function::FnOnce::call_once$")
def m_validator_call(I, st, info, args, depth):
    f = MD.deref(I, st, args[0])
    if not (isinstance(f, A.Sym) and f.attrs.get("validator")):
        return None
    tup = MD.deref(I, st, args[1])
    av = [tup.fields[str(i)] for i in range(len(tup.fields))] if isinstance(tup, A.Struct) else []
    name = f.attrs["validator"]
    kd = MD.str_key(I, st, av[0]) if av else None
    vn, _ = _jname(I, st, av[1]) if len(av) > 1 else ("?", None)
    st.events.append(("validator", name, kd[1] if kd else None, vn))
    s2 = st.clone()
    s2.cond.append("%s ok" % name)
    st.cond.append("%s fails" % name)
    return [(s2, "return", A.ok(A.UNIT)), (st, "return", A.err(A.Sym("PasetoClaimError(%s)" % name)))]


def interp(facts, stubs=()):
    I = A.Interp(facts, LOCAL + MD.MODELS, max_paths=20000)
    I.concrete_maps = True
    I.fn_stubs = list(stubs)
    return I


# ------------------------------------------------------------------ verify_claims
EXPECT = ["aud", "exp"]
VALID = VALID_ALL = ["exp", "nbf", "jti"]     # exp: validator and expectation; nbf, jti: validators without expectation (two of them: a pass that stops after the first is seen)
KA, KC = "aud", "exp"      # KA: expected without validator; KC: expected and validator


def configs():
    """the parser configurations the behaviour table is read off: the full one first, then every other choice of expected claims and
    validators (a pass guarded by a comparison of the two tables' sizes, or by one of them being empty, shows in one of them)"""
    out = [(tuple(EXPECT), tuple(VALID))]
    for em in range(1 << len(EXPECT)):
        for vm in range(1 << len(VALID)):
            c = (tuple(k for i, k in enumerate(EXPECT) if em >> i & 1), tuple(k for i, k in enumerate(VALID) if vm >> i & 1))
            if c not in out:
                out.append(c)
    return out


def merge(per_cfg):
    """one finding per rule over all configurations: violated in any -> that finding; undecided in any -> undecided; else the first"""
    by = {}
    order = []
    for cfg, fs in per_cfg:
        for f in fs:
            key = (f.rule, f.where)
            if key not in by:
                by[key] = []
                order.append(key)
            by[key].append((cfg, f))
    out = []
    for key in order:
        xs = by[key]
        bad = [x for x in xs if x[1].ok is False]
        und = [x for x in xs if x[1].ok is None]
        cfg, f = (bad or und or xs)[0]
        if (bad or und) and cfg != (tuple(EXPECT), tuple(VALID)):
            f.msg = "with expected claims %s and validators %s registered: %s" % (list(cfg[0]), list(cfg[1]), f.msg)
        out.append(f)
    return out


GP = "crate::generic::parsers::generic_parser::GenericParser"


def _api_parser(st, facts, foot, ia, order=0):
    """the parser value obtained through its own API - default(), set_footer(F), set_implicit_assertion(A) - so that nothing is assumed
    about how GenericParser keeps the two expected values (own fields, Option fields, a nested private struct); None when that cannot
    be done on the current source (then the value is written down field by field)"""
    def find(pat):
        bs = [b for bid, b in facts.bodies.items() if re.search(pat, bid)]
        return bs[0] if len(bs) == 1 else None
    d = find(r"^<" + re.escape(GP) + r"<.*> as core::default::Default>::default$")
    sf = find(re.escape(GP) + r"::<[^>]*>::set_footer$")
    sa = find(re.escape(GP) + r"::<[^>]*>::set_implicit_assertion$")
    if d is None or sf is None or sa is None:
        return None
    I = A.Interp(facts, MD.MODELS, max_paths=200)
    I.concrete_maps = True

    def one(outs):
        ok_ = len(outs) == 1 and outs[0].kind == "return" and not outs[0].state.unmodelled and not any("undecided" in n for n in outs[0].state.notes)
        return outs[0] if ok_ else None
    n_cond, n_ev = len(st.cond), len(st.events)
    o = one(I.run(d, [], st))
    if o is None or o.state is not st:
        return None
    me = st.new_cell(o.value)
    v0 = I.resolve(st, st.store.get(me))
    before = {k: repr(I.resolve(st, x)) for k, x in v0.fields.items()} if isinstance(v0, A.Struct) else {}
    # each value is set twice: what the parser uses is the value given last (a setter that keeps the first one shows)
    old_f = A.Struct(foot.adt, None, {"0": A.Seq("earlier.footer", A.Aff.sym("len(earlier.footer)"), kind="str")})
    old_a = A.Struct(ia.adt, None, {"0": A.Seq("earlier.assertion", A.Aff.sym("len(earlier.assertion)"), kind="str")})
    # (in either order: a setter that rebuilds the stored pair from defaults loses what the other one stored before it)
    seq = ((sf, old_f), (sa, old_a), (sf, foot), (sa, ia)) if order == 0 else ((sa, old_a), (sf, old_f), (sa, ia), (sf, foot))
    for body, arg in seq:
        o = one(I.run(body, [A.Ptr(me), arg], st))
        if o is None or o.state is not st:
            return None
    del st.cond[n_cond:], st.events[n_ev:]
    v = I.resolve(st, st.store.get(me))
    if not (isinstance(v, A.Struct) and {"claims", "claim_validators"} <= set(v.fields)):
        return None
    # a field the setters leave as default() made it is state some other method may have written before this call (a remembered token,
    # a cache): it is unknown here, not "freshly constructed"
    f = {}
    for k, x in v.fields.items():
        xr = I.resolve(st, x)
        phantom = xr is A.UNIT or (isinstance(xr, A.Struct) and (xr.adt or "").startswith("core::marker::PhantomData"))
        if k in ("claims", "claim_validators") or phantom or before.get(k) != repr(xr):
            f[k] = x
    return A.Struct(v.adt, None, f)


def api_state_decides(facts):
    """True when the parser state of the parse-level contracts was obtained through default() / set_footer / set_implicit_assertion and
    every parse method hands exactly those two values (with the token and the key) to the core call: what the setters store reaches
    the authenticating call, however it is kept in between"""
    foot = A.Struct("crate::core::footer::Footer", None, {"0": A.Seq("self.footer", A.Aff.sym("len(self.footer)"), kind="str")})
    ia = A.Struct("crate::core::implicit_assertion::ImplicitAssertion", None, {"0": A.Seq("self.assertion", A.Aff.sym("len(self.assertion)"), kind="str")})
    if _api_parser(A.State(), facts, foot, ia, 0) is None or _api_parser(A.State(), facts, foot, ia, 1) is None:
        return False
    fs = [f for f in parse_contracts(facts, S.entry_points(facts)) if f.rule == "C03.R6"]
    return len(fs) >= 8 and all(f.ok for f in fs)


def parser_value(st, cfg=None, facts=None, order=0):
    expect, valid = cfg or (EXPECT, VALID)
    claims = MI.mapv("claims", [(A.StrV(k), A.Sym("expected_%s" % k, attrs={"expected_of": k})) for k in expect])
    vals = MI.mapv("claim_validators", [(A.StrV(k), A.Sym("validator_%s" % k, attrs={"validator": "V_%s" % k})) for k in valid])
    foot = A.Struct("crate::core::footer::Footer", None, {"0": A.Seq("self.footer", A.Aff.sym("len(self.footer)"), kind="str")})
    ia = A.Struct("crate::core::implicit_assertion::ImplicitAssertion", None, {"0": A.Seq("self.assertion", A.Aff.sym("len(self.assertion)"), kind="str")})
    if facts is not None:
        v = _api_parser(st, facts, foot, ia, order)
        if v is not None:
            f = dict(v.fields)
            f["claims"], f["claim_validators"] = claims, vals      # the two tables: named by the registration contracts (C15.R5, C16.R5)
            return A.Struct(v.adt, None, f)
    return A.Struct(GP, None, {"version": A.UNIT, "purpose": A.UNIT, "claims": claims, "claim_validators": vals, "footer": foot, "implicit_assertion": ia})


def _err_variant(I, o, r):
    e = I.resolve(o.state, r.fields.get("0"))
    g = 0
    while isinstance(e, A.Struct) and e.adt == "(converted)" and g < 5:
        e = I.resolve(o.state, e.fields.get("source"))
        g += 1
    if isinstance(e, A.Struct) and e.variant:
        return e.variant, e
    return getattr(e, "name", repr(e)), e


def _table(I, outs, T, bid, line, file, label="", cfg=None):
    """the behaviour table read off the outcomes of a run in which the authenticated text is called T"""
    EXPECT_, VALID = cfg or (EXPECT, VALID_ALL)
    out = []
    jn = lambda k: "json(%s)[%s]" % (T, k)
    n_ok = 0
    probs = {"C15.R1": [], "C15.R2": [], "C16.R2": [], "C16.R3": [], "C16.R4": [], "C16.R6": [], "C14.R4": []}
    for o in outs:
        s = o.state
        cond = " & ".join(s.cond)
        r = I.resolve(s, o.value)
        parsed = any(c == "json(%s) parses" % T for c in s.cond)
        calls = [e for e in s.events if e[0] == "validator"]
        per = {}
        for e in calls:
            per.setdefault(e[1], []).append(e)
        is_ok = isinstance(r, A.Struct) and r.variant == "Ok"
        is_err = isinstance(r, A.Struct) and r.variant == "Err"
        if not (is_ok or is_err):
            probs["C15.R1"].append("an outcome is neither Ok nor Err (%r) when [%s]" % (r, cond[-160:]))
            continue
        if not parsed:
            if is_ok:
                probs["C14.R4"].append("Ok is returned although the payload did not parse")
            if calls:
                probs["C16.R2"].append("a validator runs although the payload did not parse")
            if is_err and not any(c == "json(%s) does not parse" % T for c in s.cond):
                var, _ev = _err_variant(I, o, r)
                probs["C15.R2"].append("the parse fails with %s before the payload was even parsed - not because a claim is missing or differs in the JSON the token carries - when [%s]" % (var, cond[-200:]))
            continue
        # validators: arguments, at most once
        for name, es in per.items():
            k = name[2:]
            if len(es) > 1:
                probs["C16.R4"].append("validator %s is invoked %d times on one parse when [%s]" % (name, len(es), cond[-200:]))
            for e in es:
                null_here = e[3] == "Value::Null" and (s.facts.get(("cls", jn(k))) or frozenset(["?"])) <= frozenset(["Null"])
                if e[2] != k or (e[3] != jn(k) and not null_here):
                    probs["C16.R2"].append("validator %s is called with (%r, %s) instead of (%r, &json[%r])" % (name, e[2], e[3], k, k))
        failed = [c[:-6] for c in s.cond if c.endswith(" fails") and c.startswith("V_")]
        plain = [k for k in EXPECT_ if k not in VALID]     # expected claims without validator: decided by presence and JSON equality

        def st_of(k):
            cls = s.facts.get(("cls", jn(k)))
            return (cls is not None and cls <= frozenset(["Null"]), cls is not None and "Null" not in cls,
                    s.facts.get(("jsoneq",) + tuple(sorted(("expected(%s)[%s]" % (k, k), jn(k))))))
        if is_ok:
            n_ok += 1
            okv = MD.deref(I, s, r.fields.get("0"))
            if not (isinstance(okv, A.Sym) and okv.name == "json(%s)" % T):
                probs["C14.R4"].append("the value returned is %r, not the parsed payload" % (okv,))
            for k in VALID:
                if len(per.get("V_" + k, [])) != 1:
                    probs["C16.R4"].append("the parse succeeds although validator V_%s ran %d times (must run exactly once) when [%s]" % (k, len(per.get("V_" + k, [])), cond[-200:]))
            if failed:
                probs["C16.R3"].append("the parse succeeds although %s returned an error" % failed)
            for k in plain:
                _null, nonnull, eq = st_of(k)
                if not nonnull:
                    probs["C15.R2"].append("the parse succeeds although the expected claim %r may be absent (null) when [%s]" % (k, cond[-200:]))
                if eq is not True:
                    probs["C15.R2"].append("the parse succeeds without the payload's %r having been found JSON-equal to the expectation when [%s]" % (k, cond[-200:]))
        else:
            var, ev = _err_variant(I, o, r)
            cause = None
            if failed:
                cause = "validator"
                if not (isinstance(ev, A.Sym) and ev.name == "PasetoClaimError(%s)" % failed[-1]):
                    pass
            elif any(c.startswith("to_value(expected") and c.endswith("fails") for c in s.cond):
                cause = "serialisation"
            elif any(st_of(k)[0] for k in plain) and var == "Missing":
                cause = "missing"
            elif any(st_of(k)[1] and st_of(k)[2] is False for k in plain):
                cause = "unequal"
            if cause is None:
                # which key is blamed?
                blame = ""
                if any(("cls", jn(k)) in s.facts and not s.facts.get(("lookup_refined", jn(k))) for k in VALID) or any(isinstance(kf, tuple) and kf[0] == "jsoneq" and any("(%s)" % k in str(kf) for k in VALID) for kf in s.facts):
                    blame = " (a claim that has a validator is also subjected to a presence / equality test)"
                    probs["C16.R6"].append("the parse fails with %s for a reason other than a validator's verdict%s when [%s]" % (var, blame, cond[-200:]))
                else:
                    probs["C15.R2"].append("the parse fails with %s without a missing / unequal expected claim or a failing validator when [%s]" % (var, cond[-200:]))
            if any(st_of(k)[0] for k in plain) and not failed and not any(st_of(k)[1] and st_of(k)[2] is False for k in plain) and cause is None and var != "Missing":
                probs["C15.R2"].append("a missing expected claim is reported as %s" % var)
    # a claim with validator must not be tested otherwise: no path may have refined json[c] / json[b] by a null or equality test
    for o in outs:
        s = o.state
        for k in VALID:
            # (a refinement that only records the outcome of the lookup itself - `get(key)` came back empty - is not a test of the value)
            if (("cls", jn(k)) in s.facts and not s.facts.get(("lookup_refined", jn(k)))) or any(isinstance(kf, tuple) and kf[0] == "jsoneq" and jn(k) in kf for kf in s.facts):
                probs["C16.R6"].append("the payload's %r, which has a validator, is also tested for presence / equality when [%s]" % (k, " & ".join(s.cond)[-160:]))
                break
    if n_ok == 0:
        probs["C15.R1"].append("no successful outcome found")
    desc = {"C15.R1": "verify_claims over expected {a, c} / validators {c, b}: %d outcomes, %d successful" % (len(outs), n_ok),
            "C15.R2": "expected claim without validator: null -> Missing, unequal -> error, success only when present and JSON-equal",
            "C16.R2": "each validator is called with (its key, &json[its key]) of the parsed payload",
            "C16.R3": "a validator's error fails the parse",
            "C16.R4": "on success every registered validator (with or without expectation) ran exactly once; never twice on any path",
            "C16.R6": "a claim that has a validator is decided by the validator alone",
            "C14.R4": "the value returned is the parsed payload, unmodified"}
    for r, ps in probs.items():
        _f(out, r, not ps, bid, "verify_claims behaviour" if not ps else ps[0][:90], "; ".join(sorted(set(ps)))[:600], line, file, desc=(label + ": " if label else "") + desc[r])
    return out




def verify_claims_table(facts, entries=None):
    out = []
    bs = [b for bid, b in facts.bodies.items() if (b.get("name") or bid.rsplit("::", 1)[-1]) == "verify_claims" and "GenericParser" in bid]
    if len(bs) != 1 and entries is not None:
        # no function plays the part of verify_claims on its own: the table is read off the eight parse methods interpreted whole, with
        # the authenticating core call summarised
        return parse_level(facts, entries)[0]
    if len(bs) != 1:
        for r in ("C15.R1", "C16.R4", "C14.R4"):
            _f(out, r, False, "GenericParser::verify_claims", "anchor missing", "expected exactly one verify_claims, found %d" % len(bs))
        return out
    b = bs[0]
    v = M.view(facts, b)
    file, line, bid = v.file(), b["line"], b["id"]
    per = []
    for cfg in configs():
        out = []
        I = interp(facts)
        st = A.State()
        me = st.new_cell(parser_value(st, cfg, facts))
        outs = I.run(b, [A.Ptr(me), A.Seq("token", A.Aff.sym("len(token)"), kind="str")], st)
        undecided = [o for o in outs if o.kind != "return" or o.state.unmodelled or any("undecided" in n for n in o.state.notes)]
        if undecided or not outs:
            o = undecided[0] if undecided else None
            why = "no outcome" if o is None else "%s; unmodelled %s; notes %s; when [%s]" % (o.kind if o.kind != "return" else "return", o.state.unmodelled[:2], [n for n in o.state.notes if "undecided" in n][:1], " & ".join(o.state.cond)[-200:])
            for r in ("C15.R1", "C15.R2", "C16.R2", "C16.R3", "C16.R4", "C16.R6", "C14.R4"):
                _f(out, r, None, bid, "verify_claims not decided by the abstract interpreter", why, line, file)
        else:
            out = _table(I, outs, "token", bid, line, file, cfg=cfg)
        per.append((cfg, out))
    return merge(per)


# ------------------------------------------------------------------ the eight parse methods: claims only after authentication
def _core_stub(I, st, args):
    st.events.append(("core_call", [MD.describe(I, st, a) if i != 1 else repr(MD.deref(I, st, a))[:40] for i, a in enumerate(args)]))
    return A.Sym("core_result", attrs={"adt": "core::result::Result", "make_variant": lambda s2, sym, variant: A.ok(A.Seq("plaintext", A.Aff.sym("len(plaintext)"), kind="str")) if variant == "Ok" else A.err(A.Sym("PasetoError"))})


_pl = {}
# the configurations the whole parse methods are interpreted on (the full one, and ones in which a table is empty or smaller than the other)
PARSE_CONFIGS = [(("aud", "exp"), ("exp", "nbf", "jti")), (("aud",), ("exp",)), (("aud", "exp"), ("jti",)), ((), ("nbf",)), (("aud",), ())]


def parse_level(facts, entries):
    """(table findings, contract findings): every GenericParser::parse interpreted whole on the concrete parser configuration with only the
    core call summarised - however the claim checking is factored into helpers.  Paths on which the core call failed must not examine
    the payload at all; on the others the behaviour table applies to json(plaintext)."""
    k = id(facts)
    if k in _pl:
        return _pl[k]
    table, contracts = [], []
    for e in S.select(entries, "generic", "consumer"):
        b = e.body
        v = M.view(facts, b)
        bid, file, line = e.id, v.file(), b["line"]
        per = []
        for ci, cfg in enumerate(PARSE_CONFIGS):
            tbl, ctr = [], []
            I = interp(facts, stubs=[(re.compile(r"paseto::Paseto<.*>>::(try_decrypt|try_verify)$"), _core_stub)])
            st = A.State()
            me = st.new_cell(parser_value(st, cfg, facts, order=ci % 2))
            outs = I.run(b, [A.Ptr(me), A.Seq("token", A.Aff.sym("len(token)"), kind="str"), A.Ptr(st.new_cell(A.Sym("key")))], st)
            und = [o for o in outs if o.kind != "return" or o.state.unmodelled or any("undecided" in n for n in o.state.notes)]
            if und or not outs:
                o = und[0] if und else None
                why = "no outcome" if o is None else "%s %s %s" % (o.kind, o.state.unmodelled[:2], [n for n in o.state.notes if "undecided" in n][:1])
                _f(ctr, "C03.R6", None, bid, "parse not decided by the abstract interpreter", why, line, file)
                for r in ("C15.R1", "C15.R2", "C16.R2", "C16.R3", "C16.R4", "C16.R6", "C14.R4"):
                    _f(tbl, r, None, bid, "parse not decided by the abstract interpreter", why, line, file)
                per.append((cfg, tbl, ctr))
                continue
            probs = []
            authed = []
            for o in outs:
                s = o.state
                core = [x for x in s.events if x[0] == "core_call"]
                if len(core) != 1:
                    probs.append("the authenticating core call is made %d times on a path" % len(core))
                    continue
                a = core[0][1]
                want = ["token", None, "self.footer"] + (["self.assertion"] if e.vp[0] in ("V3", "V4") else [])
                if [a[0], None] + a[2:] != want or "key" not in a[1]:
                    probs.append("the core call receives %s instead of (token, key, self.footer%s)" % (a, ", self.implicit_assertion" if len(want) > 3 else ""))
                if "core_result is Ok" in s.cond:
                    authed.append(o)
                    continue
                touched = [x for x in s.events if x[0] == "validator"] or [c for c in s.cond if "json(" in c or c.startswith("to_value(expected")]
                r = I.resolve(s, o.value)
                if touched:
                    probs.append("claims are examined although the core call did not succeed (%s)" % (touched[:2],))
                if isinstance(r, A.Struct) and r.variant == "Ok":
                    probs.append("Ok is returned although the core call did not succeed")
            _f(ctr, "C03.R6", not probs, bid, "claims only after authentication" if not probs else probs[0][:80], "; ".join(sorted(set(probs)))[:500], line, file,
               desc="%s: core call with (token, key, self.footer, ..); the payload is examined only on its Ok value" % e.label)
            tbl += _table(I, authed, "plaintext", bid, line, file, label=e.label, cfg=cfg)
            per.append((cfg, tbl, ctr))
        table += merge([(c, t) for c, t, _x in per])
        contracts += merge([(c, x) for c, _t, x in per])

    _pl[k] = (table, contracts)
    return _pl[k]


def parse_contracts(facts, entries):
    out = []
    if not [1 for bid, b in facts.bodies.items() if (b.get("name") or bid.rsplit("::", 1)[-1]) == "verify_claims" and "GenericParser" in bid]:
        return parse_level(facts, entries)[1]
    for e in S.select(entries, "generic", "consumer"):
        b = e.body
        v = M.view(facts, b)
        bid, file, line = e.id, v.file(), b["line"]

        def core_stub(I, st, args):
            st.events.append(("core_call", [MD.describe(I, st, a) if i != 1 else repr(MD.deref(I, st, a))[:40] for i, a in enumerate(args)]))
            return A.Sym("core_result", attrs={"adt": "core::result::Result", "make_variant": lambda s2, sym, variant: A.ok(A.Seq("plaintext", A.Aff.sym("len(plaintext)"), kind="str")) if variant == "Ok" else A.err(A.Sym("PasetoError"))})

        def vc_stub(I, st, args):
            st.events.append(("verify_claims", MD.describe(I, st, args[1]) if len(args) > 1 else "?"))
            return A.Sym("claims_result", attrs={"adt": "core::result::Result", "make_variant": lambda s2, sym, variant: A.ok(A.Sym("claims_json")) if variant == "Ok" else A.err(A.Sym("GenericParserError"))})
        probs = []
        outs_all = []
        undecided = None
        for order in (0, 1):
            I = interp(facts, stubs=[(re.compile(r"paseto::Paseto<.*>>::(try_decrypt|try_verify)$"), core_stub), (re.compile(r"GenericParser::<.*>::verify_claims$"), vc_stub)])
            st = A.State()
            me = st.new_cell(parser_value(st, None, facts, order=order))
            args = [A.Ptr(me), A.Seq("token", A.Aff.sym("len(token)"), kind="str"), A.Ptr(st.new_cell(A.Sym("key")))]
            outs = I.run(b, args, st)
            und = [o for o in outs if o.kind != "return" or o.state.unmodelled or any("undecided" in n for n in o.state.notes)]
            if und or not outs:
                o = und[0] if und else None
                undecided = "no outcome" if o is None else "%s %s %s" % (o.kind, o.state.unmodelled[:2], o.state.notes[:1])
                break
            outs_all += [(I, o) for o in outs]
        if undecided:
            _f(out, "C03.R6", None, bid, "parse not decided by the abstract interpreter", undecided, line, file)
            continue
        for I, o in outs_all:
            s = o.state
            r = I.resolve(s, o.value)
            core = [x for x in s.events if x[0] == "core_call"]
            vcs = [x for x in s.events if x[0] == "verify_claims"]
            core_ok = "core_result is Ok" in s.cond
            if len(core) != 1:
                probs.append("the authenticating core call is made %d times on a path" % len(core))
                continue
            a = core[0][1]
            want = ["token", None, "self.footer"] + (["self.assertion"] if e.vp[0] in ("V3", "V4") else [])
            got = [a[0], None] + a[2:]
            if got != want or "key" not in a[1]:
                probs.append("the core call receives %s instead of (token, key, self.footer%s)" % (a, ", self.implicit_assertion" if len(want) > 3 else ""))
            if vcs and not core_ok:
                probs.append("claims are examined although the core call did not succeed")
            if vcs and any(x[1] != "plaintext" for x in vcs):
                probs.append("verify_claims is given %s, not the authenticated plaintext" % [x[1] for x in vcs])
            if len(vcs) > 1:
                probs.append("verify_claims runs %d times" % len(vcs))
            is_ok = isinstance(r, A.Struct) and r.variant == "Ok"
            if is_ok:
                okv = MD.deref(I, s, r.fields.get("0"))
                if not (core_ok and len(vcs) == 1 and "claims_result is Ok" in s.cond and isinstance(okv, A.Sym) and okv.name == "claims_json"):
                    probs.append("Ok(%r) is returned without the core call and verify_claims both having succeeded" % (okv,))
            elif core_ok and not vcs:
                probs.append("the parse fails after a successful core call without the claims having been examined")
        _f(out, "C03.R6", not probs, bid, "claims only after authentication" if not probs else probs[0][:80], "; ".join(sorted(set(probs)))[:500], line, file,
           desc="%s: core call with (token, key, self.footer, ..); verify_claims only on its Ok value; Ok only when both succeeded" % e.label)
    return out


# ------------------------------------------------------------------ registration (check_claim / validate_claim / extend_*): state contracts
def _showmap(I, st, x):
    x = MD.deref(I, st, x)
    if not MI.is_map(x):
        return None
    ents = []
    for e in MI._entries(x):
        v = MD.deref(I, st, e.fields["1"])
        ents.append((str(MD.str_key(I, st, e.fields["0"])[1]), getattr(v, "name", repr(v))))
    return dict(ents) if len(dict(ents)) == len(ents) else None


def registration_contracts(facts):
    """C15.R5 / C16.R5: the registration functions of GenericParser are interpreted from every combination of pre-existing entries
    (expected claims and validators: none, one under another key, one under the same key, both) and the maps afterwards are compared with
    the stated contract: the new entry is stored under the claim's key replacing an earlier one, every other entry of both maps is kept."""
    out = []
    O, N = "other", "fresh"

    def find(name, owner):
        bs = [b for bid, b in facts.bodies.items() if (b.get("name") or bid.rsplit("::", 1)[-1]) == name and re.search(owner, bid) and "{closure" not in bid]
        return bs[0] if len(bs) == 1 else None
    GP, PP = r"generic_parser::GenericParser::<", r"paseto_parser::PasetoParser::<"
    fns = [("check_claim", ("C15.R5",), GP), ("validate_claim", ("C15.R5", "C16.R5"), GP), ("extend_check_claims", ("C15.R5",), GP), ("extend_validation_claims", ("C16.R5",), GP),
           ("check_claim", ("C15.R5",), PP), ("validate_claim", ("C15.R5", "C16.R5"), PP)]
    for name, rules, owner in fns:
        b = find(name, owner)
        prelude = owner == PP
        if b is None:
            for r in rules:
                _f(out, r, False, ("PasetoParser::" if prelude else "GenericParser::") + name, "anchor missing", "registration function %s not found" % name)
            continue
        v = M.view(facts, b)
        bid, file, line = b["id"], v.file(), b["line"]
        probs = {"C15.R5": [], "C16.R5": []}
        und = None
        for K in ("K", ""):
            # (also a claim whose key is the empty string: the generic builder writes no such claim, but a token from elsewhere may carry
            # one, and an expectation / validator registered for it counts like any other)
            subsets = [[], [O], [K], [K, O]]
            for cs in subsets:
                for vs in subsets:
                    I = interp(facts)
                    st = A.State()
                    claims0 = dict((k, "oldE_" + k) for k in cs)
                    vals0 = dict((k, "oldV_" + k) for k in vs)
                    pv = parser_value(st, None, facts)
                    pv.fields["claims"] = MI.mapv("claims", [(A.StrV(k), A.Sym(n, attrs={"expected_of": k})) for k, n in claims0.items()])
                    pv.fields["claim_validators"] = MI.mapv("claim_validators", [(A.StrV(k), A.Sym(n, attrs={"validator": n})) for k, n in vals0.items()])
                    if prelude:
                        pv = A.Struct("crate::prelude::paseto_parser::PasetoParser", None, {"version": A.UNIT, "purpose": A.UNIT, "parser": pv})
                    me = st.new_cell(pv)
                    newc = A.Sym("NEW", attrs={"claim_key": K, "expected_of": K})
                    newf = A.Sym("F", attrs={"validator": "F"})
                    want_c, want_v = dict(claims0), dict(vals0)
                    if name == "check_claim":
                        args = [A.Ptr(me), newc]
                        want_c[K] = "NEW"
                    elif name == "validate_claim":
                        args = [A.Ptr(me), newc, A.Ptr(st.new_cell(newf))]
                        want_c[K] = "NEW"
                        want_v[K] = "F"
                    elif name == "extend_check_claims":
                        args = [A.Ptr(me), MI.mapv("arg", [(A.StrV(K), A.Sym("NEW_K")), (A.StrV(N), A.Sym("NEW_fresh"))])]
                        want_c.update({K: "NEW_K", N: "NEW_fresh"})
                    else:
                        args = [A.Ptr(me), MI.mapv("arg", [(A.StrV(K), A.Sym("F_K")), (A.StrV(N), A.Sym("F_fresh"))])]
                        want_v.update({K: "F_K", N: "F_fresh"})
                    outs = I.run(b, args, st)
                    bad = [o for o in outs if o.kind != "return" or o.state.unmodelled or any("undecided" in n for n in o.state.notes)]
                    if bad or not outs:
                        o = bad[0] if bad else None
                        und = "no outcome" if o is None else "%s; unmodelled %s; notes %s" % (o.kind, o.state.unmodelled[:2], [n for n in o.state.notes if "undecided" in n][:1])
                        break
                    pre = "expected claims %s, validators %s" % (sorted(claims0), sorted(vals0))
                    for o in outs:
                        me_v = MD.deref(I, o.state, A.Ptr(me))
                        if prelude and isinstance(me_v, A.Struct):
                            me_v = MD.deref(I, o.state, me_v.fields.get("parser"))
                        gc = _showmap(I, o.state, me_v.fields.get("claims")) if isinstance(me_v, A.Struct) else None
                        gv = _showmap(I, o.state, me_v.fields.get("claim_validators")) if isinstance(me_v, A.Struct) else None
                        if gc is None or gv is None:
                            und = "the parser's maps are not concrete after the call"
                            break
                        # (a plain check_claim leaves the validators alone, the one under the same key included: a validator stays
                        # registered - and keeps deciding its claim - until another validator replaces it)
                        wv = want_v
                        # an expectation may be kept as given or already serialised (to_value of it)
                        gc = dict((k, "NEW" if x == "expected(%s)" % K and want_c.get(k) == "NEW" else x) for k, x in gc.items())
                        if gc != want_c:
                            probs["C15.R5"].append("from [%s] the expected claims become %s, not %s" % (pre, sorted(gc.items()), sorted(want_c.items())))
                        if gv != wv:
                            probs["C16.R5"].append("from [%s] the validators become %s, not %s" % (pre, sorted(gv.items()), sorted(wv.items())))
                    if und:
                        break
                if und:
                    break
            if und:
                break
        for r in ("C15.R5", "C16.R5"):
            if und:
                if r in rules:
                    _f(out, r, None, bid, "%s not decided by the abstract interpreter" % name, und, line, file)
                continue
            # the other map must be left alone by every registration function: reported under the rule of the map that was disturbed
            ok = not probs[r]
            if r in rules or not ok:
                _f(out, r, ok, bid, "registration contract of %s" % name,
                   "%s must store the new entry under the claim's key (replacing an earlier one) and keep every other expected claim and validator; %s" % (name, "; ".join(probs[r][:2])),
                   line, file, desc="%s%s: from all 16 combinations of earlier entries the %s afterwards are the earlier ones with the new entry stored under its key" % ("PasetoParser::" if prelude else "", name, "expected claims" if r == "C15.R5" else "validators"))
    return out


_memo = {}


def analyse(facts, entries=None):
    k = id(facts)
    if k not in _memo:
        fs = verify_claims_table(facts, entries)
        if entries is not None:
            fs += parse_contracts(facts, entries)
        _memo[k] = fs
    return _memo[k]
