"""Layer contracts of the generic and prelude wrappers, decided by abstract interpretation.

Each wrapper entry point is interpreted on an opaque `self`; the public entry points of the layer below are replaced by
summaries that record their arguments (events) and return an opaque Result.  The contract of the wrapper is then read off
the events of every path, whatever the wrapper's code looks like (helpers, closures, combinators, `?` or `match`):

  prelude parse    exactly one GenericParser::parse(self.parser, token, key); its result is returned
  prelude build    duplicate flag set  -> Err before anything else, no build
                   otherwise           -> remove_claim("exp") iff the no-expiration flag is set, then exactly one
                                          GenericBuilder::try_encrypt / try_sign(self.builder, key); its result is returned
  generic produce  payload = build_payload_from_claims()?; one core try_encrypt / try_sign on a core builder that holds
                   exactly that payload, self.footer and (v3 / v4) self.implicit_assertion, with the key parameter and (local) a nonce
                   made from one fresh Key::try_new_random(); nothing of the builder's own state is written
  setters          afterwards the field holds the argument, on every path
(generic parse: rules/claims_sem.py)."""
import re

from . import absint as A
from . import mir as M
from . import models as MD
from . import skeleton as S
from .protocol_base import Finding


def _f(out, rule, ok, where, construct, msg, line=None, file=None, desc=None):
    out.append(Finding(rule, ok, where, construct, msg, file, line, desc))


def _res_sym(name, okv, errv):
    return A.Sym(name, attrs={"adt": "core::result::Result", "make_variant": lambda s2, sym, variant: A.ok(okv) if variant == "Ok" else A.err(errv)})


def _undecided(outs):
    und = [o for o in outs if o.kind != "return" or o.state.unmodelled or any("undecided" in n for n in o.state.notes)]
    if und or not outs:
        o = und[0] if und else None
        return "no outcome" if o is None else "%s; unmodelled %s; %s; when [%s]" % (o.kind, o.state.unmodelled[:2], [n for n in o.state.notes if "undecided" in n][:1], " & ".join(o.state.cond)[-160:])
    return None


def _interp(facts, stubs):
    I = A.Interp(facts, MD.MODELS, max_paths=20000)
    I.fn_stubs = [(re.compile(p), f) for p, f in stubs]
    return I


def _d(I, st, v, depth=0):
    """description of a value; single-payload carriers (Key, PasetoNonce, Footer ..) are described by their content"""
    x = MD.deref(I, st, v)
    if isinstance(x, A.Struct) and depth < 5 and x.adt not in ("core::option::Option", "core::result::Result"):
        for k in ("key", "0", "header"):
            if k in x.fields:
                return _d(I, st, x.fields[k], depth + 1)
    return MD.describe(I, st, v)


# ------------------------------------------------------------------ prelude
def prelude_consumers(facts, entries):
    out = {}
    for e in S.select(entries, "prelude", "consumer"):
        b = e.body
        v = M.view(facts, b)

        def gp(I, st, args):
            st.events.append(("generic_parse", [_d(I, st, a) for a in args]))
            return A.Sym("generic_result")
        I = _interp(facts, [(r"GenericParser::<.*>::parse$", gp)])
        st = A.State()
        me = st.new_cell(A.Struct("crate::prelude::paseto_parser::PasetoParser", None, {"version": A.UNIT, "purpose": A.UNIT, "parser": A.Sym("self.parser")}))
        outs = I.run(b, [A.Ptr(me), A.Seq("token", A.Aff.sym("len(token)"), kind="str"), A.Ptr(st.new_cell(A.Sym("key")))], st)
        und = _undecided(outs)
        if und:
            out[e.id] = None, und
            continue
        probs = []
        for o in outs:
            evs = [x for x in o.state.events if x[0] == "generic_parse"]
            r = I.resolve(o.state, o.value)
            if len(evs) != 1 or evs[0][1] != ["self.parser", "token", "key"]:
                probs.append("the entry point must make exactly one call GenericParser::parse(self.parser, token, key); found %s" % [x[1] for x in evs])
            elif not (isinstance(r, A.Sym) and r.name == "generic_result"):
                probs.append("the generic parser's result is not returned as it is (%r)" % (r,))
        fs = []
        for rl in ("C01.R7" if e.vp[1] == "Local" else "C02.R5", "C03.R6"):
            _f(fs, rl, not probs, e.id, "delegation" if not probs else probs[0][:80], "; ".join(sorted(set(probs)))[:400], b["line"], v.file(), desc="%s: delegates to GenericParser::parse(self.parser, token, key)" % e.label)
        out[e.id] = fs, None
    return out


def generic_consumers(facts, entries):
    """GenericParser::parse interpreted with the core call and verify_claims summarised (rules/claims_sem.py parse_contracts): exactly one
    core call with (token, key, self.footer[, self.implicit_assertion]) on every path - through whatever private helpers and traits"""
    from . import claims_sem
    out = {}
    by = {}
    for f in claims_sem.parse_contracts(facts, entries):
        by.setdefault(f.where, []).append(f)
    for e in S.select(entries, "generic", "consumer"):
        fs0 = by.get(e.id, [])
        if not fs0 or any(f.ok is None for f in fs0):
            out[e.id] = None, (fs0[0].msg if fs0 else "no contract computed")
            continue
        ok = all(f.ok for f in fs0)
        msg = "; ".join(f.msg for f in fs0 if not f.ok)[:400]
        v = M.view(facts, e.body)
        fs = []
        rl = "C01.R7" if e.vp[1] == "Local" else "C02.R5"
        _f(fs, rl, ok, e.id, "token and key forwarded" if ok else "core call contract", msg, e.body["line"], v.file(), desc="%s: token, key forwarded to one core call" % e.label)
        _f(fs, "C05.R5", ok, e.id, "expected footer forwarded" if ok else "core call contract", msg, e.body["line"], v.file(), desc="%s: self.footer forwarded" % e.label)
        if e.vp[0] in ("V3", "V4"):
            _f(fs, "C06.R4", ok, e.id, "expected assertion forwarded" if ok else "core call contract", msg, e.body["line"], v.file(), desc="%s: self.implicit_assertion forwarded" % e.label)
        out[e.id] = fs, None
    return out


def prelude_producers(facts, entries):
    out = {}
    from . import builder_sem
    seqs = builder_sem.analyse_cached(facts, entries)
    for e in S.select(entries, "prelude", "producer"):
        b = e.body
        v = M.view(facts, b)
        if seqs.get(e.id, (None, None))[0] is not None:
            # decided over call sequences from default() (rules/builder_sem.py): nothing is assumed about how the builder keeps its state
            out[e.id] = seqs[e.id]
            continue

        def gb(I, st, args):
            st.events.append(("generic_build", [_d(I, st, a) for a in args]))
            return A.Sym("generic_result")

        def rm(I, st, args):
            st.events.append(("remove_claim", [_d(I, st, a) for a in args]))
            return args[0]

        def other(name):
            def f(I, st, args):
                st.events.append((name, [_d(I, st, a) for a in args]))
                return args[0] if args else A.UNIT
            return f
        I = _interp(facts, [(r"GenericBuilder::<.*>::(try_encrypt|try_sign)$", gb), (r"GenericBuilder::<.*>::remove_claim$", rm),
                            (r"GenericBuilder::<.*>::(set_claim|set_footer|set_implicit_assertion|extend_claims)$", other("builder_mutation"))])
        st = A.State()
        flag = A.Struct("(tuple)", None, {"0": A.SymBool("dup"), "1": A.Seq("dupkey", A.Aff.sym("len(dupkey)"), kind="str")})
        me = st.new_cell(A.Struct("crate::prelude::paseto_builder::PasetoBuilder", None, {"version": A.UNIT, "purpose": A.UNIT, "builder": A.Sym("self.builder"),
                                                                                           "top_level_claims": A.Sym("self.top_level_claims"), "dup_top_level_found": flag, "non_expiring_token": A.SymBool("noexp")}))
        outs = I.run(b, [A.Ptr(me), A.Ptr(st.new_cell(A.Sym("key")))], st)
        und = _undecided(outs)
        if und:
            out[e.id] = None, und
            continue
        probs = []
        seen = set()
        for o in outs:
            s = o.state
            dup = s.facts.get(("cond", "dup"))
            noexp = s.facts.get(("cond", "noexp"))
            seen.add((dup, noexp))
            builds = [x for x in s.events if x[0] == "generic_build"]
            rms = [x for x in s.events if x[0] == "remove_claim"]
            muts = [x for x in s.events if x[0] == "builder_mutation"]
            r = I.resolve(s, o.value)
            cond = " & ".join(s.cond)[-120:]
            if muts:
                probs.append("building changes the builder's claims / footer (%s)" % muts[0][1])
            cur = MD.deref(I, s, A.Ptr(me))
            if isinstance(cur, A.Struct):
                fl = I.resolve(s, cur.fields.get("dup_top_level_found"))
                ne = I.resolve(s, cur.fields.get("non_expiring_token"))
                if not (isinstance(fl, A.Struct) and isinstance(I.resolve(s, fl.fields.get("0")), A.SymBool) and I.resolve(s, fl.fields.get("0")).desc == "dup"):
                    probs.append("building overwrites the duplicate flag (%r): a recorded duplicate would be forgotten" % (fl,))
                if not (isinstance(ne, A.SymBool) and ne.desc == "noexp"):
                    probs.append("building overwrites the no-expiration acknowledgement (%r)" % (ne,))
            if dup is True:
                if builds:
                    probs.append("a token is built although a duplicate top-level claim was recorded")
                ev = MD.deref(I, s, r.fields.get("0")) if isinstance(r, A.Struct) and r.variant == "Err" else None
                g = 0
                while isinstance(ev, A.Struct) and ev.adt == "(converted)" and g < 4:
                    ev = MD.deref(I, s, ev.fields.get("source"))
                    g += 1
                if not (isinstance(ev, A.Struct) and ev.variant == "DuplicateTopLevelPayloadClaim" and _d(I, s, ev.fields.get("0")) == "dupkey"):
                    probs.append("with a recorded duplicate the result is %r, not Err(DuplicateTopLevelPayloadClaim(recorded key))" % (r,))
            else:
                if dup is None:
                    probs.append("a path does not consult the duplicate flag [%s]" % cond)
                if len(builds) != 1 or builds[0][1] != ["self.builder", "key"]:
                    probs.append("expected exactly one GenericBuilder::try_encrypt / try_sign(self.builder, key); found %s" % [x[1] for x in builds])
                elif not (isinstance(r, A.Sym) and r.name == "generic_result"):
                    probs.append("the generic builder's result is not returned as it is (%r)" % (r,))
                # the removal must precede the build
                order = [x[0] for x in s.events if x[0] in ("remove_claim", "generic_build")]
                if "remove_claim" in order and "generic_build" in order and order.index("remove_claim") > order.index("generic_build"):
                    probs.append("the expiration claim is removed after the token was built")
            want_rm = noexp is True
            ok_rm = (len(rms) == 1 and rms[0][1] == ["self.builder", "'exp'"]) if want_rm else not rms
            if noexp is None and dup is not True:
                probs.append("a path does not consult the no-expiration acknowledgement [%s]" % cond)
            elif not ok_rm and not (dup is True and not rms and False):
                if want_rm or rms:
                    probs.append("remove_claim(\"exp\") must run exactly when the no-expiration acknowledgement is set (acknowledged=%s, removals=%s)" % (noexp, [x[1] for x in rms]))
        fs = []
        rl = "C01.R7" if e.vp[1] == "Local" else "C02.R5"
        for r2 in (rl, "C10.R4", "C13.R4", "C17.R4", "C13.R2", "C17.R2"):
            if r2 == "C10.R4" and e.vp[1] != "Local":
                continue
            _f(fs, r2, not probs, e.id, "build contract" if not probs else probs[0][:80], "; ".join(sorted(set(probs)))[:500], b["line"], v.file(),
               desc="%s: duplicate -> Err first; exp removed iff acknowledged; then one GenericBuilder build whose result is returned" % e.label)
        out[e.id] = fs, None
    return out


# ------------------------------------------------------------------ generic producers
def generic_producers(facts, entries):
    out = {}
    for e in S.select(entries, "generic", "producer"):
        b = e.body
        v = M.view(facts, b)
        V, P = e.vp

        def payload_stub(I, st, args):
            st.events.append(("build_payload", [_d(I, st, args[0])]))
            return _res_sym("payload_result", A.Seq("payload_json", A.Aff.sym("len(payload_json)"), kind="str"), A.Sym("serde_json::Error"))

        def rng_stub(I, st, args):
            n = st.facts.get("nrng", 0)
            st.facts["nrng"] = n + 1
            nm_ = M.decode_typenum(getattr(I, "_cur_info", {}).get("name", ""))
            mm = re.search(r"Key::<(\d+)>::try_new_random", nm_)
            size = int(mm.group(1)) if mm else None
            if size is None:
                # drawn inside a helper that is generic in the size (`Key::<SIZE>::try_new_random()`): the value the helper was called with
                mc = re.search(r"Key::<([A-Z][A-Z0-9_]*)>::try_new_random", nm_)
                fr_ = getattr(I, "_cur_frame", None)
                if mc and fr_ is not None and mc.group(1) in (fr_.consts or {}):
                    size = fr_.consts[mc.group(1)]
            st.events.append(("fresh_key", n, size))
            return _res_sym("rng_result%d" % n, A.Struct("crate::core::key::keys::Key", None, {"0": A.Seq("fresh%d" % n, A.Aff.sym("len(fresh%d)" % n), kind="array")}), A.Sym("PasetoError"))

        def core_stub(I, st, args):
            obj = MD.deref(I, st, args[0])
            det = {}
            if isinstance(obj, A.Struct):
                for k in ("payload", "footer", "implicit_assertion"):
                    fv = MD.deref(I, st, obj.fields.get(k))
                    if isinstance(fv, A.Struct) and fv.adt == "core::option::Option":
                        det[k] = "None" if fv.variant == "None" else "Some(%s)" % _d(I, st, fv.fields.get("0"))
                    else:
                        det[k] = _d(I, st, fv)
            st.events.append(("core_call", det, [_d(I, st, a) for a in args[1:]]))
            return _res_sym("core_result", A.Seq("token_text", A.Aff.sym("len(token_text)"), kind="str"), A.Sym("PasetoError"))
        I = _interp(facts, [(r"GenericBuilder::<.*>::build_payload_from_claims$", payload_stub), (r"key::keys::Key::<KEYSIZE>::try_new_random$|Key::<.*>::try_new_random$", rng_stub),
                            (r"paseto::Paseto<.*>>::(try_encrypt|try_sign)$", core_stub)])
        st = A.State()

        def opt(name, carrier):
            def mk(st_, sym, variant):
                if variant == "None":
                    return A.none()
                return A.some(A.Struct(carrier, None, {"0": A.Seq(name, A.Aff.sym("len(%s)" % name), kind="str")}))
            return A.Sym("self." + name, attrs={"adt": "core::option::Option", "make_variant": mk})
        me_v = A.Struct("crate::generic::builders::generic_builder::GenericBuilder", None, {"version": A.UNIT, "purpose": A.UNIT, "claims": A.Sym("self.claims"),
                                                                                            "footer": opt("F", "crate::core::footer::Footer"), "implicit_assertion": opt("A", "crate::core::implicit_assertion::ImplicitAssertion")})
        me = st.new_cell(me_v)
        outs = I.run(b, [A.Ptr(me), A.Ptr(st.new_cell(A.Sym("key")))], st)
        und = _undecided(outs)
        if und:
            out[e.id] = None, und
            continue
        probs = {"plumb": [], "footer": [], "assertion": [], "nonce": [], "state": []}
        n_ok = 0
        for o in outs:
            s = o.state
            r = I.resolve(s, o.value)
            cond = " & ".join(s.cond)[-160:]
            pays = [x for x in s.events if x[0] == "build_payload"]
            cores = [x for x in s.events if x[0] == "core_call"]
            fresh = [x for x in s.events if x[0] == "fresh_key"]
            fsome = "self.F is Some" in s.cond
            fnone = "self.F is None" in s.cond
            asome = "self.A is Some" in s.cond
            anone = "self.A is None" in s.cond
            # the builder's own state is unchanged
            cur = MD.deref(I, s, A.Ptr(me))
            if isinstance(cur, A.Struct):
                for k in ("claims", "footer", "implicit_assertion"):
                    fv = I.resolve(s, cur.fields.get(k))
                    orig = me_v.fields[k]
                    if isinstance(fv, A.Sym) and fv.id == orig.id:
                        continue
                    rv = s.refine.get(orig.id)
                    if rv is not None and fv is rv:
                        continue
                    if isinstance(fv, A.Struct) and rv is not None and isinstance(rv, A.Struct) and repr(fv) == repr(rv):
                        continue
                    probs["state"].append("building writes GenericBuilder.%s (%r)" % (k, fv))
            payload_ok = "payload_result is Ok" in s.cond
            if len(pays) > 1:
                probs["plumb"].append("build_payload_from_claims is called %d times" % len(pays))
            if cores and not payload_ok:
                probs["plumb"].append("the core call is made without a successfully built payload")
            if len(cores) > 1:
                probs["plumb"].append("the core call is made %d times" % len(cores))
            is_ok = isinstance(r, A.Struct) and r.variant == "Ok"
            if is_ok:
                n_ok += 1
                okv = MD.deref(I, s, r.fields.get("0"))
                if not (len(cores) == 1 and "core_result is Ok" in s.cond and isinstance(okv, A.Seq) and okv.name == "token_text"):
                    probs["plumb"].append("Ok(%r) is returned without being the core call's token" % (okv,))
            elif isinstance(r, A.Struct) and r.variant == "Err":
                # a build is refused only because the payload could not be serialised, no randomness was available or the core call failed:
                # for every footer / assertion the caller may set (the empty ones included) a token exists
                caused = any(c in ("payload_result is Err", "core_result is Err") or re.match(r"rng_result\d+ is Err$", c) for c in s.cond)
                if not caused:
                    msg = "the build is refused although the payload was built, randomness was available and the core call did not fail [%s]" % cond
                    probs["plumb"].append(msg)
                    if asome:
                        probs["assertion"].append(msg)
                    if fsome:
                        probs["footer"].append(msg)
            for c in cores:
                det, rest = c[1], c[2]
                if det.get("payload") != "payload_json":
                    probs["plumb"].append("the core builder's payload is %s, not the JSON of build_payload_from_claims" % det.get("payload"))
                if not rest or rest[0] != "key":
                    probs["plumb"].append("the core call receives %s instead of the key parameter" % (rest[:1],))
                def nrm(x):
                    # absent and empty are the same footer / assertion; how the core builder keeps it (Option or plain value) is its business
                    x = str(x)
                    if x in ("None", "''", "Some('')"):
                        return "None"
                    m_ = re.match(r"^Some\((.*)\)$", x)
                    return "Some(%s)" % (m_.group(1) if m_ else x)
                wantf = "Some(F)" if fsome else "None"
                if (fsome or fnone) and nrm(det.get("footer")) != wantf:
                    probs["footer"].append("the core builder's footer is %s although the generic builder's is %s [%s]" % (det.get("footer"), wantf, cond))
                if not (fsome or fnone):
                    probs["footer"].append("the generic builder's footer is not consulted before the core call [%s]" % cond)
                if V in ("V3", "V4"):
                    wanta = "Some(A)" if asome else "None"
                    if (asome or anone) and nrm(det.get("implicit_assertion")) != wanta:
                        probs["assertion"].append("the core builder's implicit assertion is %s although the generic builder's is %s" % (det.get("implicit_assertion"), wanta))
                    if not (asome or anone):
                        probs["assertion"].append("the generic builder's implicit assertion is not consulted before the core call")
                if P == "Local":
                    ok_n = len(fresh) == 1 and len(rest) > 1 and re.fullmatch(r"fresh0", rest[1] or "") is not None
                    if not ok_n:
                        probs["nonce"].append("the nonce handed to the core call is %s; expected one fresh Key::try_new_random() per build (draws: %d)" % (rest[1:2], len(fresh)))
                    want_n = {"V1": (32,), "V2": (24, 32), "V3": (32,), "V4": (32,)}[V]
                    if fresh and fresh[0][2] not in want_n:
                        probs["nonce"].append("the random key drawn for the nonce has %s bytes; %s.local needs %s" % (fresh[0][2], V.lower(), " or ".join(str(x) for x in want_n)))
        if n_ok == 0:
            probs["plumb"].append("no successful outcome")
        fs = []
        rl = "C01.R7" if P == "Local" else "C02.R5"
        lab = e.label
        _f(fs, rl, not (probs["plumb"] + probs["state"] + probs["footer"] + probs["assertion"]), e.id, "generic build contract" if not (probs["plumb"] + probs["state"] + probs["footer"] + probs["assertion"]) else (probs["plumb"] + probs["state"] + probs["footer"] + probs["assertion"])[0][:80],
           "; ".join(sorted(set(probs["plumb"] + probs["state"] + probs["footer"] + probs["assertion"])))[:500], b["line"], v.file(), desc="%s: payload, key, footer%s forwarded to one core call; builder state untouched" % (lab, ", assertion" if V in ("V3", "V4") else ""))
        _f(fs, "C05.R5", not (probs["footer"] + [p for p in probs["state"] if ".footer" in p]), e.id, "footer forwarded" if not probs["footer"] else probs["footer"][0][:80], "; ".join(sorted(set(probs["footer"] + probs["state"])))[:400], b["line"], v.file(), desc="%s: footer forwarded, kept" % lab)
        if V in ("V3", "V4"):
            _f(fs, "C06.R4", not (probs["assertion"] + [p for p in probs["state"] if "implicit_assertion" in p]), e.id, "assertion forwarded" if not probs["assertion"] else probs["assertion"][0][:80], "; ".join(sorted(set(probs["assertion"] + probs["state"])))[:400], b["line"], v.file(), desc="%s: assertion forwarded, kept" % lab)
        if P == "Local":
            for r2 in ("C10.R4", "C10.R1"):
                _f(fs, r2, not probs["nonce"], e.id, "fresh nonce per build" if not probs["nonce"] else probs["nonce"][0][:80], "; ".join(sorted(set(probs["nonce"])))[:400], b["line"], v.file(), desc="%s: nonce = one fresh Key::try_new_random() per build" % lab)
        pay = [x for x in probs["plumb"] if "payload" in x]
        _f(fs, "C14.R6", not pay, e.id, "payload handed on as built" if not pay else pay[0][:80], "; ".join(sorted(set(pay)))[:400], b["line"], v.file(),
           desc="%s: the core builder's payload is the text build_payload_from_claims returned, nothing applied to it in between" % lab)
        _f(fs, "C13.R5", not probs["state"], e.id, "build keeps the builder's state" if not probs["state"] else probs["state"][0][:80], "; ".join(sorted(set(probs["state"])))[:400], b["line"], v.file(), desc="%s: builder state untouched" % lab)
        out[e.id] = fs, None
    return out


# ------------------------------------------------------------------ setters
SETTERS = [
    (r"paseto::Paseto::<'a, Version, Purpose>::set_footer$", "crate::core::paseto::Paseto", "footer", True, ("C05.R5", "C01.R7", "C02.R5")),
    (r"paseto::Paseto::<'a, Version, Purpose>::set_implicit_assertion$", "crate::core::paseto::Paseto", "implicit_assertion", True, ("C06.R4", "C01.R7", "C02.R5")),
    (r"paseto::Paseto::<'a, Version, Purpose>::set_payload$", "crate::core::paseto::Paseto", "payload", False, ("C01.R7", "C02.R5")),
    (r"GenericBuilder::<'a, 'b, Version, Purpose>::set_footer$", "crate::generic::builders::generic_builder::GenericBuilder", "footer", True, ("C05.R5", "C01.R7", "C02.R5")),
    (r"GenericBuilder::<'a, 'b, Version, Purpose>::set_implicit_assertion$", "crate::generic::builders::generic_builder::GenericBuilder", "implicit_assertion", True, ("C06.R4", "C01.R7", "C02.R5")),
    (r"GenericParser::<'a, 'b, Version, Purpose>::set_footer$", "crate::generic::parsers::generic_parser::GenericParser", "footer", False, ("C05.R5", "C01.R7", "C02.R5")),
    (r"GenericParser::<'a, 'b, Version, Purpose>::set_implicit_assertion$", "crate::generic::parsers::generic_parser::GenericParser", "implicit_assertion", False, ("C06.R4", "C01.R7", "C02.R5")),
]
FORWARDERS = [
    (r"PasetoBuilder::<'a, Version, Purpose>::set_footer$", "crate::prelude::paseto_builder::PasetoBuilder", "builder", r"GenericBuilder::<.*>::set_footer$", ("C05.R5", "C01.R7", "C02.R5")),
    (r"PasetoBuilder::<'a, Version, Purpose>::set_implicit_assertion$", "crate::prelude::paseto_builder::PasetoBuilder", "builder", r"GenericBuilder::<.*>::set_implicit_assertion$", ("C06.R4", "C01.R7", "C02.R5")),
    (r"PasetoParser::<'a, Version, Purpose>::set_footer$", "crate::prelude::paseto_parser::PasetoParser", "parser", r"GenericParser::<.*>::set_footer$", ("C05.R5", "C01.R7", "C02.R5")),
    (r"PasetoParser::<'a, Version, Purpose>::set_implicit_assertion$", "crate::prelude::paseto_parser::PasetoParser", "parser", r"GenericParser::<.*>::set_implicit_assertion$", ("C06.R4", "C01.R7", "C02.R5")),
]


def setters(facts):
    out = {}
    for pat, adt, field, optional, rules in SETTERS:
        bs = [b for bid, b in facts.bodies.items() if re.search(pat, bid)]
        if len(bs) != 1:
            out[pat] = [Finding(r, False, pat, "setter missing", "expected one setter matching %s" % pat) for r in rules], None
            continue
        b = bs[0]
        v = M.view(facts, b)
        I = _interp(facts, [])
        st = A.State()
        me_v = A.Sym("self")
        me = st.new_cell(me_v)
        arg = A.Struct("(carrier)", None, {"0": A.Seq("X", A.Aff.sym("len(X)"), kind="str")})
        outs = I.run(b, [A.Ptr(me), arg], st)
        und = _undecided(outs)
        if und:
            out[b["id"]] = None, und
            continue
        probs = []
        for o in outs:
            fv = o.state.symfields.get((me_v.id, field))
            fv = MD.deref(I, o.state, fv) if fv is not None else None
            # the argument, kept as it is or wrapped in Some (either representation of "a footer was set")
            good = fv is not None and ((isinstance(fv, A.Struct) and fv.variant == "Some" and _d(I, o.state, fv.fields.get("0")) == "X") or (not (isinstance(fv, A.Struct) and fv.adt == "core::option::Option") and _d(I, o.state, fv) == "X"))
            if not good:
                probs.append("after the call .%s is %r, not the argument, when [%s]" % (field, fv, " & ".join(o.state.cond)[-120:]))
        how = "stores its argument"
        if probs and "generic_parser::GenericParser" in b["id"]:
            # the expected values are kept differently (Option fields, a nested private struct ..): decided through the API instead - a
            # parser obtained by default(), set_footer(F), set_implicit_assertion(A) hands F and A to the core call of every parse method
            from . import claims_sem
            if claims_sem.api_state_decides(facts):
                probs = []
                how = "what it is given reaches the core call of every parse method (state built through default() and the setters)"
        fs = [Finding(r, not probs, b["id"], "setter stores its argument", "%s must store its argument in .%s on every path; %s" % (M.short(b["id"]), field, "; ".join(sorted(set(probs)))[:300]), v.file(), b["line"],
                      "%s: %s" % (M.short(b["id"]), how)) for r in rules]
        # frame condition: what was set earlier through the sibling setters stays (a setter that rebuilds the object from defaults silently
        # drops a footer / assertion / payload given before it)
        clobbered = {}
        for o in outs:
            cur = I.resolve(o.state, o.state.store.get(me))
            others = {}
            if isinstance(cur, A.Struct):
                others = {k: x for k, x in cur.fields.items() if k != field}
            else:
                others = {f_: x for (sid, f_), x in o.state.symfields.items() if sid == me_v.id and f_ != field}
            for k, x in others.items():
                x = I.resolve(o.state, x)
                if k in ("version", "purpose") or (isinstance(x, A.Sym) and x.name == "self.%s" % k):
                    continue
                if isinstance(cur, A.Struct) and isinstance(x, A.Ptr):
                    x2 = MD.deref(I, o.state, x)
                    if isinstance(x2, A.Sym) and x2.name == "self.%s" % k:
                        continue
                clobbered.setdefault(k, repr(x)[:80])
        FRAME = {"footer": ("C05.R5",), "implicit_assertion": ("C06.R4",)}
        # only what a token is made from / judged by: auxiliary fields (caches ..) are the business of the rules about them
        clobbered = {k: x for k, x in clobbered.items() if k in ("footer", "implicit_assertion", "payload", "header", "claims", "claim_validators")}
        for k, what in sorted(clobbered.items()):
            for r in FRAME.get(k, ()) + ("C01.R7", "C02.R5"):
                fs.append(Finding(r, False, b["id"], "setter overwrites .%s" % k, "%s must leave the %s set earlier untouched; afterwards it is %s" % (M.short(b["id"]), k, what), v.file(), b["line"]))
        out[b["id"]] = fs, None
    for pat, adt, field, inner, rules in FORWARDERS:
        bs = [b for bid, b in facts.bodies.items() if re.search(pat, bid)]
        if len(bs) != 1:
            out[pat] = [Finding(r, False, pat, "setter missing", "expected one setter matching %s" % pat) for r in rules], None
            continue
        b = bs[0]
        v = M.view(facts, b)

        def fw(I, st, args):
            st.events.append(("inner_set", [_d(I, st, a) for a in args]))
            return args[0]
        I = _interp(facts, [(inner, fw)])
        st = A.State()
        me_v = A.Sym("self")
        me = st.new_cell(me_v)
        st.symfields[(me_v.id, field)] = A.Sym("self." + field)
        arg = A.Struct("(carrier)", None, {"0": A.Seq("X", A.Aff.sym("len(X)"), kind="str")})
        outs = I.run(b, [A.Ptr(me), arg], st)
        und = _undecided(outs)
        if und:
            out[b["id"]] = None, und
            continue
        probs = []
        for o in outs:
            evs = [x for x in o.state.events if x[0] == "inner_set"]
            if len(evs) != 1 or evs[0][1] != ["self." + field, "X"]:
                probs.append("expected one inner setter call (self.%s, argument); found %s" % (field, [x[1] for x in evs]))
        out[b["id"]] = [Finding(r, not probs, b["id"], "setter forwards its argument", "%s must forward its argument to the inner setter on every path; %s" % (M.short(b["id"]), "; ".join(sorted(set(probs)))[:300]), v.file(), b["line"],
                                "%s forwards its argument" % M.short(b["id"])) for r in rules], None
    return out


MUTABLE_STATE = (r"^std::thread::local::LocalKey::<T>::(with|try_with|with_borrow|with_borrow_mut|set|get|take|replace)$|"
                 r"^std::sync::(poison::)?(mutex::)?Mutex::<T>::(lock|try_lock|get_mut)$|^std::sync::(poison::)?(rwlock::)?RwLock::<T>::(write|read|try_write|try_read)$|"
                 r"^core::cell::RefCell::<T>::(borrow_mut|borrow|replace|replace_with|take|swap|try_borrow_mut|try_borrow)$|^core::cell::Cell::<T>::(set|get|replace|take|swap|update)$|"
                 r"^core::sync::atomic::Atomic\w+::(store|swap|fetch_\w+|compare_exchange\w*|load)$|^core::cell::(once::)?OnceCell::<T>::(set|get|get_or_init|get_or_try_init|take)$|"
                 r"^std::sync::(once_lock::)?OnceLock::<T>::(set|get|take|get_mut)$|^once_cell::|^lazy_static::")


# callee names as the fact extractor prints them: the first group must match the table on every run (a table that matches nothing
# passes vacuously), the second must not (write-once initialisation without arguments, plain values)
STATE_SAMPLES = (["std::thread::local::LocalKey::<T>::with", "std::sync::poison::mutex::Mutex::<T>::lock", "core::cell::RefCell::<T>::borrow_mut",
                  "core::sync::atomic::AtomicUsize::fetch_add", "core::cell::Cell::<T>::set", "std::sync::once_lock::OnceLock::<T>::set"],
                 ["std::sync::once_lock::OnceLock::<T>::get_or_init", "std::sync::lazy_lock::LazyLock::<T, F>::force", "core::cell::RefCell::<T>::new",
                  "std::collections::HashMap::<K, V, S>::insert"])


def process_state(facts, entries, rule, roles=("producer", "consumer")):
    """What a token operation returns is a function of its arguments (and, for local producers, fresh randomness): no function reachable
    from the entry points reads or writes state that outlives the call - thread-locals, statics behind Mutex / RwLock / atomics,
    Cell / RefCell / OnceCell contents - through which one call could influence another (a key, a verified token or a nonce remembered
    from an earlier call).  OnceLock::get_or_init / LazyLock (write-once, argument-free initialisation) are not in the table."""
    g = M.call_graph(facts)
    roots = [e.id for e in entries if e.role in roles]
    reach = M.reachable_bodies(facts, roots, g)
    out = []
    miss = [x for x in STATE_SAMPLES[0] if not re.search(MUTABLE_STATE, x)] + [x for x in STATE_SAMPLES[1] if re.search(MUTABLE_STATE, x)]
    if miss:
        out.append(Finding(rule, False, "(rule table)", "self-test of the state table", "the table of state-touching callees misclassifies %s" % miss))
    n = 0
    for bid in sorted(reach):
        b = facts.bodies[bid]
        v = M.view(facts, b)
        for bi, t in v.calls:
            n += 1
            td = M.callee_trait_def(t["callee"])
            nm = M.callee_name(t["callee"])
            if re.search(MUTABLE_STATE, td) or re.search(MUTABLE_STATE, nm):
                out.append(Finding(rule, False, bid, "state that outlives the call (%s)" % M.short(td)[-60:],
                                   "%s uses %s: what this entry point returns may depend on earlier calls (a remembered key, token, nonce ..), not on its arguments alone" % (M.short(bid)[-80:], M.short(td)),
                                   v.file(), t["ln"]))
    out.append(Finding(rule, not [f for f in out if not f.ok], "(reachable set)", "no state that outlives a call", "see above", None, None,
                       "%d functions reachable from the %d %s entry points (%d calls): none touches thread-local, locked, atomic or interior-mutable state" % (len(reach), len(roots), " / ".join(roles), n)))
    return out


CLONED_STATE = r"::(Paseto|Footer|ImplicitAssertion|Payload|Header|Key|GenericBuilder|GenericParser|PasetoBuilder|PasetoParser|PasetoNonce|PasetoSymmetricKey|PasetoAsymmetricPublicKey|PasetoAsymmetricPrivateKey)<"


def clone_identity(facts, rule):
    """A copy of a builder, parser, key or carrier value stands for the original: `Clone::clone` of these types returns a value whose
    every field is the corresponding field of `self` (a hand-written impl that rebuilds the value from defaults loses a footer, an
    implicit assertion or a payload set before it - the token issued from the clone is then authenticated over something else).
    Each `impl Clone` of the listed crate types is interpreted on an opaque self."""
    from . import absint as A
    from . import models as MD
    out = []
    n = 0
    for bid, b in sorted(facts.bodies.items()):
        if not ((b.get("impl_trait") or "").startswith("core::clone::Clone") and bid.endswith("::clone")):
            continue
        if not re.search(CLONED_STATE, "::" + (b.get("impl_self") or "")):
            continue
        n += 1
        I = A.Interp(facts, MD.MODELS, max_paths=400)
        st = A.State()
        outs = I.run(b, [A.Ptr(st.new_cell(A.Sym("self")))], st)
        probs = []
        if not outs:
            probs.append("no outcome")
        for o in outs:
            if o.kind != "return" or o.state.unmodelled:
                probs.append("not decided by the abstract interpreter (%s %s)" % (o.kind, o.state.unmodelled[:2]))
                continue

            def same(v, path, d=0):
                v = I.resolve(o.state, v)
                if isinstance(v, A.Ptr):
                    v = MD.deref(I, o.state, v)
                if isinstance(v, A.Struct) and v.adt and v.adt.startswith("core::marker::PhantomData"):
                    return None
                if isinstance(v, A.Struct) and v.adt and v.adt.endswith("::Header") and d > 0:
                    return None     # the header is a function of the type parameters alone (C07.R3 decides the table), not of the value cloned
                if isinstance(v, (A.Sym, A.Seq)):
                    nm = re.sub(r"[*&$]", "", v.name)
                    return None if nm == path else "%s is %s" % (path, nm)
                if v is A.UNIT or isinstance(v, A.Struct) and not v.fields and v.variant in (None, v.adt.split("::")[-1] if v.adt else None):
                    return None
                if isinstance(v, A.Struct) and d < 6 and v.variant in (None, (v.adt or "").split("::")[-1]):
                    for k, fv in v.fields.items():
                        r = same(fv, "%s.%s" % (path, k), d + 1)
                        if r:
                            return r
                    return None
                return "%s is %r" % (path, v)
            r = same(o.value, "self")
            if r:
                probs.append("the clone's %s, not the original's value [%s]" % (r[:120], " & ".join(o.state.cond)[-120:]))
        v = M.view(facts, b)
        out.append(Finding(rule, not probs, bid, "clone differs from the original" if probs else "clone is the identity", "; ".join(sorted(set(probs)))[:400], v.file(), b["line"],
                           "%s: every field of the clone is the field of the original" % M.short(b.get("impl_self") or bid)[-60:]))
    return out


def encapsulation(facts, rule, outer, inner):
    """The batteries-included type wraps the generic one so that its own checks cannot be stepped around: the wrapped value is not
    reachable from outside - its field is not public and no public function (inherent, trait implementation such as Deref / AsMut /
    From, or free) whose signature involves the wrapper also involves the wrapped type (returned, lent to a callback, converted)."""
    out = []
    o_adt = [a for p, a in facts.adts.items() if p.split("::")[-1] == outer]
    if len(o_adt) != 1:
        return [Finding(rule, False, outer, "anchor missing", "expected one type %s, found %d" % (outer, len(o_adt)))]
    a = o_adt[0]
    wrapped = [f for vr in a["variants"] for f in vr["fields"] if re.search(r"\b%s<" % inner, f["ty"])]
    if not wrapped:
        return [Finding(rule, False, a["path"], "anchor missing", "%s has no field of type %s" % (outer, inner), a.get("file"), a.get("line"))]
    for f in wrapped:
        ok = f["vis"] != "pub"
        out.append(Finding(rule, ok, a["path"], "field %s" % f["name"], "the wrapped %s must not be a public field of %s (its operations bypass the wrapper's checks)" % (inner, outer), a.get("file"), a.get("line"),
                           "%s.%s (%s) is private to %s" % (outer, f["name"], inner, f["vis"].replace("in ", ""))))
    n = 0
    bad = []
    for bid, b in sorted(facts.bodies.items()):
        sig = b.get("sig")
        if not sig or b.get("vis") != "pub" or b.get("kind") not in ("Fn", "AssocFn"):
            continue
        # the declared signature may name the wrapped type through a projection (<Wrapper as Deref>::Target): the types of the MIR
        # return place and arguments are normalised
        ltys = " ".join(l.get("ty", "") for l in (b.get("locals") or [])[:1 + (b.get("arg_count") or 0)])
        whole = sig + " " + ltys + " " + (b.get("impl_self") or "") + " " + " ".join(b.get("predicates") or [])
        if not re.search(r"\b%s<" % outer, whole):
            continue
        n += 1
        if re.search(r"\b%s<" % inner, whole):
            bad.append(b)
    for b in bad:
        out.append(Finding(rule, False, b["id"], "public function exposing the wrapped %s" % inner,
                           "a public function involving %s must not hand out, lend or convert to the wrapped %s: its operations (building / parsing, claim and validator tables) bypass the checks of %s; signature %s" % (outer, inner, outer, b["sig"][:200]),
                           b.get("file"), b.get("line")))
    out.append(Finding(rule, not bad, a["path"], "public surface of %s" % outer, "see above", a.get("file"), a.get("line"), "%d public functions involve %s; none involves the wrapped %s" % (n, outer, inner)))
    return out


_memo = {}


def analyse(facts, entries):
    """dict where -> (findings | None, why undecided)"""
    k = id(facts)
    if k not in _memo:
        d = {}
        d.update(prelude_consumers(facts, entries))
        d.update(prelude_producers(facts, entries))
        d.update(generic_producers(facts, entries))
        d.update(generic_consumers(facts, entries))
        d.update(setters(facts))
        _memo[k] = d
    return _memo[k]
