"""Rules over GenericParser::verify_claims (shared by C11.R4, C12.R4, C14.R4, C15, C16)."""
import re

from . import mir as M
from . import skeleton as S
from .mir import T
from .protocol import Finding


def _f(out, rule, ok, where, construct, msg, line=None, file=None, desc=None):
    out.append(Finding(rule, ok, where, construct, msg, file, line, desc))


class VC:
    def __init__(self, facts):
        self.facts = facts
        bs = [b for bid, b in facts.bodies.items() if re.search(r"GenericParser::<'a, 'b, Version, Purpose>::verify_claims$", bid)]
        self.body = bs[0] if len(bs) == 1 else None
        self.findings = []
        if self.body is None:
            for r in ("C15.R1", "C16.R4", "C14.R4"):
                _f(self.findings, r, False, "GenericParser::verify_claims", "anchor missing", "expected exactly one verify_claims, found %d" % len(bs))
            return
        self.v = M.view(facts, self.body)
        self.N = M.Normalizer(facts, keep=[])
        self.id = self.body["id"]
        self.file = self.v.file()
        self.analyse()

    # ------------------------------------------------------------------
    def loops(self):
        v, N = self.v, self.N
        out = []
        blocks = v.body["blocks"]
        for bi, t in v.find_calls(r"core::iter::traits::iterator::Iterator::next$"):
            it = N.norm(v.op_term(t["args"][0]))
            field = None
            direct = False
            base = it
            while base.op == "mut":
                base = base.args[0]
            via_into_iter = False
            if base.op == "call" and re.search(r"core::iter::traits::collect::IntoIterator::into_iter$", base.meta.get("tdef", "")) and re.search(r"^<&std::collections::hash::map::HashMap<", base.name):
                base = base.args[0]
                via_into_iter = True
            # into_iter(&self.F) erased by the normaliser -> field F of param1  (Iter over the map itself)
            if base.op == "field" and base.args[0].op == "param" and base.args[0].name == 1:
                field = base.name
                direct = True
            elif base.op == "call" and re.search(r"HashMap::<K, V, S(, A)?>::iter$|HashMap::<K, V, S(, A)?>::keys$", base.name + base.meta.get("tdef", "")) and base.args[0].op == "field" and base.args[0].args[0].op == "param":
                field = base.args[0].name
                direct = re.search(r"::iter$", base.meta.get("tdef", "") + base.name) is not None
            tgt = t["target"]
            sw = blocks[tgt]["term"] if tgt is not None else None
            some = none_ = None
            if sw and sw["k"] == "switch":
                for val, bb in sw["targets"]:
                    if val == 1:
                        some = bb
                    if val == 0:
                        none_ = bb
            out.append({"next": bi, "switch": tgt, "some": some, "none": none_, "field": field, "direct": direct, "iter": it, "ln": t["ln"], "dest": t["dest"]["l"]})
        return out

    def item_terms(self, loop):
        """(key term, value term) of the iteration item"""
        dest = T("variant", "Some", (self.v.local_term(loop["dest"]),))
        item = M.mk_field(dest, "0")
        return M.mk_field(item, "0"), M.mk_field(item, "1")

    def analyse(self):
        v, N, out = self.v, self.N, self.findings
        oks, errs, dele = S.ok_exits(v)
        self.oks = oks
        loops = self.loops()
        self.loopinfo = loops
        # json = tryok(from_str(param token))
        json_t = None
        for bi, t in v.find_calls(r"^serde_json::de::from_str$"):
            a = N.norm(v.op_term(t["args"][0]))
            if a == T("param", 2):
                json_t = T("tryok", None, (N.norm(v.call_term(t, bi)),))
        self.json = json_t
        _f(out, "C14.R4", json_t is not None, self.id, "payload parsed from the authenticated text", "verify_claims must parse its token parameter with serde_json::from_str", self.body["line"], self.file,
           desc="json = serde_json::from_str(token)?")
        if json_t is None:
            return
        # Ok value is that json, never mutably borrowed
        okv = []
        for d in v.defs.get(0, []):
            if d[0] == "assign" and d[3]["k"] == "aggregate" and d[3].get("variant") == "Ok":
                okv.append(N.norm(v.op_term(d[3]["fields"][0])))
        jl = [l for l, ds in v.defs.items() if any(d[0] == "assign" and N.norm(v.rv_term(d[3])) == json_t for d in ds)]
        mutated = any(v.mutborrows.get(l) for l in jl)
        ok = bool(okv) and all(x == json_t for x in okv) and not mutated
        _f(out, "C14.R4", ok, self.id, "returned value is the parsed payload", "verify_claims must return exactly the Value parsed from the authenticated payload, unmodified; returns %s (mutably borrowed: %s)" % ([M.show(x)[:80] for x in okv], mutated),
           self.body["line"], self.file, desc="Ok(json) with json never mutably borrowed")
        l1 = [l for l in loops if l["field"] == "claims"]
        l2 = [l for l in loops if l["field"] == "claim_validators"]
        ok = len(l1) == 1 and l1[0]["direct"]
        _f(out, "C15.R1", ok, self.id, "loop over every expected claim", "verify_claims must iterate the whole self.claims map (one loop, no adaptor); loops found over %s" % [(l["field"], M.show(l["iter"])[:60]) for l in loops],
           self.body["line"], self.file, desc="for (key, expected) in &self.claims")
        if not ok:
            _f(out, "C16.R4", False, self.id, "loop over every expected claim", "cannot locate the loop over self.claims", self.body["line"], self.file)
            return
        L1 = l1[0]
        # Ok exit only after both loops ran to completion
        none_edges = [(l["switch"], l["none"]) for l in l1 + l2]
        ok = v.cfg.must_pass(oks, edges=[(L1["switch"], L1["none"])])
        _f(out, "C15.R1", ok, self.id, "success only after all expectations were visited", "an Ok return is reachable without exhausting the loop over self.claims", self.body["line"], self.file, desc="Ok only through the iterator's None edge")
        self.loop_rules(L1, l2)

    def validator_calls(self, region):
        """indirect calls of a ValidatorFn inside `region` (set of blocks)"""
        v, N = self.v, self.N
        out = []
        for bi, t in v.calls:
            if bi not in region:
                continue
            c = t["callee"]
            td = M.callee_trait_def(c)
            if re.search(r"core::ops::function::Fn(Mut|Once)?::call(_mut|_once)?$", td) and re.search(r"Fn\(&'a str, &'b serde_json::value::Value\)|PasetoClaimError", M.callee_name(c)):
                out.append((bi, t))
        return out

    def region(self, start, header):
        """blocks reachable from `start` without passing through `header`"""
        return self.v.cfg.reachable_without(blocks=[header], start=start)

    def loop_rules(self, L1, l2s):
        v, N, out = self.v, self.N, self.findings
        header = L1["next"]
        body = L1["some"]
        reg = self.region(body, header)
        key_t, exp_t = self.item_terms(L1)
        key_n = N.norm(key_t)
        sites = {s["branch_block"]: s for s in M.try_sites(v)}
        vcalls = self.validator_calls(reg)
        e_val = []
        for bi, t in vcalls:
            # the `?` consuming this call
            tgt = t["target"]
            s = sites.get(tgt)
            args = N.norm(v.op_term(t["args"][1]))
            ka = M.mk_field(args, "0")
            va = M.mk_field(args, "1")
            ok_args = ka == key_n and va.op == "call" and bool(re.search(r"Index<.*> for serde_json::value::Value>::index$|serde_json::value::Value as core::ops::index::Index", va.name)) and va.args[0] == self.json and M.drop_calls(va.args[1], r"^$") == key_n
            _f(out, "C16.R2", bool(ok_args), self.id, "validator arguments (expected-claim loop)", "a validator must be called with the claim's key and &json[key] of the authenticated payload; found (%s, %s)" % (M.show(ka)[:60], M.show(va)[:100]),
               t["ln"], self.file, desc="validator(key, &json[key]) in the expected-claim loop")
            oks_ = s is not None
            if s is not None:
                e_val.append((s["switch_block"], s["cont"]))
                # failure edge reaches only Err exits
                r = v.cfg.reachable_without(start=s["brk"])
                oks_ = not (set(self.oks) & r) and header not in r
            _f(out, "C16.R3", bool(oks_), self.id, "validator verdict honoured (expected-claim loop)", "the validator's Result must be propagated with `?`: an Err must end the parse with an error", t["ln"], self.file,
               desc="validator(..)? : failure edge leads only to Err")
        # the has-validator decision
        has_true = has_false = None
        for sw in M.bool_switches(v):
            if sw["block"] not in reg or sw["ty"] != "bool":
                continue
            t = N.norm(sw["term"])
            neg = False
            while t.op == "unop" and t.name == "Not":
                neg = not neg
                t = t.args[0]
            if t.op == "call" and re.search(r"HashMap::<K, V, S(, A)?>::contains_key", t.name + t.meta.get("tdef", "")) and t.args[0] == T("field", "claim_validators", (T("param", 1),)) and t.args[1] == key_n:
                tr, fl = M.truth_edges(sw)
                if neg:
                    tr, fl = fl, tr
                has_true, has_false = (sw["block"], tr), (sw["block"], fl)
        # also: `if let Some(v) = self.claim_validators.get(key)`
        if has_true is None:
            for sw in M.bool_switches(v):
                if sw["block"] not in reg or sw["ty"] == "bool":
                    continue
                t = N.norm(sw["term"])
                if t.op == "discr" and t.args[0].op == "call" and re.search(r"HashMap::<K, V, S(, A)?>::get", t.args[0].name + t.args[0].meta.get("tdef", "")) and t.args[0].args[0] == T("field", "claim_validators", (T("param", 1),)) and t.args[0].args[1] == key_n:
                    some = sw["targets"].get(1, sw["otherwise"])
                    none_ = sw["targets"].get(0, sw["otherwise"])
                    has_true, has_false = (sw["block"], some), (sw["block"], none_)
        ok = has_true is not None
        _f(out, "C16.R4", ok, self.id, "validator lookup in the expected-claim loop", "expected a decision on self.claim_validators.contains_key(key) / get(key) for the iteration's key", L1["ln"], self.file,
           desc="claim_validators.contains_key(key) decides validator vs equality check")
        if ok:
            # every iteration takes the decision; with a validator, every path back to the loop header passes the validator's success edge
            r0 = v.cfg.reachable_without(edges=[has_true, has_false], blocks=[], start=body)
            every = header not in r0 and not (set(self.oks) & r0)
            _f(out, "C16.R4", every, self.id, "iteration skips the validator lookup", "an iteration of the expected-claim loop can complete without consulting the registered validator for its key", L1["ln"], self.file,
               desc="every iteration consults the validator table")
            r1 = v.cfg.reachable_without(edges=e_val, start=has_true[1])
            runs = bool(e_val) and header not in r1 and not (set(self.oks) & r1)
            _f(out, "C16.R4", runs, self.id, "registered validator can be skipped", "when a validator is registered for the key, the iteration can complete without the validator having run and returned Ok", L1["ln"], self.file,
               desc="with a validator: iteration completes only through the validator's success edge")
        if ok:
            # C16.R6: for a key that has a validator nothing but that validator (and the serialisation of the expectation) can fail the
            # iteration: a presence / equality test applied to such a key refuses tokens the validator accepts (the default exp / nbf
            # validators accept an absent claim)
            _oks, errs, _dele = S.ok_exits(v)
            pre = v.cfg.reachable_without(edges=[has_true, has_false], blocks=[header], start=body)
            side = v.cfg.reachable_without(blocks=[header], start=has_true[1])
            vtargets = set(t["target"] for _bi, t in vcalls)
            explained = set()
            for s_ in M.try_sites(v):
                if s_["branch_block"] not in reg:
                    continue
                op = N.norm(s_["operand"])
                is_val = s_["branch_block"] in vtargets
                is_ser = op.op == "call" and bool(re.search(r"^serde_json::value::to_value", op.meta.get("tdef", "")))
                if is_val or is_ser:
                    explained |= set(v.cfg.reachable_without(blocks=[header], start=s_["brk"]))
            bad_err = sorted(e for e in errs if e in (pre | side) and e not in explained)

            def errline(bb):
                sts = v.body["blocks"][bb]["stmts"]
                return sts[0]["ln"] if sts else v.line(bb)
            _f(out, "C16.R6", not bad_err, self.id, "a key with a validator is also subjected to another test" if bad_err else "only the validator decides for its key",
               "when a validator is registered for the key, the iteration can fail for a reason other than the validator's verdict (error exit at line %s): tokens the validator accepts - e.g. without the claim - would be refused" % (errline(bad_err[0]) if bad_err else "?"),
               errline(bad_err[0]) if bad_err else L1["ln"], self.file, desc="with a validator: the only failure of the iteration is the validator's Err (or serialising the expectation)")
        # C15.R2: without validator: not-null edge and equal edge
        start = has_false[1] if has_false else body
        e_nn = []
        e_eq = []
        null_fail = eq_fail = None
        for sw in M.bool_switches(v):
            if sw["block"] not in reg or sw["ty"] != "bool":
                continue
            t = N.norm(sw["term"])
            tr, fl = M.truth_edges(sw)
            # json[key].is_null()
            tt, neg = t, False
            while tt.op == "unop" and tt.name == "Not":
                neg = not neg
                tt = tt.args[0]
            if tt.op == "call" and re.search(r"^serde_json::value::Value::is_null$", tt.meta.get("tdef", "")) and tt.args and tt.args[0].op == "call" and \
                    re.search(r"for serde_json::value::Value>::index$", tt.args[0].name) and tt.args[0].args[0] == self.json and tt.args[0].args[1] == key_n:
                null_edge, nn_edge = ((sw["block"], fl), (sw["block"], tr)) if neg else ((sw["block"], tr), (sw["block"], fl))
                e_nn.append(nn_edge)
                null_fail = null_edge
                continue
            eq = M.as_equality(t)
            if not eq:
                continue
            a, b, pos, kind = eq
            eq_edge = (sw["block"], tr if pos else fl)
            ne_edge = (sw["block"], fl if pos else tr)

            def is_json_idx(x):
                return x.op == "call" and bool(re.search(r"for serde_json::value::Value>::index$", x.name)) and x.args[0] == self.json and x.args[1] == key_n

            def is_null(x):
                return x.op == "agg" and str(x.name).endswith("value::Value::Null")

            def is_raw_idx(x):
                if not (x.op == "call" and re.search(r"for serde_json::value::Value>::index$", x.name) and x.args[1] == key_n):
                    return False
                r = x.args[0]
                return r.op == "tryok" and r.args[0].op == "call" and bool(re.search(r"^serde_json::value::to_value", r.args[0].meta.get("tdef", ""))) and r.args[0].args[0] == N.norm(exp_t)
            full = bool(re.search(r"serde_json::value::Value as core::cmp::PartialEq>", kind))
            if False:
                pass
            if full and ((is_json_idx(a) and is_null(b)) or (is_json_idx(b) and is_null(a))):
                e_nn.append(ne_edge)
                null_fail = eq_edge
            elif full and ((is_json_idx(a) and is_raw_idx(b)) or (is_json_idx(b) and is_raw_idx(a))):
                e_eq.append(eq_edge)
                eq_fail = ne_edge
        for edges, what, fail in ((e_nn, "missing-claim check (json[key] != null)", null_fail), (e_eq, "value check (expected[key] == json[key], JSON equality)", eq_fail)):
            ok = bool(edges)
            if ok:
                r = v.cfg.reachable_without(edges=edges + e_val, start=start)
                ok = header not in r and not (set(self.oks) & r)
            if ok and fail is not None:
                r2 = v.cfg.reachable_without(start=fail[1])
                ok = header not in r2 and not (set(self.oks) & r2)
            _f(out, "C15.R2", ok, self.id, what, "for an expected claim without validator the iteration must complete only through the %s, comparing serde_json Values of the same key of the authenticated payload; the failing edge must end in Err" % what,
               L1["ln"], self.file, desc="no validator: " + what)
        # second loop: validators without expectation
        ok2 = len(l2s) == 1 and l2s[0]["direct"]
        _f(out, "C16.R4", ok2, self.id, "validators without expected claim are visited", "verify_claims must also iterate self.claim_validators (validators registered with extend_validation_claims)", self.body["line"], self.file,
           desc="for (key, validator) in &self.claim_validators")
        if ok2:
            L2 = l2s[0]
            reg2 = self.region(L2["some"], L2["next"])
            k2, val2 = self.item_terms(L2)
            k2n = N.norm(k2)
            e_val2 = []
            for bi, t in self.validator_calls(reg2):
                s = sites.get(t["target"])
                args = N.norm(v.op_term(t["args"][1]))
                ka, va = M.mk_field(args, "0"), M.mk_field(args, "1")
                recv = N.norm(v.op_term(t["args"][0]))
                ok_args = ka == k2n and va.op == "call" and va.args[0] == self.json and va.args[1] == k2n and recv == N.norm(val2)
                _f(out, "C16.R2", bool(ok_args), self.id, "validator arguments (validator-only loop)", "the iteration's validator must be called with its key and &json[key]; found %s(%s, %s)" % (M.show(recv)[:40], M.show(ka)[:40], M.show(va)[:80]), t["ln"], self.file,
                   desc="validator(key, &json[key]) in the validator-only loop")
                if s is not None:
                    e_val2.append((s["switch_block"], s["cont"]))
                _f(out, "C16.R3", s is not None, self.id, "validator verdict honoured (validator-only loop)", "the validator's Result must be propagated with `?`", t["ln"], self.file, desc="validator(..)? in the validator-only loop")
            # skip only when the key has an expected claim (then loop 1 ran it)
            skip = []
            for sw in M.bool_switches(v):
                if sw["block"] not in reg2 or sw["ty"] != "bool":
                    continue
                t = N.norm(sw["term"])
                neg = False
                while t.op == "unop" and t.name == "Not":
                    neg = not neg
                    t = t.args[0]
                if t.op == "call" and re.search(r"contains_key", t.name) and t.args[0] == T("field", "claims", (T("param", 1),)) and t.args[1] == k2n:
                    tr, fl = M.truth_edges(sw)
                    skip.append((sw["block"], fl if neg else tr))
            r = v.cfg.reachable_without(edges=e_val2 + skip, start=L2["some"])
            ok = bool(e_val2) and L2["next"] not in r and not (set(self.oks) & r)
            _f(out, "C16.R4", ok, self.id, "validator-only loop can skip a validator", "a validator whose key has no expected claim must run (and return Ok) before the parse succeeds", L2["ln"], self.file,
               desc="validator-only loop: each validator runs unless its key has an expected claim (handled by the first loop)")
            # exactly once: the two loops hold the only invocation sites (one each, visiting disjoint key sets); a further site - a pre-pass
            # over selected keys, a retry - runs some validator a second time
            allv = self.validator_calls(set(v.cfg.reach))
            elsewhere = [(bi, t) for bi, t in allv if bi not in reg and bi not in reg2]
            n1 = len([1 for bi, t in allv if bi in reg])
            n2 = len([1 for bi, t in allv if bi in reg2 and bi not in reg])
            once = not elsewhere and n1 == 1 and n2 == 1
            _f(out, "C16.R4", once, self.id, "validator invoked at a further site" if elsewhere else "validator invocation sites",
               "a validator must run exactly once per parse: expected one invocation site in each of the two loops and none elsewhere; found %d / %d and %d elsewhere (line %s)" % (n1, n2, len(elsewhere), elsewhere[0][1]["ln"] if elsewhere else "-"),
               elsewhere[0][1]["ln"] if elsewhere else L2["ln"], self.file, desc="validators are invoked at exactly two sites: one per loop, over disjoint key sets")
            okx = v.cfg.must_pass(self.oks, edges=[(L2["switch"], L2["none"])])
            _f(out, "C16.R4", okx, self.id, "success only after all validators were visited", "an Ok return is reachable without exhausting the loop over self.claim_validators", L2["ln"], self.file, desc="Ok only through the second iterator's None edge")


_vc = {}


def analyse(facts):
    """semantic behaviour table first (rules/claims_sem.py); the CFG rules of this module only for rules it left undecided"""
    k = id(facts)
    if k not in _vc:
        from . import claims_sem
        from . import skeleton as S_
        sem = claims_sem.verify_claims_table(facts, S_.entry_points(facts))
        decided = set(f.rule for f in sem if f.ok is not None)
        undecided = set(f.rule for f in sem if f.ok is None)
        out = [f for f in sem if f.ok is not None]
        if undecided:
            st = VC(facts).findings
            out += [f for f in st if f.rule not in decided]
        _vc[k] = out
    return _vc[k]


def parser_state_writes(facts, entries):
    """C15.R3: no function reachable from the 16 parse methods writes GenericParser / PasetoParser state"""
    out = []
    g = M.call_graph(facts)
    roots = [e.id for e in entries if e.role == "consumer" and e.layer in ("generic", "prelude")]
    reach = M.reachable_bodies(facts, roots, g)
    n = 0
    for bid in sorted(reach):
        b = facts.bodies[bid]
        v = M.view(facts, b)
        for w in M.field_writes(v):
            if w["adt"].endswith("generic_parser::GenericParser") or w["adt"].endswith("paseto_parser::PasetoParser"):
                if w["kind"] == "mutborrow" and w["field"] == "parser" and w["adt"].endswith("paseto_parser::PasetoParser"):
                    # &mut self.parser handed to GenericParser::parse(&mut self, ..): what parse does with it is checked on its own body
                    users = w.get("user_defs", [])
                    if users and all(re.search(r"GenericParser::<.*>::parse$", u) for u in users):
                        continue
                _f(out, "C15.R3", False, bid, "parse writes %s.%s" % (w["adt"].split("::")[-1], w["field"]), "parsing a token must not change the parser's expectations / validators: the outcome for a token would depend on earlier tokens",
                   w["ln"], v.file())
    vcb = [b for bid, b in facts.bodies.items() if re.search(r"GenericParser::<'a, 'b, Version, Purpose>::verify_claims$", bid)]
    if vcb:
        v = M.view(facts, vcb[0])
        ty = v.local_ty(1)
        ok = ty.startswith("&crate::generic::parsers::generic_parser::GenericParser<") and not ty.startswith("&mut")
        _f(out, "C15.R3", ok, vcb[0]["id"], "verify_claims takes &self", "verify_claims must take the parser by shared reference; it takes %s" % ty, vcb[0]["line"], v.file(), desc="verify_claims(&self, ..)")
    # no interior mutability in the parser's fields
    adt = facts.adts.get("crate::generic::parsers::generic_parser::GenericParser")
    if adt:
        bad = [f["name"] for f in adt["variants"][0]["fields"] if re.search(r"Cell<|RefCell<|Mutex<|RwLock<|OnceCell<|OnceLock<|Atomic", f["ty"])]
        _f(out, "C15.R3", not bad, "crate::generic::parsers::generic_parser::GenericParser", "interior mutability in the parser" if bad else "parser fields", "fields %s allow state to change through &self" % bad, adt["line"], facts.rel(adt["file"]),
           desc="GenericParser has no interior-mutable field")
    else:
        _f(out, "C15.R3", False, "crate::generic::parsers::generic_parser::GenericParser", "anchor missing", "type GenericParser not found")
    _f(out, "C15.R3", True, "(reachable set)", "no writes", "", desc="%d functions reachable from the 16 parse methods, none writes parser state" % len(reach))
    return out
