"""Protocol semantics by abstract interpretation.

The 16 core entry points are interpreted whole (every crate-local function natively: key split, PAE, tag, payload assembly,
token text) over symbolic inputs, with *models of the external cryptographic primitives as uninterpreted functions*: each
primitive returns a byte string whose canonical description records how it was computed, e.g.

    blake2b-32(key=K; 'paseto-auth-key-for-aead' || N)            xchacha20(key=..[0..32]; iv=..[32..56]; M)
    hkdf-sha384(salt=''; ikm=K; info='paseto-encryption-key' || N; len=48)[0..32]

Sub-slices are canonical (`base[a..b]`, offsets affine in the symbolic lengths, whatever idiom cut them: indexing, split_at,
get, checked_sub ...), concatenations are chunk lists.  What an entry point computes is then compared - as descriptions -
with the specification's algorithm written in the same vocabulary (rules/spec.py), and the consuming side is run on the
producing side's symbolic output (composition): the round trip, the binding of key / footer / assertion and the ordering
"authenticate, then decrypt" are read off the paths.  No code shape is assumed."""
import re

from . import absint as A
from . import mir as M
from . import models as MD
from .absint import Aff, BoolV, Ptr, Seq, StrV, Struct, Sym, SymBool, Top, UNIT, err, none, ok, some

PS = []


def pmodel(pat):
    def deco(f):
        PS.append((re.compile(pat), f))
        return f
    return deco


ret = MD.ret
deref = MD.deref


# ------------------------------------------------------------------ canonical descriptions
def _lit(b):
    if isinstance(b, str):
        return repr(b)
    try:
        return repr(bytes(b).decode("ascii"))
    except Exception:
        return "0x" + bytes(b).hex()


def _flat(parts):
    """join concatenated descriptions, flattening nested concatenations"""
    out = []
    for p in parts:
        if p.startswith("(") and p.endswith(")") and " || " in p and _balanced(p[1:-1]):
            out += _split_top(p[1:-1])
        elif p in ("''", ""):
            continue
        else:
            out.append(p)
    # adjacent literals are one literal
    merged = []
    for p in out:
        if merged and _is_qlit(merged[-1]) and _is_qlit(p):
            import ast
            merged[-1] = repr(ast.literal_eval(merged[-1]) + ast.literal_eval(p))
        else:
            merged.append(p)
    out = merged
    if not out:
        return "''"
    if len(out) == 1:
        return out[0]
    return "(" + " || ".join(out) + ")"


def _is_qlit(p):
    if len(p) < 2 or p[0] not in "'\"" or p[-1] != p[0]:
        return False
    try:
        import ast
        return isinstance(ast.literal_eval(p), str)
    except Exception:
        return False


def _balanced(s):
    d = 0
    for ch in s:
        if ch in "([":
            d += 1
        elif ch in ")]":
            d -= 1
            if d < 0:
                return False
    return d == 0


def _split_top(s):
    out, d, cur = [], 0, ""
    i = 0
    while i < len(s):
        if s[i] in "([":
            d += 1
        elif s[i] in ")]":
            d -= 1
        if d == 0 and s.startswith(" || ", i):
            out.append(cur)
            cur = ""
            i += 4
            continue
        cur += s[i]
        i += 1
    out.append(cur)
    return out


def _elems_desc(elems):
    """[(description, length)] of a run of byte values: constants as literals, the 8 little-endian bit-slices of one value as le64(value)"""
    out = []
    i = 0
    run = []

    def flush():
        if run:
            out.append((_lit(bytes(x.const & 0xFF for x in run)), Aff(len(run))))
            del run[:]
    while i < len(elems):
        x = elems[i]
        if isinstance(x, Aff) and x.is_const():
            run.append(x)
            i += 1
            continue
        grp = elems[i:i + 8]
        if len(grp) == 8 and all(isinstance(g, A.Bits) and g.src == grp[0].src and g.shift == 8 * k and (g.mask & 0xFF) == 0xFF for k, g in enumerate(grp)):
            flush()
            out.append(("le64(%r)" % (grp[0].src,), Aff(8)))
            i += 8
            continue
        flush()
        out.append((repr(x), Aff(1)))
        i += 1
    flush()
    return out


def chunks_of(I, st, v):
    """[(description, length Aff)] when v is a concatenation with known structure, else None"""
    v = deref(I, st, v)
    if not isinstance(v, Seq):
        return None
    if v.chunks is not None:
        out = []
        for c in v.chunks:
            if c[0] == "lit":
                b = c[1].encode() if isinstance(c[1], str) else c[1]
                out.append((_lit(c[1]), Aff(len(b))))
            elif c[0] == "elems":
                out += _elems_desc(c[1])
            elif c[0] == "seq":
                out.append((c[1], c[2]))
            elif c[0] == "arg":
                x = deref(I, st, c[1]) if not isinstance(c[1], str) else c[1]
                if isinstance(x, str):
                    out.append((repr(x) if not x.startswith("b64") else x, Aff.sym("len(%s)" % x)))
                else:
                    out.append((cd(I, st, x), MD.length_of(I, st, x) or Aff.sym("len(?)")))
            else:
                return None
        return out
    ws = v.attrs.get("writes")
    if ws:
        if all(a.is_const() and b.is_const() for a, b, _s in ws) and v.length.is_const():
            # constant positions: later writes override earlier content; gaps keep the initial bytes
            n = v.length.const
            cells = [None] * n
            for wi, (a, b, src) in enumerate(ws):
                for i in range(a.const, min(b.const, n)):
                    cells[i] = (wi, i - a.const)
            out = []
            i = 0
            while i < n:
                if cells[i] is None:
                    j = i
                    while j < n and cells[j] is None:
                        j += 1
                    fill = v.elems[i:j] if v.elems is not None else None
                    if fill is not None and all(isinstance(x, Aff) and x.is_const() for x in fill):
                        out.append((_lit(bytes(x.const & 0xFF for x in fill)), Aff(j - i)))
                    else:
                        out.append(("%s[%d..%d]" % (v.name, i, j), Aff(j - i)))
                    i = j
                else:
                    wi, o0 = cells[i]
                    j = i
                    while j < n and cells[j] is not None and cells[j][0] == wi and cells[j][1] == o0 + (j - i):
                        j += 1
                    a, b, src = ws[wi]
                    sl = MD.length_of(I, st, src)
                    d = cd(I, st, src)
                    if not (o0 == 0 and sl is not None and sl.is_const() and sl.const == j - i):
                        d = "%s[%d..%d]" % (d, o0, o0 + j - i)
                    out.append((d, Aff(j - i)))
                    i = j
            return out
        pos = Aff(0)
        out = []
        for a, b, src in ws:
            if a != pos:
                return None
            out.append((cd(I, st, src), b.sub(a)))
            pos = b
        if pos != v.length:
            return None
        return out
    return None


def cd(I, st, v, depth=0):
    """canonical description of a byte / text value"""
    v = deref(I, st, v)
    if depth > 8:
        return "..."
    if isinstance(v, StrV):
        return _lit(v.s)
    if isinstance(v, Seq):
        if "b64_of" in v.attrs:
            eng = v.attrs.get("engine", "")
            return "b64%s(%s)" % ("" if "URL_SAFE_NO_PAD" in eng else "[%s]" % eng.split("::")[-1], cd(I, st, v.attrs["b64_of"], depth + 1))
        ch = chunks_of(I, st, v)
        if ch is not None:
            return _flat([d for d, _l in ch])
        if v.elems is not None and v.elems and all(isinstance(x, Aff) and x.is_const() for x in v.elems) and v.kind != "vec":
            return _lit(bytes(x.const & 0xFF for x in v.elems))
        if v.attrs.get("const") is not None:
            return _lit(v.attrs["const"])
        if v.elems is not None and not v.elems:
            return "''"
        return v.name
    if isinstance(v, Struct):
        if v.adt in ("core::option::Option", "core::result::Result"):
            return "%s(%s)" % (v.variant, cd(I, st, v.fields.get("0"), depth + 1)) if v.fields else str(v.variant)
        for k in ("key", "0", "header", "ciphertext", "bytes", "tag"):
            if k in v.fields:
                return cd(I, st, v.fields[k], depth + 1)
        if "desc" in v.fields and isinstance(v.fields["desc"], StrV):
            return v.fields["desc"].s
        return repr(v)
    if isinstance(v, Sym):
        return v.name
    return repr(v)


def named(name, length, kind="bytes", **attrs):
    """an opaque byte string identified by its canonical description"""
    return Seq(name, length if isinstance(length, Aff) else Aff(length), kind=kind, attrs=attrs)


# ------------------------------------------------------------------ canonical slicing (overrides the length-only models for known sequences)
def subseq(I, st, s_, a, b, kind=None):
    """s_[a..b] with a canonical name; resolves to the chunk(s) it covers when s_ is a concatenation cut at chunk borders"""
    ch = chunks_of(I, st, s_)
    if ch is not None and len(ch) > 0:
        pos = Aff(0)
        bounds = [pos]
        for _d, l in ch:
            pos = pos.add(l)
            bounds.append(pos)
        if a in bounds and b in bounds and bounds.index(a) <= bounds.index(b):
            i, j = bounds.index(a), len(bounds) - 1 - bounds[::-1].index(b)
            # several borders may coincide (empty chunks): take the tightest non-empty cover
            sel = [(d, l) for (d, l) in ch[i:j]]
            if len(sel) == 1:
                d, l = sel[0]
                reg = st.facts.get(("seqobj", d))
                if reg is not None:
                    return reg
                return Seq(d, l, kind=kind or "bytes")
            if not sel:
                return Seq("''", Aff(0), elems=[], kind=kind or "bytes")
            return Seq("cat", b.sub(a), None, [("seq", d, l) for d, l in sel], kind=kind or "bytes")
    base = s_.attrs.get("base", s_.name)
    off = s_.attrs.get("off", Aff(0))
    blen = s_.attrs.get("base_len", s_.length)
    if ch is not None and "base" not in s_.attrs:
        base = cd(I, st, s_)
    na, nb = off.add(a), off.add(b)
    if na == Aff(0) and nb == blen:
        name = base
    else:
        name = "%s[%r..%r]" % (base, na, nb)
    sub = Seq(name, b.sub(a), kind=kind or (s_.kind if s_.kind not in ("array", "vec") else "bytes"), attrs={"base": base, "off": na, "base_len": blen})
    if s_.elems is not None and a.is_const() and b.is_const():
        sub = Seq(name, b.sub(a), s_.elems[a.const:b.const], None, sub.attrs, sub.kind)
    st.facts[("seqobj", name)] = sub
    return sub


def register(st, s):
    st.facts[("seqobj", s.name)] = s
    return s


def _bytes_seq(I, st, v):
    s_ = MD.seq_of(I, st, v)
    return s_


@pmodel(r"^core::ops::index::Index::index$")
def m_index(I, st, info, args, depth):
    nm = info["name"]
    if info["def"] in I.facts.bodies or "serde_json" in nm or "HashMap<" in nm:
        return None
    if re.search(r"for str>|<str as|String as", nm):
        return None
    idx = I.resolve(st, args[1])
    rk, a, b = MD.range_parts(I, st, idx)
    if rk not in ("RangeTo", "Range", "RangeFrom", "RangeFull"):
        return None
    raw = deref(I, st, args[0])
    if isinstance(raw, Seq) and (raw.attrs.get("elem") is not None or (raw.elems is not None and raw.kind != "bytes" and any(not isinstance(x, Aff) for x in raw.elems))):
        return None     # a sequence of things other than bytes (the segments of a token): the general model keeps the elements' names
    s_ = _bytes_seq(I, st, args[0])
    L = s_.length
    a = I.resolve(st, a) if a is not None and rk in ("Range", "RangeFrom") else Aff(0)
    b = I.resolve(st, b) if b is not None and rk in ("Range", "RangeTo") else L
    if not (isinstance(a, Aff) and isinstance(b, Aff)):
        return None
    if a == Aff(0) and b == L and isinstance(raw, (Seq, StrV)):
        return ret(st, raw)     # the whole of it (`&x[..]`): the same bytes under the same name
    out = []
    for s2, t1 in MD.fork_bool(I, st, I.compare(st, "Le", a, b)):
        if not t1:
            out.append((s2, "panic", ("slice", info["fn"], info["ln"])))
            continue
        for s3, t2 in MD.fork_bool(I, s2, I.compare(s2, "Le", b, L)):
            if not t2:
                out.append((s3, "panic", ("slice", info["fn"], info["ln"])))
            else:
                out.append((s3, "return", subseq(I, s3, s_, a, b)))
    return out


def _abs_range(ptr):
    """(cell, prefix path, start, end) when ptr designates a byte range of a buffer cell (nested ranges are made absolute)"""
    path = list(ptr.path)
    a = b = None
    while path and isinstance(path[-1], tuple) and path[-1] and path[-1][0] == "range":
        _r, x, y = path.pop()
        if a is None:
            a, b = x, y
        else:
            a, b = x.add(a), x.add(b)
    return ptr.cell, tuple(path), a, b


@pmodel(r"^core::slice::<impl \[T\]>::(split_at_mut|split_at_mut_checked)$")
def m_split_at_mut(I, st, info, args, depth):
    p = I.resolve(st, args[0])
    g = 0
    while isinstance(p, Ptr) and isinstance(I.resolve(st, I.load(st, p)), Ptr) and g < 4:
        p = I.resolve(st, I.load(st, p))
        g += 1
    mid = I.resolve(st, args[1])
    if not (isinstance(p, Ptr) and isinstance(mid, Aff)):
        return None
    cell, pre, a, b = _abs_range(p)
    whole = deref(I, st, Ptr(cell, pre))
    if not isinstance(whole, Seq):
        return None
    if a is None:
        a, b = Aff(0), whole.length
    ln = b.sub(a)
    checked = info["tdef"].endswith("checked")
    out = []
    for s2, t in MD.fork_bool(I, st, I.compare(st, "Le", mid, ln)):
        if t:
            tup = Struct("(tuple)", None, {"0": Ptr(cell, pre + (("range", a, a.add(mid)),)), "1": Ptr(cell, pre + (("range", a.add(mid), b),))})
            out.append((s2, "return", some(tup) if checked else tup))
        else:
            out.append((s2, "return", none()) if checked else (s2, "panic", ("split_at_mut", info["fn"], info["ln"])))
    return out


@pmodel(r"^alloc::vec::Vec::<T, A>::split_off$")
def m_split_off(I, st, info, args, depth):
    p = I.resolve(st, args[0])
    s_ = _bytes_seq(I, st, args[0])
    at = I.resolve(st, args[1])
    if not (isinstance(p, Ptr) and isinstance(at, Aff)):
        return None
    out = []
    for s2, t in MD.fork_bool(I, st, I.compare(st, "Le", at, s_.length)):
        if t:
            head, tail_ = subseq(I, s2, s_, Aff(0), at), subseq(I, s2, s_, at, s_.length)
            I.store_to(s2, p, head)
            out.append((s2, "return", tail_))
        else:
            out.append((s2, "panic", ("split_off", info["fn"], info["ln"])))
    return out


@pmodel(r"^core::slice::<impl \[T\]>::(split_at|split_at_checked)$")
def m_split_at(I, st, info, args, depth):
    s_ = _bytes_seq(I, st, args[0])
    mid = I.resolve(st, args[1])
    if not isinstance(mid, Aff):
        return None
    checked = info["tdef"].endswith("checked")
    out = []
    for s2, t in MD.fork_bool(I, st, I.compare(st, "Le", mid, s_.length)):
        if t:
            tup = Struct("(tuple)", None, {"0": subseq(I, s2, s_, Aff(0), mid), "1": subseq(I, s2, s_, mid, s_.length)})
            out.append((s2, "return", some(tup) if checked else tup))
        else:
            out.append((s2, "return", none()) if checked else (s2, "panic", ("split_at", info["fn"], info["ln"])))
    return out


@pmodel(r"^core::slice::<impl \[T\]>::(get|first_chunk|split_first_chunk|last_chunk|split_last_chunk)$")
def m_get(I, st, info, args, depth):
    op = info["tdef"].split("::")[-1]
    s_ = _bytes_seq(I, st, args[0])
    L = s_.length
    if op == "get":
        rk, a, b = MD.range_parts(I, st, I.resolve(st, args[1]))
        if rk not in ("RangeTo", "Range", "RangeFrom", "RangeFull"):
            return None
        a = I.resolve(st, a) if a is not None and rk in ("Range", "RangeFrom") else Aff(0)
        b = I.resolve(st, b) if b is not None and rk in ("Range", "RangeTo") else L
        if not (isinstance(a, Aff) and isinstance(b, Aff)):
            return None
        out = []
        for s2, t1 in MD.fork_bool(I, st, I.compare(st, "Le", a, b)):
            if not t1:
                out.append((s2, "return", none()))
                continue
            for s3, t2 in MD.fork_bool(I, s2, I.compare(s2, "Le", b, L)):
                out.append((s3, "return", some(subseq(I, s3, s_, a, b)) if t2 else none()))
        return out
    raw = deref(I, st, args[0])
    if isinstance(raw, Seq) and (raw.attrs.get("elem") is not None or (raw.elems is not None and raw.kind != "bytes" and any(not isinstance(x, Aff) for x in raw.elems))):
        # a sequence of things other than bytes (the segments of a token): the general model keeps the elements' own names
        return MD.m_chunk_split(I, st, info, args, depth)
    m = re.search(r"::<(\d+)>$|::<\{?(\d+)", M.decode_typenum(info["name"]))
    n = None
    for g in (info.get("gargs") or []):
        if re.fullmatch(r"\d+(_usize)?", str(g)):
            n = int(str(g).split("_")[0])
    if n is None and m:
        n = int(m.group(1) or m.group(2))
    if n is None:
        return None
    n = Aff(n)
    out = []
    for s2, t in MD.fork_bool(I, st, I.compare(st, "Le", n, L)):
        if not t:
            out.append((s2, "return", none()))
            continue
        if op in ("first_chunk",):
            out.append((s2, "return", some(subseq(I, s2, s_, Aff(0), n, "array"))))
        elif op == "split_first_chunk":
            out.append((s2, "return", some(Struct("(tuple)", None, {"0": subseq(I, s2, s_, Aff(0), n, "array"), "1": subseq(I, s2, s_, n, L)}))))
        elif op == "last_chunk":
            out.append((s2, "return", some(subseq(I, s2, s_, L.sub(n), L, "array"))))
        else:
            out.append((s2, "return", some(Struct("(tuple)", None, {"0": subseq(I, s2, s_, Aff(0), L.sub(n)), "1": subseq(I, s2, s_, L.sub(n), L, "array")}))))
    return out


@pmodel(r"^generic_array::GenericArray::<T, N>::(from_slice|clone_from_slice)$")
def m_ga(I, st, info, args, depth):
    n = MD.typenum_len(info["name"])
    s_ = _bytes_seq(I, st, args[0])
    if n is None:
        return None
    out = []
    for s2, t in MD.fork_bool(I, st, I.compare(st, "Eq", s_.length, Aff(n))):
        if t:
            out.append((s2, "return", Seq(s_.name, Aff(n), s_.elems, s_.chunks, dict(s_.attrs), "array")))
        else:
            out.append((s2, "panic", ("from_slice", info["fn"], info["ln"])))
    return out


@pmodel(r"^core::slice::<impl \[T\]>::copy_from_slice$|^core::slice::<impl \[T\]>::clone_from_slice$")
def m_copy(I, st, info, args, depth):
    dst_p = I.resolve(st, args[0])
    d = _bytes_seq(I, st, args[0])
    s_ = _bytes_seq(I, st, args[1])
    out = []
    for s2, t in MD.fork_bool(I, st, I.compare(st, "Eq", d.length, s_.length)):
        if t:
            if isinstance(dst_p, Ptr):
                I.store_to(s2, dst_p, Seq(s_.name, d.length, s_.elems, s_.chunks, dict(s_.attrs), d.kind if d.kind != "vec" else s_.kind))
            out.append((s2, "return", UNIT))
        else:
            out.append((s2, "panic", ("copy_from_slice", info["fn"], info["ln"])))
    return out


# ------------------------------------------------------------------ primitives as uninterpreted functions
def _state(kind, **f):
    return Struct(kind, None, {k: (StrV(v) if isinstance(v, str) else v) for k, v in f.items()})


def _s(v):
    return v.s if isinstance(v, StrV) else str(v)


def _mac_alg(name):
    name = M.decode_typenum(name)
    m = re.search(r"blake2::Blake2bMac<U(\d+)>", name)
    if m:
        return "blake2b-%s" % m.group(1), int(m.group(1))
    if re.search(r"hmac::.*Sha512VarCore, U48|Hmac<.*Sha384", name):
        return "hmac-sha384", 48
    if re.search(r"hmac::.*Sha256VarCore, U32", name):
        return "hmac-sha256", 32
    if re.search(r"hmac::.*Sha512VarCore, U64", name):
        return "hmac-sha512", 64
    if re.search(r"Sha512VarCore, U48", name):
        return "sha384", 48
    if re.search(r"Sha256VarCore, U32", name):
        return "sha256", 32
    if re.search(r"Sha512VarCore, U64", name):
        return "sha512", 64
    return None, None


@pmodel(r"^crypto_common::KeyInit::new_from_slice$|^digest::mac::Mac::new_from_slice$|^crypto_common::KeyInit::new$")
def m_keyinit(I, st, info, args, depth):
    nm = M.decode_typenum(info["name"])
    key = _bytes_seq(I, st, args[0])
    kd = cd(I, st, args[0])
    from_slice = info["tdef"].endswith("new_from_slice")
    if "ChaChaPoly1305" in nm:
        alg = "xchacha20poly1305" if "XChaCha" in nm else "chacha20poly1305"
        stt = _state("AeadState", alg=alg, key=kd)
        if not from_slice:
            return ret(st, stt)
        return [(s2, "return", ok(stt) if t else err(Sym("crypto_common::InvalidLength"))) for s2, t in MD.fork_bool(I, st, I.compare(st, "Eq", key.length, Aff(32)))]
    alg, n = _mac_alg(nm)
    if alg is None:
        return None
    stt = _state("MacState", alg=alg, key=kd, data=Seq("data", Aff(0), [], kind="vec"), out=Aff(n))
    if not from_slice:
        return ret(st, stt)
    if alg.startswith("blake2b"):
        return [(s2, "return", ok(stt) if t else err(Sym("digest::InvalidLength"))) for s2, t in MD.fork_bool(I, st, I.compare(st, "Le", key.length, Aff(64)))]
    return ret(st, ok(stt))


@pmodel(r"^digest::digest::Digest::(new|new_with_prefix)$")
def m_digest_new(I, st, info, args, depth):
    alg, n = _mac_alg(info["name"])
    if alg is None:
        return None
    data = [StrV(cd(I, st, args[0]))] if args else []
    return ret(st, _state("MacState", alg=alg, key="", data=Seq("data", Aff(len(data)), data, kind="vec"), out=Aff(n)))


@pmodel(r"^core::default::Default::default$")
def m_digest_default(I, st, info, args, depth):
    if info["def"] in I.facts.bodies:
        return None
    alg, n = _mac_alg(info["name"])
    if alg is None or alg.startswith("hmac") or alg.startswith("blake2b"):
        return None
    return ret(st, _state("MacState", alg=alg, key="", data=Seq("data", Aff(0), [], kind="vec"), out=Aff(n)))


def _mac_update(I, st, p, data_v):
    cur = deref(I, st, p)
    if not (isinstance(cur, Struct) and cur.adt == "MacState"):
        return None
    d = list(cur.fields["data"].elems) + [StrV(cd(I, st, data_v))]
    new = Struct("MacState", None, dict(cur.fields, data=Seq("data", Aff(len(d)), d, kind="vec")))
    return new


@pmodel(r"^digest::Update::update$|^digest::mac::Mac::update$|^digest::digest::Digest::update$")
def m_update(I, st, info, args, depth):
    p = I.resolve(st, args[0])
    new = _mac_update(I, st, args[0], args[1])
    if new is None:
        return None
    if isinstance(p, Ptr):
        g = 0
        while isinstance(p, Ptr) and isinstance(I.resolve(st, I.load(st, p)), Ptr) and g < 4:
            p = I.resolve(st, I.load(st, p))
            g += 1
        I.store_to(st, p, new)
    return ret(st, UNIT)


@pmodel(r"^digest::digest::Digest::chain_update$|^digest::mac::Mac::chain_update$|^digest::Update::chain$")
def m_chain(I, st, info, args, depth):
    new = _mac_update(I, st, args[0], args[1])
    return ret(st, new) if new is not None else None


def _mac_out(I, st, stt):
    alg, key = _s(stt.fields["alg"]), _s(stt.fields["key"])
    data = _flat([x.s for x in stt.fields["data"].elems])
    n = stt.fields["out"]
    name = "%s(%s)" % (alg, data) if key == "" else "%s(key=%s; %s)" % (alg, key, data)
    return register(st, named(name, n, kind="array"))


@pmodel(r"^digest::FixedOutput::finalize_fixed$|^digest::mac::Mac::finalize$|^digest::digest::Digest::finalize$|^digest::FixedOutput::finalize_into$|^digest::mac::Mac::finalize_reset$")
def m_finalize(I, st, info, args, depth):
    stt = deref(I, st, args[0])
    if not (isinstance(stt, Struct) and stt.adt == "MacState"):
        return None
    outv = _mac_out(I, st, stt)
    if info["tdef"].endswith("finalize_into"):
        p = I.resolve(st, args[1])
        if isinstance(p, Ptr):
            g = 0
            while isinstance(p, Ptr) and isinstance(I.resolve(st, I.load(st, p)), Ptr) and g < 4:
                p = I.resolve(st, I.load(st, p))
                g += 1
            I.store_to(st, p, outv)
        return ret(st, UNIT)
    if "mac::Mac::finalize" in info["tdef"]:
        return ret(st, Struct("digest::mac::CtOutput", None, {"bytes": outv}))
    return ret(st, outv)


@pmodel(r"^digest::mac::CtOutput::<T>::into_bytes$")
def m_into_bytes(I, st, info, args, depth):
    v = deref(I, st, args[0])
    if isinstance(v, Struct) and "bytes" in v.fields:
        return ret(st, v.fields["bytes"])
    return None


# HKDF (ring)
@pmodel(r"^ring::hkdf::Salt::new$")
def m_salt_new(I, st, info, args, depth):
    alg = repr(deref(I, st, args[0]))
    alg = "hkdf-sha384" if "HKDF_SHA384" in alg else ("hkdf-sha256" if "HKDF_SHA256" in alg else ("hkdf-sha512" if "HKDF_SHA512" in alg else "hkdf[%s]" % alg[-24:]))
    return ret(st, _state("HkdfSalt", alg=alg, salt=cd(I, st, args[1])))


@pmodel(r"^ring::hkdf::Salt::extract$")
def m_extract(I, st, info, args, depth):
    s_ = deref(I, st, args[0])
    if not (isinstance(s_, Struct) and s_.adt == "HkdfSalt"):
        return None
    return ret(st, _state("HkdfPrk", alg=_s(s_.fields["alg"]), salt=_s(s_.fields["salt"]), ikm=cd(I, st, args[1])))


@pmodel(r"^ring::hkdf::Prk::expand$")
def m_expand(I, st, info, args, depth):
    p = deref(I, st, args[0])
    if not (isinstance(p, Struct) and p.adt == "HkdfPrk"):
        return None
    infos = deref(I, st, args[1])
    import os
    if isinstance(infos, Seq) and infos.elems is not None:
        idesc = _flat([cd(I, st, x) for x in infos.elems])
    else:
        idesc = cd(I, st, infos)
    ln = args[2]
    # the requested length: KeyType::len() of the marker (crate-local impl)
    lv = None
    lt = deref(I, st, ln)
    if isinstance(lt, Struct) and "0" in lt.fields:
        lv = I.resolve(st, lt.fields["0"])
    if not isinstance(lv, Aff):
        lv = Aff.sym("okm_len@%d" % info["ln"])
    okm = Struct("HkdfOkm", None, {"alg": p.fields["alg"], "salt": p.fields["salt"], "ikm": p.fields["ikm"], "info": StrV(idesc), "len": lv, "len_marker": ln})
    if lv.is_const() and lv.const <= 255 * 32:
        # expand fails only for outputs longer than 255 hash blocks
        return ret(st, ok(okm))
    s2 = st.clone()
    s2.cond.append("hkdf expand ok")
    st.cond.append("hkdf expand fails")
    return [(s2, "return", ok(okm)), (st, "return", err(Sym("ring::error::Unspecified")))]


@pmodel(r"^ring::hkdf::Okm::<'a, L>::len$|^ring::hkdf::Okm::<'_, L>::len$")
def m_okm_len(I, st, info, args, depth):
    o = deref(I, st, args[0])
    if isinstance(o, Struct) and o.adt == "HkdfOkm":
        return ret(st, Ptr(st.new_cell(o.fields["len_marker"]), ()))
    return None


@pmodel(r"^ring::hkdf::Okm::<'a, L>::fill$|^ring::hkdf::Okm::<'_, L>::fill$")
def m_okm_fill(I, st, info, args, depth):
    o = deref(I, st, args[0])
    if not (isinstance(o, Struct) and o.adt == "HkdfOkm"):
        return None
    p = I.resolve(st, args[1])
    dst = _bytes_seq(I, st, args[1])
    out = []
    for s2, t in MD.fork_bool(I, st, I.compare(st, "Eq", dst.length, o.fields["len"])):
        if not t:
            out.append((s2, "return", err(Sym("ring::error::Unspecified"))))
            continue
        name = "%s(salt=%s; ikm=%s; info=%s; len=%r)" % (_s(o.fields["alg"]), _s(o.fields["salt"]), _s(o.fields["ikm"]), _s(o.fields["info"]), o.fields["len"])
        val = register(s2, named(name, o.fields["len"], kind="vec"))
        if isinstance(p, Ptr):
            g = 0
            while isinstance(p, Ptr) and isinstance(I.resolve(s2, I.load(s2, p)), Ptr) and g < 4:
                p = I.resolve(s2, I.load(s2, p))
                g += 1
            I.store_to(s2, p, val)
        out.append((s2, "return", ok(UNIT)))
    return out


# stream ciphers
def _cipher_alg(name):
    name = M.decode_typenum(name)
    if re.search(r"aes::\w+::ctr::Aes256Ctr|CtrCore<aes::\w+::Aes256, ctr::flavors::ctr128::Ctr128BE>", name):
        return "aes256ctr"
    if re.search(r"chacha20::xchacha::XChaChaCore<U10>", name):
        return "xchacha20"
    m = re.search(r"<(.*?) as (cipher|crypto_common)::", name)
    return "cipher[%s]" % (M.short(m.group(1))[-60:] if m else name[-40:])


@pmodel(r"^cipher::common::NewCipher::new$|^crypto_common::KeyIvInit::new$|^cipher::common::NewCipher::new_from_slices$|^crypto_common::KeyIvInit::new_from_slices$")
def m_cipher_new(I, st, info, args, depth):
    stt = _state("CipherState", alg=_cipher_alg(info["name"]), key=cd(I, st, args[0]), iv=cd(I, st, args[1]))
    if info["tdef"].endswith("slices"):
        return ret(st, ok(stt))
    return ret(st, stt)


@pmodel(r"^cipher::stream::StreamCipher::(apply_keystream|try_apply_keystream)$")
def m_keystream(I, st, info, args, depth):
    c = deref(I, st, args[0])
    if not (isinstance(c, Struct) and c.adt == "CipherState"):
        return None
    p = I.resolve(st, args[1])
    buf = _bytes_seq(I, st, args[1])
    alg, key, iv = _s(c.fields["alg"]), _s(c.fields["key"]), _s(c.fields["iv"])
    bd = cd(I, st, buf)
    pre = "%s(key=%s; iv=%s; " % (alg, key, iv)
    if bd.startswith(pre) and bd.endswith(")") and _balanced(bd[len(pre):-1]):
        # the stream cipher is an involution under the same key and counter block
        inner = bd[len(pre):-1]
        new = st.facts.get(("seqobj", inner)) or named(inner, buf.length, kind="vec")
    else:
        new = register(st, named(pre + bd + ")", buf.length, kind="vec"))
    st.events.append(("keystream", alg, key, iv, bd))
    if isinstance(p, Ptr):
        g = 0
        while isinstance(p, Ptr) and isinstance(I.resolve(st, I.load(st, p)), Ptr) and g < 4:
            p = I.resolve(st, I.load(st, p))
            g += 1
        I.store_to(st, p, new)
    return ret(st, ok(UNIT) if info["tdef"].endswith("try_apply_keystream") else UNIT)


# AEAD
@pmodel(r"^aead::Aead::(encrypt|decrypt)$")
def m_aead(I, st, info, args, depth):
    a = deref(I, st, args[0])
    if not (isinstance(a, Struct) and a.adt == "AeadState"):
        return None
    alg, key = _s(a.fields["alg"]), _s(a.fields["key"])
    nonce = cd(I, st, args[1])
    pl = deref(I, st, args[2])
    if isinstance(pl, Struct) and "msg" in pl.fields:
        msg_v, aad = pl.fields["msg"], cd(I, st, pl.fields.get("aad"))
    else:
        msg_v, aad = args[2], "''"
    msg = _bytes_seq(I, st, msg_v)
    md = cd(I, st, msg)
    enc = info["tdef"].endswith("encrypt")
    pre = "%s.enc(key=%s; nonce=%s; aad=%s; " % (alg, key, nonce, aad)
    if enc:
        s2 = st.clone()
        s2.cond.append("aead encrypt ok")
        st.cond.append("aead encrypt fails")
        return [(s2, "return", ok(register(s2, named(pre + md + ")", msg.length.add(Aff(16)), kind="vec")))), (st, "return", err(Sym("aead::Error")))]
    if md.startswith(pre) and md.endswith(")") and _balanced(md[len(pre):-1]):
        inner = md[len(pre):-1]
        st.events.append(("auth_ok", "aead", key, nonce, aad, md))
        return ret(st, ok(st.facts.get(("seqobj", inner)) or named(inner, msg.length.sub(Aff(16)), kind="vec")))
    if md.startswith("%s.enc(" % alg):
        # produced under another key / nonce / associated data: authentication fails (AEAD integrity)
        st.cond.append("aead decrypt fails (other key / nonce / aad)")
        return ret(st, err(Sym("aead::Error")))
    if getattr(I, "composition", False):
        st.cond.append("aead decrypt fails (not an AEAD output under this key / nonce / aad)")
        return ret(st, err(Sym("aead::Error")))
    out = []
    for s2, t in MD.fork_bool(I, st, I.compare(st, "Ge", msg.length, Aff(16))):
        if not t:
            out.append((s2, "return", err(Sym("aead::Error"))))
            continue
        s3 = s2.clone()
        s3.cond.append("aead decrypt ok")
        s3.events.append(("auth_ok", "aead", key, nonce, aad, md))
        s2.cond.append("aead decrypt fails")
        s2.events.append(("auth_fail", "aead"))
        out.append((s3, "return", ok(register(s3, named("%s.dec(key=%s; nonce=%s; aad=%s; %s)" % (alg, key, nonce, aad, md), msg.length.sub(Aff(16)), kind="vec")))))
        out.append((s2, "return", err(Sym("aead::Error"))))
    return out


# constant-time comparison
MACLIKE = r"^(blake2b-\d+|hmac-sha\d+)\("


@pmodel(r"^ring::deprecated_constant_time::verify_slices_are_equal$|^ring::constant_time::verify_slices_are_equal$|^subtle::ConstantTimeEq::ct_eq$")
def m_cteq(I, st, info, args, depth):
    da, db = cd(I, st, args[0]), cd(I, st, args[1])
    la, lb = MD.length_of(I, st, args[0]), MD.length_of(I, st, args[1])
    if da == db:
        st.events.append(("auth_ok", "tag", da, db))
        return ret(st, ok(UNIT))
    if re.search(MACLIKE, da) and re.search(MACLIKE, db):
        # two different MAC computations: unequal (MAC strength)
        st.events.append(("auth_fail", "tag", da, db))
        st.cond.append("tags differ")
        return ret(st, err(Sym("ring::error::Unspecified")))
    if getattr(I, "composition", False):
        # both operands stem from known computations (the producing side's output): different descriptions are different values
        st.events.append(("auth_fail", "tag", da, db))
        st.cond.append("tags differ")
        return ret(st, err(Sym("ring::error::Unspecified")))
    s2 = st.clone()
    s2.cond.append("constant-time compare ok")
    s2.events.append(("auth_ok", "tag", da, db))
    s2.events.append(("equal", da, db))
    st.cond.append("constant-time compare fails")
    st.events.append(("auth_fail", "tag", da, db))
    st.events.append(("notequal", da, db))
    return [(s2, "return", ok(UNIT)), (st, "return", err(Sym("ring::error::Unspecified")))]


# signatures
def _fork_res(st, what, okv, errname):
    s2 = st.clone()
    s2.cond.append(what + " ok")
    st.cond.append(what + " fails")
    return [(s2, "return", ok(okv)), (st, "return", err(Sym(errname)))]


@pmodel(r"^ed25519_dalek::verifying::VerifyingKey::from_bytes$|^ed25519_dalek::verifying::VerifyingKey::try_from$")
def m_ed_pk(I, st, info, args, depth):
    d = cd(I, st, args[0])
    v = _state("PkV", alg="ed25519", desc=d)
    if d.startswith("pk("):
        return ret(st, ok(v))
    return _fork_res(st, "ed25519 public key", v, "signature::Error")


@pmodel(r"^ed25519_dalek::signing::SigningKey::(from_keypair_bytes|from_bytes)$")
def m_ed_sk(I, st, info, args, depth):
    d = cd(I, st, args[0])
    v = _state("SkV", alg="ed25519", desc=d, ctor=info["tdef"].split("::")[-1])
    if info["tdef"].endswith("from_bytes"):
        return ret(st, v)
    return _fork_res(st, "ed25519 key pair", v, "signature::Error")


@pmodel(r"^signature::signer::Signer::(sign|try_sign)$")
def m_sign(I, st, info, args, depth):
    sk = deref(I, st, args[0])
    if not (isinstance(sk, Struct) and sk.adt == "SkV"):
        return None
    sig = _state("SigV", alg=_s(sk.fields["alg"]), desc="%s.sign(sk=%s; %s)" % (_s(sk.fields["alg"]), _s(sk.fields["desc"]), cd(I, st, args[1])))
    st.events.append(("sign", _s(sk.fields["alg"]), _s(sk.fields["desc"]), cd(I, st, args[1]), _s(sk.fields.get("ctor", StrV("")))))
    return ret(st, ok(sig) if info["tdef"].endswith("try_sign") else sig)


SIGLEN = {"ed25519": 64, "p384": 96, "rsa-pss-sha384": 256}


@pmodel(r"^ed25519::Signature::to_bytes$|^ecdsa::Signature::<C>::to_bytes$|^ed25519::Signature::to_vec$|^ecdsa::Signature::<C>::to_vec$")
def m_sig_bytes(I, st, info, args, depth):
    s_ = deref(I, st, args[0])
    if not (isinstance(s_, Struct) and s_.adt == "SigV"):
        return None
    return ret(st, register(st, named(_s(s_.fields["desc"]), SIGLEN.get(_s(s_.fields["alg"]), 64), kind="array")))


@pmodel(r"^core::convert::TryFrom::try_from$|^ed25519::Signature::from_slice$|^ecdsa::Signature::<C>::from_slice$|^ed25519::Signature::from_bytes$|^ecdsa::Signature::<C>::from_bytes$")
def m_sig_parse(I, st, info, args, depth):
    nm = info["name"]
    alg = "ed25519" if re.search(r"ed25519::Signature", nm) else ("p384" if re.search(r"ecdsa::Signature<p384|ecdsa::Signature::<p384", nm) else None)
    if alg is None:
        return None
    b = _bytes_seq(I, st, args[0])
    v = _state("SigV", alg=alg, desc=cd(I, st, args[0]))
    if info["tdef"].endswith("from_bytes") and alg == "ed25519":
        return ret(st, v)
    out = []
    for s2, t in MD.fork_bool(I, st, I.compare(st, "Eq", b.length, Aff(SIGLEN[alg]))):
        if not t:
            out.append((s2, "return", err(Sym("signature::Error"))))
        elif _s(v.fields["desc"]).startswith(alg + ".sign(") or alg == "ed25519":
            out.append((s2, "return", ok(v)))
        else:
            out += _fork_res(s2, "signature encoding", v, "signature::Error")
    return out


def _verify(I, st, alg, pkd, msgd, sigd):
    want = "%s.sign(sk=" % alg
    if sigd.startswith(want):
        m = re.match(re.escape(want) + r"(.*?); (.*)\)$", sigd)
        inner_ok = m is not None and pkd in ("pk(%s)" % m.group(1), "sec1c(pk(%s))" % m.group(1)) and m.group(2) == msgd
        if inner_ok:
            st.events.append(("auth_ok", "sig", alg, pkd, msgd, sigd))
            return ret(st, ok(UNIT))
        st.cond.append("signature does not verify (other key / message)")
        st.events.append(("auth_fail", "sig", alg, pkd, msgd, sigd))
        return ret(st, err(Sym("signature::Error")))
    if getattr(I, "composition", False):
        st.cond.append("signature does not verify (not a signature of this message under this key)")
        st.events.append(("auth_fail", "sig", alg, pkd, msgd, sigd))
        return ret(st, err(Sym("signature::Error")))
    s2 = st.clone()
    s2.cond.append("signature verifies")
    s2.events.append(("auth_ok", "sig", alg, pkd, msgd, sigd))
    st.cond.append("signature does not verify")
    st.events.append(("auth_fail", "sig", alg, pkd, msgd, sigd))
    return [(s2, "return", ok(UNIT)), (st, "return", err(Sym("signature::Error")))]


@pmodel(r"^signature::verifier::Verifier::verify$|^ed25519_dalek::verifying::VerifyingKey::verify_strict$")
def m_verify(I, st, info, args, depth):
    pk = deref(I, st, args[0])
    sg = deref(I, st, args[2])
    if not (isinstance(pk, Struct) and pk.adt == "PkV" and isinstance(sg, Struct) and sg.adt == "SigV"):
        return None
    return _verify(I, st, _s(pk.fields["alg"]), _s(pk.fields["desc"]), cd(I, st, args[1]), _s(sg.fields["desc"]))


# p384
@pmodel(r"^elliptic_curve::public_key::PublicKey::<C>::from_sec1_bytes$|^ecdsa::verifying::VerifyingKey::<C>::from_sec1_bytes$")
def m_p384_pk(I, st, info, args, depth):
    d = cd(I, st, args[0])
    m = re.match(r"^sec1c\((.*)\)$", d)
    if m:
        return ret(st, ok(_state("PkV", alg="p384", desc=m.group(1))))
    v = _state("PkV", alg="p384", desc=d)
    if d.startswith("pk("):
        return ret(st, ok(v))
    return _fork_res(st, "p384 public key", v, "elliptic_curve::Error")


@pmodel(r"^elliptic_curve::sec1::ToEncodedPoint::to_encoded_point$|^ecdsa::verifying::VerifyingKey::<C>::to_encoded_point$")
def m_point(I, st, info, args, depth):
    pk = deref(I, st, args[0])
    if not (isinstance(pk, Struct) and pk.adt == "PkV"):
        return None
    comp = I.resolve(st, args[1]) if len(args) > 1 else BoolV(True)
    c = isinstance(comp, BoolV) and comp.b or (isinstance(comp, Aff) and comp.is_const() and comp.const == 1)
    name = ("sec1c(%s)" if c else "sec1u(%s)") % _s(pk.fields["desc"])
    return ret(st, register(st, named(name, 49 if c else 97, kind="array")))


@pmodel(r"^ecdsa::signing::SigningKey::<C>::(from_bytes|from_slice)$")
def m_p384_sk(I, st, info, args, depth):
    d = cd(I, st, args[0])
    return _fork_res(st, "p384 secret key", _state("SkV", alg="p384", desc=d, ctor=info["tdef"].split("::")[-1]), "signature::Error")


@pmodel(r"^core::convert::From::from$|^core::convert::Into::into$")
def m_from_sk(I, st, info, args, depth):
    """VerifyingKey::from(&SigningKey)"""
    if info["def"] in I.facts.bodies:
        return None
    sk = deref(I, st, args[0])
    if isinstance(sk, Struct) and sk.adt == "SkV" and re.search(r"VerifyingKey", info["name"]):
        return ret(st, _state("PkV", alg=_s(sk.fields["alg"]), desc="pk(%s)" % _s(sk.fields["desc"])))
    return None


@pmodel(r"^ecdsa::signing::SigningKey::<C>::verifying_key$|^signature::keypair::Keypair::verifying_key$|^ed25519_dalek::signing::SigningKey::verifying_key$")
def m_vk(I, st, info, args, depth):
    sk = deref(I, st, args[0])
    if not (isinstance(sk, Struct) and sk.adt == "SkV"):
        return None
    return ret(st, _state("PkV", alg=_s(sk.fields["alg"]), desc="pk(%s)" % _s(sk.fields["desc"])))


@pmodel(r"^signature::signer::DigestSigner::(try_sign_digest|sign_digest)$")
def m_sign_digest(I, st, info, args, depth):
    sk = deref(I, st, args[0])
    dg = deref(I, st, args[1])
    if not (isinstance(sk, Struct) and sk.adt == "SkV" and isinstance(dg, Struct) and dg.adt == "MacState"):
        return None
    msg = _mac_out(I, st, dg).name
    alg = _s(sk.fields["alg"])
    st.events.append(("sign", alg, _s(sk.fields["desc"]), msg, _s(sk.fields.get("ctor", StrV("")))))
    sig = _state("SigV", alg=alg, desc="%s.sign(sk=%s; %s)" % (alg, _s(sk.fields["desc"]), msg))
    if info["tdef"].endswith("try_sign_digest"):
        return _fork_res(st, "ecdsa sign", sig, "signature::Error")
    return ret(st, sig)


@pmodel(r"^signature::verifier::DigestVerifier::verify_digest$")
def m_verify_digest(I, st, info, args, depth):
    pk = deref(I, st, args[0])
    dg = deref(I, st, args[1])
    sg = deref(I, st, args[2])
    if not (isinstance(pk, Struct) and pk.adt == "PkV" and isinstance(dg, Struct) and dg.adt == "MacState" and isinstance(sg, Struct) and sg.adt == "SigV"):
        st.notes.append("undecided: verify_digest on %r / %r / %r" % (pk, dg, sg))
        return None
    return _verify(I, st, _s(pk.fields["alg"]), _s(pk.fields["desc"]), _mac_out(I, st, dg).name, _s(sg.fields["desc"]))


# RSA (ring)
def _rsa_alg(I, st, v):
    r = repr(deref(I, st, v))
    if "RSA_PSS_SHA384" in r or "RSA_PSS_2048_8192_SHA384" in r:
        return "rsa-pss-sha384"
    m = re.search(r"(RSA_\w+)", r)
    return "rsa[%s]" % (m.group(1) if m else r[-24:])


@pmodel(r"^ring::rsa::keypair::KeyPair::(from_pkcs8|from_der)$|^ring::rsa::KeyPair::(from_pkcs8|from_der)$")
def m_rsa_sk(I, st, info, args, depth):
    return _fork_res(st, "rsa key pair", _state("SkV", alg="rsa", desc=cd(I, st, args[0]), ctor=info["tdef"].split("::")[-1]), "ring::error::KeyRejected")


@pmodel(r"^ring::rsa::keypair::KeyPair::sign$|^ring::rsa::KeyPair::sign$")
def m_rsa_sign(I, st, info, args, depth):
    sk = deref(I, st, args[0])
    if not (isinstance(sk, Struct) and sk.adt == "SkV"):
        return None
    alg = _rsa_alg(I, st, args[1])
    msg = cd(I, st, args[3])
    p = I.resolve(st, args[4])
    dst = _bytes_seq(I, st, args[4])
    s2 = st.clone()
    s2.cond.append("rsa sign ok")
    st.cond.append("rsa sign fails")
    val = register(s2, named("%s.sign(sk=%s; %s)" % (alg, _s(sk.fields["desc"]), msg), dst.length, kind="array"))
    s2.events.append(("sign", alg, _s(sk.fields["desc"]), msg, _s(sk.fields.get("ctor", StrV("")))))
    if isinstance(p, Ptr):
        g = 0
        while isinstance(p, Ptr) and isinstance(I.resolve(s2, I.load(s2, p)), Ptr) and g < 4:
            p = I.resolve(s2, I.load(s2, p))
            g += 1
        I.store_to(s2, p, val)
    return [(s2, "return", ok(UNIT)), (st, "return", err(Sym("ring::error::Unspecified")))]


@pmodel(r"^ring::signature::UnparsedPublicKey::<B>::new$")
def m_upk(I, st, info, args, depth):
    return ret(st, _state("PkV", alg=_rsa_alg(I, st, args[0]), desc=cd(I, st, args[1])))


@pmodel(r"^ring::signature::UnparsedPublicKey::<B>::verify$")
def m_upk_verify(I, st, info, args, depth):
    pk = deref(I, st, args[0])
    if not (isinstance(pk, Struct) and pk.adt == "PkV"):
        return None
    return _verify(I, st, _s(pk.fields["alg"]), _s(pk.fields["desc"]), cd(I, st, args[1]), cd(I, st, args[2]))


@pmodel(r"^ring::rand::SecureRandom::fill$")
def m_rng(I, st, info, args, depth):
    p = I.resolve(st, args[1])
    dst = _bytes_seq(I, st, args[1])
    n = st.facts.get("nrng", 0)
    st.facts["nrng"] = n + 1
    s2 = st.clone()
    s2.cond.append("rng fill ok")
    st.cond.append("rng fill fails")
    val = register(s2, named("rng#%d" % n, dst.length, kind="array"))
    s2.events.append(("rng_fill", "rng#%d" % n, repr(dst.length)))
    if isinstance(p, Ptr):
        g = 0
        while isinstance(p, Ptr) and isinstance(I.resolve(s2, I.load(s2, p)), Ptr) and g < 4:
            p = I.resolve(s2, I.load(s2, p))
            g += 1
        I.store_to(s2, p, val)
    return [(s2, "return", ok(UNIT)), (st, "return", err(Sym("ring::error::Unspecified")))]


@pmodel(r"^core::str::converts::from_utf8$|^alloc::string::String::from_utf8$")
def m_utf8(I, st, info, args, depth):
    s_ = _bytes_seq(I, st, args[0])
    d = cd(I, st, s_)
    if s_.attrs.get("utf8") or d in ("M",):
        # the producer's message is UTF-8 text by assumption
        st.events.append(("utf8", d))
        return ret(st, ok(Seq(s_.name, s_.length, kind="str", attrs=dict(s_.attrs))))
    s2 = st.clone()
    s2.cond.append("utf8 ok")
    s2.events.append(("utf8", d))
    st.cond.append("utf8 fails")
    st.events.append(("utf8_fail", d))
    return [(s2, "return", ok(Seq("utf8(%s)" % d, s_.length, kind="str", attrs={"utf8_of": d}))), (st, "return", err(Sym("Utf8Error")))]


def interp(facts, stubs=(), max_paths=20000):
    I = A.Interp(facts, PS + MD.MODELS, max_paths=max_paths)
    I.fn_stubs = [(re.compile(p), f) for p, f in stubs]
    return I


# ====================================================================== the specification in the same vocabulary
def le64_desc(length):
    """description of LE64(length) as the implementation's encoder renders it (constant: literal bytes; symbolic: the 8 bit-slices)"""
    if length.is_const():
        return _lit(bytes((length.const >> (8 * i)) & 0xFF for i in range(8)))
    return "le64(%r)" % (length,)


def pae_desc(pieces):
    """PAE(pieces) = LE64(count) || (LE64(len) || piece)*   pieces: [(description, length Aff)]"""
    parts = [le64_desc(Aff(len(pieces)))]
    for d, l in pieces:
        parts.append(le64_desc(l))
        if not (l.is_const() and l.const == 0):
            parts.append(d)
    return _flat(parts)


SEP_E, SEP_A = "'paseto-encryption-key'", "'paseto-auth-key-for-aead'"


def spec_local(V, K, N, M, Mlen, F, Flen, A, Alen):
    """the specification's encryption for version V: dict with the wire nonce, keys, ciphertext, PAE, tag and payload descriptions"""
    h = "'%s.local.'" % V.lower()
    hl = Aff(len(V) + 7)
    s = {}
    if V == "V1":
        full = "hmac-sha384(key=%s; %s)" % (N, M)
        n = full + "[0..32]"
        s["ek"] = "hkdf-sha384(salt=%s[0..16]; ikm=%s; info=%s; len=32)" % (full, K, SEP_E)
        s["ak"] = "hkdf-sha384(salt=%s[0..16]; ikm=%s; info=%s; len=32)" % (full, K, SEP_A)
        s["c"] = "aes256ctr(key=%s; iv=%s[16..32]; %s)" % (s["ek"], full, M)
        s["pae"] = pae_desc([(h, hl), (n, Aff(32)), (s["c"], Mlen), (F, Flen)])
        s["t"] = "hmac-sha384(key=%s; %s)" % (s["ak"], s["pae"])
        s["tlen"] = 48
    elif V == "V2":
        n = "blake2b-24(key=%s; %s)" % (N, M)
        s["pae"] = pae_desc([(h, hl), (n, Aff(24)), (F, Flen)])
        s["c"] = "xchacha20poly1305.enc(key=%s; nonce=%s; aad=%s; %s)" % (K, n, s["pae"], M)
        s["t"] = None
        s["tlen"] = 16
    elif V == "V3":
        n = N
        tmp = "hkdf-sha384(salt=''; ikm=%s; info=%s; len=48)" % (K, _flat([SEP_E, n]))
        s["ek"], s["n2"] = tmp + "[0..32]", tmp + "[32..48]"
        s["ak"] = "hkdf-sha384(salt=''; ikm=%s; info=%s; len=48)" % (K, _flat([SEP_A, n]))
        s["c"] = "aes256ctr(key=%s; iv=%s; %s)" % (s["ek"], s["n2"], M)
        s["pae"] = pae_desc([(h, hl), (n, Aff(32)), (s["c"], Mlen), (F, Flen), (A, Alen)])
        s["t"] = "hmac-sha384(key=%s; %s)" % (s["ak"], s["pae"])
        s["tlen"] = 48
    else:
        n = N
        tmp = "blake2b-56(key=%s; %s)" % (K, _flat([SEP_E, n]))
        s["ek"], s["n2"] = tmp + "[0..32]", tmp + "[32..56]"
        s["ak"] = "blake2b-32(key=%s; %s)" % (K, _flat([SEP_A, n]))
        s["c"] = "xchacha20(key=%s; iv=%s; %s)" % (s["ek"], s["n2"], M)
        s["pae"] = pae_desc([(h, hl), (n, Aff(32)), (s["c"], Mlen), (F, Flen), (A, Alen)])
        s["t"] = "blake2b-32(key=%s; %s)" % (s["ak"], s["pae"])
        s["tlen"] = 32
    s["n"] = n
    s["nlen"] = 24 if V == "V2" else 32
    s["payload"] = _flat([n, s["c"]] + ([s["t"]] if s["t"] else []))
    return s


SIG_ALG = {"V1": "rsa-pss-sha384", "V2": "ed25519", "V3": "p384", "V4": "ed25519"}
SIG_LEN = {"V1": 256, "V2": 64, "V3": 96, "V4": 64}


def spec_public(V, SK, PKdesc, M, Mlen, F, Flen, A, Alen):
    h = "'%s.public.'" % V.lower()
    hl = Aff(len(V) + 8)
    s = {}
    if V == "V3":
        s["pae"] = pae_desc([(PKdesc, Aff(49)), (h, hl), (M, Mlen), (F, Flen), (A, Alen)])
        s["signed"] = "sha384(%s)" % s["pae"]
    elif V == "V4":
        s["pae"] = pae_desc([(h, hl), (M, Mlen), (F, Flen), (A, Alen)])
        s["signed"] = s["pae"]
    else:
        s["pae"] = pae_desc([(h, hl), (M, Mlen), (F, Flen)])
        s["signed"] = s["pae"]
    s["sig"] = "%s.sign(sk=%s; %s)" % (SIG_ALG[V], SK, s["signed"])
    s["payload"] = _flat([M, s["sig"]])
    return s


_LIT_RE = re.compile(r"'(?:[^'\\]|\\.)*'|\"(?:[^\"\\]|\\.)*\"")


def renorm(desc, zero_names):
    """rewrite a description under the facts len(X) == 0 for X in zero_names: le64(len(X)) is eight zero bytes, X is the empty string;
    concatenations are re-flattened (adjacent literals merge)"""
    if not zero_names:
        return desc
    for nm in zero_names:
        desc = desc.replace("le64(len(%s))" % nm, repr("\x00" * 8))
    lits = []

    def prot(m):
        lits.append(m.group(0))
        return "¶%d¶" % (len(lits) - 1)

    def unprot(s):
        return re.sub("¶(\\d+)¶", lambda m: lits[int(m.group(1))], s)
    body = _LIT_RE.sub(prot, desc)
    store = []

    def expand(s):
        while True:
            m = re.search("§(\\d+)§", s)
            if not m:
                return s
            s = s[:m.start()] + store[int(m.group(1))] + s[m.end():]
    while True:
        m = re.search(r"\(([^()]*)\)", body)
        if not m:
            break
        inner = m.group(1)
        if " || " in inner:
            parts = [unprot(expand(x)) for x in inner.split(" || ")]
            parts = [x for x in parts if x not in zero_names]
            new = _LIT_RE.sub(prot, _flat(parts))
        else:
            new = "(" + inner + ")"
        store.append(new)
        body = body[:m.start()] + "§%d§" % (len(store) - 1) + body[m.end():]
    return unprot(expand(body))


# the iterator models cut byte cursors with the canonical slice names of this module
from . import models_iter as _MI
_MI.SUBSEQ = lambda I, st, sq, a, b: subseq(I, st, sq, a, b)
