"""Protocol skeleton rules shared by C01, C02, C04, C05, C06, C07, C08, C10.

Every rule is a structural necessary condition read off the type-checked MIR through provenance
terms (rules/mir.py).  `analyse(facts)` returns a list of Finding (rule id, ok?, where, construct,
message, line) - the property modules select the rule ids that belong to their statement.
"""
import re

from . import mir as M
from . import skeleton as S
from . import gates as G
from . import slices as SL
from .absint import Aff as A_Aff
from .mir import T

# ------------------------------------------------------------------ specification tables (transcribed from Version1-4.md / Common.md)
SPEC_PAE = {
    ("V1", "Local"): ["header", "nonce", "body", "footer"],
    ("V2", "Local"): ["header", "nonce", "footer"],
    ("V3", "Local"): ["header", "nonce", "body", "footer", "assertion"],
    ("V4", "Local"): ["header", "nonce", "body", "footer", "assertion"],
    ("V1", "Public"): ["header", "body", "footer"],
    ("V2", "Public"): ["header", "body", "footer"],
    ("V3", "Public"): ["pk", "header", "body", "footer", "assertion"],
    ("V4", "Public"): ["header", "body", "footer", "assertion"],
}
NONCE_LEN = {"V1": 32, "V2": 24, "V3": 32, "V4": 32}
TAG_LEN = {"V1": 48, "V3": 48, "V4": 32}
SIG_LEN = {"V1": 256, "V2": 64, "V3": 96, "V4": 64}
HEADER = {(v, p): "%s.%s." % (v.lower(), p.lower()) for v in S.VERSIONS for p in S.PURPOSES}
SEP_ENC = "paseto-encryption-key"
SEP_AUTH = "paseto-auth-key-for-aead"


from .protocol_base import Finding  # noqa: E402


def is_payload(t):
    return isinstance(t, T) and t.op == "tryok" and t.args[0].op == "call" and bool(re.search(r"parse_raw_token", t.args[0].name))


def const_int(t):
    return t.name if isinstance(t, T) and t.op == "const" and isinstance(t.name, int) else None


def is_len_of(t, pred):
    return isinstance(t, T) and t.op == "call" and re.search(r"::len$", t.name) and pred(t.args[0])


class Proto:
    """Skeleton of one core entry point."""

    def __init__(self, facts, e):
        self.facts, self.e = facts, e
        self.v = M.view(facts, e.body)
        self.N = M.Normalizer(facts, keep=S.KEEP)
        self.V, self.P = e.vp
        self.params = {}
        for i in range(1, self.v.nargs + 1):
            ty = self.v.local_ty(i)
            if "Footer<" in ty and "Into<Option<" in ty:
                self.params["footer"] = i
            elif "ImplicitAssertion<" in ty and "Into<Option<" in ty:
                self.params["assertion"] = i
            elif re.search(r"PasetoSymmetricKey<|PasetoAsymmetricPublicKey<|PasetoAsymmetricPrivateKey<", ty):
                self.params["key"] = i
            elif "PasetoNonce<" in ty:
                self.params["nonce"] = i
            elif ty in ("&str",):
                self.params["token"] = i
            elif "paseto::Paseto<" in ty:
                self.params["self"] = i
        self.pae = None
        self.pae_site = None
        self.helper = None
        self._find_pae()

    def _find_pae(self):
        sites = S.pae_sites(self.facts, self.e.body, self.N)
        if len(sites) == 1 and sites[0]["components"] is not None:
            self.pae_site = sites[0]
            self.pae = sites[0]["components"]
            return
        if not sites:
            # delegated to an authenticating helper (v1.public): substitute the call-site arguments
            info = S.auth_info(self.facts, self.e.body)
            for s in info.sites:
                if s["kind"] == "delegated":
                    cb = self.facts.bodies[s["callee"]]
                    hs = S.pae_sites(self.facts, cb, M.Normalizer(self.facts, keep=S.KEEP))
                    if len(hs) == 1 and hs[0]["components"] is not None:
                        call = self.N.norm(s["term"])
                        self.pae = [self.N.norm(M.substitute(c, call.args)) for c in hs[0]["components"]]
                        self.pae_site = {"ln": hs[0]["ln"], "block": s["block"], "helper": s["callee"]}
                        self.helper = s["callee"]
                        return

    # classification -------------------------------------------------------
    def classify(self, c):
        e = self.e
        p = self.params
        cons = e.role == "consumer"
        # header
        if c.op == "field" and c.name == "header":
            b = c.args[0]
            if b.op == "call" and re.search(r"header::Header<.*> as core::default::Default>::default$", b.name):
                return ("header", S.vp_of(b.name + ">"))
            if b.op == "field" and b.name == "header" and b.args[0].op == "param" and b.args[0].name == p.get("self"):
                return ("header", "self")
        # footer / assertion
        cc = G.content(c)
        if cc.op == "call" and re.search(r"Option::<.*>::unwrap_or_default$", cc.name):
            src = cc.args[0]
            kind = "footer" if "Footer<" in cc.name else ("assertion" if "ImplicitAssertion<" in cc.name else None)
            if kind:
                if cons and src.op == "param" and src.name == p.get(kind):
                    return (kind, "param")
                if not cons and src.op == "field" and src.name == ("footer" if kind == "footer" else "implicit_assertion") and src.args[0].op == "param" and src.args[0].name == p.get("self"):
                    return (kind, "self")
                return (kind, "other:" + M.show(src)[:80])
        # public key (v3)
        if c.op == "call" and re.search(r"to_encoded_point$", c.name):
            ps = c.params()
            comp = c.args[1] if len(c.args) > 1 else None
            compressed = comp is not None and comp.op == "const" and comp.name in (1, True)
            return ("pk", (tuple(ps), compressed))
        # sub-slices of the decoded payload, whatever idiom cut them (range indexing, split_at, split_at_checked, checked_sub ...)
        if cons:
            sl = SL.payload_slice(c)
            if sl is not None:
                st, en = sl
                if self.P == "Local":
                    if st == A_Aff(0) and en.is_const():
                        return ("nonce", ("prefix", en.const, en.const))
                    if st.is_const() and en.terms == {"L": 1}:
                        return ("body", ("mid", st.const, -en.const))
                    return ("unknown-slice", SL.fmt(sl))
                if st == A_Aff(0) and en.terms == {"L": 1}:
                    return ("body", ("head", -en.const))
                return ("unknown-slice", SL.fmt(sl))
        if not cons:
            if c.op == "field" and c.name == "key" and c.args[0].op == "param" and c.args[0].name == p.get("nonce"):
                return ("nonce", "param")
            if c.op == "field" and c.name == "ciphertext" and c.args[0].op == "call" and re.search(r"CipherText<.*Local>>::from$", c.args[0].name):
                src = c.args[0].args[0]
                if src == self.self_payload():
                    return ("body", "encrypt(self.payload)")
            if c.op == "call" and re.search(r"CipherText<.*Local>>::from$", c.name) and c.args[0] == self.self_payload():
                return ("body", "encrypt(self.payload)")
            if c == self.self_payload():
                return ("body", "self.payload")
            # derived nonces (v1: HMAC-SHA384 truncated; v2: BLAKE2b-24), keyed by the caller's random bytes over the message
            d = self.derived_nonce(c)
            if d:
                return ("nonce", d)
        return ("unknown", M.show(c)[:160])

    def self_payload(self):
        return T("field", "0", (T("field", "payload", (T("param", self.params.get("self")),)),))

    def derived_nonce(self, c):
        nk = T("field", "key", (T("param", self.params.get("nonce")),))
        calls = list(c.calls())
        names = " ".join(x.name for x in calls)
        keyed = any(x.op == "call" and re.search(r"new_from_slice$", x.name) and x.args and x.args[0] == nk for x in calls)
        over_msg = any(x.op == "call" and re.search(r"::update$", x.name) and any(a == self.self_payload() for a in x.args) for x in calls)
        if not (keyed and over_msg):
            return None
        if self.V == "V1":
            m = re.search(r"hmac::.*Sha512VarCore, U48", names) or re.search(r"Hmac<.*Sha384", names)
            trunc = [x for x in calls if re.search(r"Index<core::ops::range::RangeTo<usize>>", x.name)]
            t32 = trunc and const_int(M.mk_field(trunc[0].args[1], "end")) == 32
            return ("derived", "HMAC-SHA384" if m else "other-mac", 32 if t32 else None)
        if self.V == "V2":
            m = re.search(r"blake2::Blake2bMac<U(\d+)>", names)
            whole = c.op == "mut" and c.args[0].op == "repeat" and c.args[0].name == 24
            return ("derived", "BLAKE2b-%s" % (m.group(1) if m else "?"), 24 if whole else None)
        return None


def analyse(facts):
    out = []
    entries = S.entry_points(facts)
    core = S.select(entries, "core")
    protos = {}
    for e in core:
        protos[(e.role, e.vp)] = Proto(facts, e)
    for (role, vp), pr in sorted(protos.items()):
        _pae_rules(out, facts, pr)
    for vp in S.PROTOS:
        c, p = protos.get(("consumer", vp)), protos.get(("producer", vp))
        if c and p:
            _pair_rules(out, facts, c, p)
    _key_rules(out, facts, protos)
    _nonce_rules(out, facts, entries, protos)
    _wrapper_rules(out, facts, entries)
    _carrier_rules(out, facts)
    _header_tables(out, facts)
    return out, entries, protos


def _f(out, rule, ok, pr_or_where, construct, msg, line=None, file=None, desc=None):
    if isinstance(pr_or_where, Proto):
        where = pr_or_where.e.id
        file = file or pr_or_where.v.file()
    else:
        where = pr_or_where
    out.append(Finding(rule, ok, where, construct, msg, file, line, desc))


CLASS_RULE = {"footer": "C05.R2", "assertion": "C06.R1", "header": "C07.R4", "pk": "C04.R3"}


def _pae_rules(out, facts, pr):
    e = pr.e
    spec = SPEC_PAE[e.vp]
    if pr.pae is None:
        for r in ("C08.R4", "C05.R2", "C07.R4") + (("C06.R1",) if "assertion" in spec else ()):
            _f(out, r, False, pr, "pre-authentication encoding not found", "no single PreAuthenticationEncoding::parse call with an array literal could be extracted (unrecognised skeleton, fail closed)", e.body["line"])
        return
    cls = [pr.classify(c) for c in pr.pae]
    names = [c[0] for c in cls]
    ln = pr.pae_site["ln"]
    ok = names == spec
    _f(out, "C08.R4", ok, pr, "PAE component list", "pre-authentication encoding is %s, the specification's is %s" % (names, spec), ln,
       desc="%s: PAE = %s" % (e.label, names))
    # per class rules: present exactly once, in the specification's relative order, with the right provenance
    # (the absolute position is C08.R4's business: a component dropped elsewhere must not be blamed on the footer)
    body_rule = "C01.R4" if e.vp[1] == "Local" else "C02.R2"
    order = [n for n in names if n in spec]
    for want_i, want in enumerate(spec):
        rule = CLASS_RULE.get(want, body_rule)
        idxs = [i for i, n in enumerate(names) if n == want]
        okc = len(idxs) == 1
        got = cls[idxs[0]] if okc else ("missing" if not idxs else "duplicated", None)
        detail = ""
        if okc:
            # relative order with respect to the other recognised components
            before = [n for n in names[:idxs[0]] if n in spec]
            okc = all(spec.index(b) < spec.index(want) for b in before)
            if not okc:
                got = ("out of order", names)
        if okc:
            if want == "header":
                okc = got[1] == "self" if e.role == "producer" else got[1] == e.vp
                detail = "header of %s" % (got[1],)
            elif want in ("footer", "assertion"):
                okc = got[1] in ("param", "self")
                detail = "from %s" % got[1]
            elif want == "pk":
                okc = got[1][1] and list(got[1][0]) == [pr.params.get("key")]
                detail = "compressed=%s from params %s" % (got[1][1], list(got[1][0]))
        _f(out, rule, okc, pr, "PAE %s" % want,
           "the pre-authentication encoding must contain the %s exactly once (%s), in the specification's order; found %s in %s" % (want, "caller's expected value" if e.role == "consumer" else "builder's own value", got, names), ln,
           desc="%s: PAE has %s %s" % (e.label, want, detail))
    if "assertion" in spec:
        okl = names and names[-1] == "assertion"
        _f(out, "C06.R1", bool(okl), pr, "assertion is last PAE component", "the implicit assertion must be the last component under the tag/signature; list is %s" % names, ln, desc="%s: assertion last" % e.label)
    if len(cls) > len(spec):
        _f(out, "C08.R4", False, pr, "extra PAE component", "unexpected extra component %s" % (cls[len(spec):],), ln)
    # the authenticator is computed over exactly this PAE (producer: tag / signature input)
    pr.cls = cls


def _nonce_key_marker(t, pr):
    """replace the protocol nonce object by a marker so that producer and consumer derivations can be compared"""
    def rec(x):
        if not isinstance(x, T):
            return x
        if pr.e.role == "producer":
            if x.op == "param" and x.name == pr.params.get("nonce"):
                return T("NONCE")
            if pr.V == "V1" and x.op == "agg" and "PasetoNonce" in str(x.name):
                return T("NONCE")
        else:
            if x.op == "agg" and "PasetoNonce" in str(x.name):
                return T("NONCE")
        if x.op == "param" and x.name == pr.params.get("key"):
            return T("KEY")
        if not x.args:
            return x
        return T(x.op, x.name, [rec(a) for a in x.args], x.meta)
    return rec(t)


def _pair_rules(out, facts, c, p):
    """sibling agreement between the producing and the consuming side of one protocol"""
    e = c.e
    V, P = e.vp
    rl = "C01" if P == "Local" else "C02"
    if c.pae is not None and p.pae is not None and hasattr(c, "cls") and hasattr(p, "cls"):
        cn, pn = [x[0] for x in c.cls], [x[0] for x in p.cls]
        _f(out, rl + (".R4" if P == "Local" else ".R2"), cn == pn, c, "PAE agreement with the producing side", "consumer authenticates %s, producer authenticates %s" % (cn, pn), c.pae_site["ln"],
           desc="%s.%s: both sides authenticate %s" % (V.lower(), P.lower(), cn))
    # layout: consumer cut points vs the specification's lengths and the producer's layout
    if P == "Local":
        cls = dict((x[0], x[1]) for x in getattr(c, "cls", []))
        n = cls.get("nonce")
        okn = isinstance(n, tuple) and n[0] == "prefix" and n[1] == NONCE_LEN[V] and n[2] == NONCE_LEN[V]
        _f(out, "C01.R1", bool(okn), c, "nonce cut", "the nonce must be the first %d bytes of the payload; found %s" % (NONCE_LEN[V], n), c.pae_site["ln"] if c.pae_site else None,
           desc="%s.local: nonce = payload[..%d]" % (V.lower(), NONCE_LEN[V]))
        if V != "V2":
            b = cls.get("body")
            okb = isinstance(b, tuple) and b[0] == "mid" and b[1] == NONCE_LEN[V] and b[2] == TAG_LEN[V]
            _f(out, "C01.R1", bool(okb), c, "ciphertext cut", "the ciphertext must be payload[%d..len-%d]; found %s" % (NONCE_LEN[V], TAG_LEN[V], b), c.pae_site["ln"] if c.pae_site else None,
               desc="%s.local: ciphertext = payload[%d..len-%d]" % (V.lower(), NONCE_LEN[V], TAG_LEN[V]))
            _kdf_agreement(out, facts, c, p)
            _producer_layout(out, facts, p)
        else:
            _v2_agreement(out, facts, c, p)
    else:
        cls = dict((x[0], x[1]) for x in getattr(c, "cls", []))
        b = cls.get("body")
        okb = isinstance(b, tuple) and b[0] == "head" and b[1] == SIG_LEN[V]
        _f(out, "C02.R1", bool(okb), c, "message cut", "the message must be payload[..len-%d]; found %s" % (SIG_LEN[V], b), c.pae_site["ln"] if c.pae_site else None,
           desc="%s.public: message = payload[..len-%d]" % (V.lower(), SIG_LEN[V]))
        _public_producer(out, facts, p)
    _payload_codec(out, facts, p)
    _returned_message(out, facts, c)
    guards = _min_length_guard(out, facts, c)
    _reject_inventory(out, facts, c, guards)


ALLOWED_REJECT = [
    r"paseto::Paseto::<'a, Version, Purpose>::parse_raw_token$",   # format / header / footer gates (C05.R1, C07.R1)
    r"^core::str::converts::from_utf8$", r"^alloc::string::String::from_utf8$",
    r"^core::convert::TryFrom::try_from$", r"^core::convert::TryInto::try_into$", r"^ed25519_dalek::verifying::VerifyingKey::from_bytes$", r"^elliptic_curve::public_key::PublicKey::<C>::from_sec1_bytes$",
    r"^ecdsa::verifying::VerifyingKey::<C>::from_sec1_bytes$", r"^crypto_common::KeyInit::new_from_slice$", r"^digest::mac::Mac::new_from_slice$",
    r"^ring::hkdf::Prk::expand$", r"^ring::hkdf::Okm::<'., L>::fill$",
    r"^core::num::<impl usize>::checked_(add|sub)$",   # length arithmetic of the minimal-length guard written with checked ops
    r"^core::slice::<impl \[T\]>::(split_at_checked|get)$",   # length-checked cut of the payload (C01.R9 / C02.R7 check its constant)
] + [p for p, _, _ in S.AUTH_PRIMS]


def _reject_inventory(out, facts, c, guard_blocks):
    """C01.R8 / C02.R6: the only ways a consumer rejects a token are format errors, the minimal-length guard, key conversion,
    the authentication check itself and UTF-8 conversion - an additional rejection path can refuse authentic tokens."""
    V, P = c.e.vp
    rl = "C01.R8" if P == "Local" else "C02.R6"
    views = [(c.v, c.N, c.e.id)]
    # crate-local fallible helpers whose error is propagated with `?` are inventoried themselves (transitively, bounded)
    seen_h = {c.e.id}
    i = 0
    while i < len(views) and len(views) < 12:
        v0, N0, _w = views[i]
        i += 1
        for s2 in M.try_sites(v0):
            op = S.strip_result_wrappers(N0.norm(s2["operand"]))
            if op.op == "tryok":
                op = op.args[0]
            d = op.meta.get("def") if op.op == "call" else None
            if d and d in facts.bodies and d not in seen_h and op.meta.get("local") and not re.search(r"parse_raw_token$", d):
                seen_h.add(d)
                views.append((M.view(facts, facts.bodies[d]), M.Normalizer(facts, keep=S.KEEP), d))
    for v, N, where in views:
        n = 0
        bad = []
        for s2 in M.try_sites(v):
            op = S.strip_result_wrappers(N.norm(s2["operand"]))
            if op.op == "tryok":
                op = op.args[0]
            td = op.meta.get("tdef", "") if op.op == "call" else M.show(op)[:60]
            dd = op.meta.get("def", "") if op.op == "call" else ""
            n += 1
            if dd in seen_h and dd != where:
                continue   # crate-local helper: inventoried on its own body
            if not any(re.search(p, td) or re.search(p, dd) for p in ALLOWED_REJECT):
                bad.append(("`?` on " + M.short(td), s2["ln"]))
        for d in v.defs.get(0, []):
            if d[0] == "assign" and d[3]["k"] == "aggregate" and d[3].get("variant") == "Err":
                n += 1
                # walk back through unique predecessors to the deciding switch
                b = d[1]
                guard = None
                for _ in range(6):
                    ps = [p for p in v.cfg.pred[b] if p in v.cfg.reach]
                    if len(ps) != 1:
                        break
                    b = ps[0]
                    if v.body["blocks"][b]["term"]["k"] == "switch":
                        guard = b
                        break
                if guard is None or (where, guard) not in guard_blocks:
                    bad.append(("explicit Err(%s) not guarded by the minimal-length check" % M.show(v.op_term(d[3]["fields"][0]))[:60], v.line(d[1])))
        ok = not bad
        _f(out, rl, ok, where, "rejection paths" if ok else bad[0][0],
           "unrecognised rejection path in a consumer (%s): authentic tokens may be refused; recognised causes are format errors, the minimal-length guard, key conversion, the authentication check and UTF-8 conversion" % "; ".join(x[0] for x in bad),
           bad[0][1] if bad else None, file=v.file(), desc="%s: %d rejection paths, all recognised" % (M.short(where)[:70], n))


def _calls_in(pr, pat):
    res = []
    for bi, t in pr.v.find_calls(pat):
        res.append((bi, t, pr.N.norm(pr.v.call_term(t, bi))))
    return res


def _kdf_agreement(out, facts, c, p):
    """C01.R2: both sides derive Ek / Ak with the same callee, separator and user key (modulo the nonce's origin)."""
    V = c.V
    for what, pat in (("authentication key", r"AuthenticationKey<.*>>::(from|try_from)$"), ("encryption key", r"EncryptionKey<.*>>::(from|try_from)$")):
        cc, pc = _calls_in(c, pat), _calls_in(p, pat)
        if len(cc) != 1 or len(pc) != 1:
            _f(out, "C01.R2", False, c, what + " derivation", "expected one %s derivation on each side, found %d / %d" % (what, len(cc), len(pc)), c.e.body["line"])
            continue
        a = _nonce_key_marker(cc[0][2], c)
        b = _nonce_key_marker(pc[0][2], p)
        ok = a == b
        _f(out, "C01.R2", ok, c, what + " derivation", "decrypt derives the %s as %s, encrypt as %s" % (what, M.show(a)[:200], M.show(b)[:200]), cc[0][1]["ln"],
           desc="%s.local: %s derived identically on both sides: %s" % (V.lower(), what, M.show(a)[:120]))
    # producer: one nonce value keys both derivations, is authenticated in the PAE and is written to the wire (the consumer
    # reads all of them from the wire nonce: a producer using two different values cannot be undone)
    def nonce_objs(t):
        """maximal sub-terms that are a nonce object: the nonce parameter or a constructed PasetoNonce"""
        found = []
        def rec(x):
            if not isinstance(x, T):
                return
            if (x.op == "param" and x.name == p.params.get("nonce")) or (x.op == "agg" and "PasetoNonce" in str(x.name)):
                found.append(x)
                return
            for y in x.args:
                rec(y)
        rec(t)
        return found
    uses = []
    for what, pat in (("authentication key", r"AuthenticationKey<.*>>::(from|try_from)$"), ("encryption key", r"EncryptionKey<.*>>::(from|try_from)$")):
        for bi, t, ct in _calls_in(p, pat):
            for o in nonce_objs(ct):
                uses.append((what + " derivation", o, t["ln"]))
    for bi, t, ct in _calls_in(p, r"raw_payload::RawPayload<.*Local>>::(from|try_from)$"):
        for o in nonce_objs(ct.args[0]):
            uses.append(("wire nonce", o, t["ln"]))
    if p.pae is not None and hasattr(p, "cls"):
        for comp, cl in zip(p.pae, p.cls):
            if cl[0] == "nonce":
                wire = [u[1] for u in uses if u[0] == "wire nonce"]
                if wire and comp == M.mk_field(wire[0], "key"):
                    uses.append(("PAE nonce", wire[0], p.pae_site["ln"]))
                    continue
                for o in nonce_objs(comp):
                    uses.append(("PAE nonce", o, p.pae_site["ln"]))
    if uses:
        ref = [u for u in uses if u[0] == "wire nonce"] or uses
        bad = [u for u in uses if u[1] != ref[0][1]]
        _f(out, "C01.R2", not bad and len(uses) >= 4, p, "one nonce value on the producing side", "encrypt must derive both keys from, authenticate and emit the same nonce value; %s" % ("; ".join("%s uses %s" % (u[0], M.show(u[1])[:90]) for u in (bad or uses)[:3]) + (" while the wire nonce is %s" % M.show(ref[0][1])[:90] if bad else " (found only %d uses)" % len(uses))),
           (bad[0][2] if bad else p.e.body["line"]), desc="%s.local: key derivations, PAE and wire use one nonce value" % V.lower())
    # cipher: the same function both ways, keyed by that encryption key
    cc, pc = _calls_in(c, r"CipherText<.*Local>>::from$"), _calls_in(p, r"CipherText<.*Local>>::from$")
    # C08.R1: the keystream primitive, named by the type whose StreamCipher impl is applied (v1/v3: AES-256 in CTR mode with the whole
    # 128-bit big-endian block as counter; v4: XChaCha20)
    want = {"V1": r"aes::\w+::ctr::Aes256Ctr$|CtrCore<aes::\w+::Aes256, ctr::flavors::ctr128::Ctr128BE>|ctr::Ctr128BE<aes::\w*:*Aes256>",
            "V3": r"aes::\w+::ctr::Aes256Ctr$|CtrCore<aes::\w+::Aes256, ctr::flavors::ctr128::Ctr128BE>|ctr::Ctr128BE<aes::\w*:*Aes256>",
            "V4": r"chacha20::xchacha::XChaChaCore<U10>|chacha20::XChaCha20$"}[V]
    if cc and cc[0][2].meta.get("def") in facts.bodies:
        cb = facts.bodies[cc[0][2].meta["def"]]
        cv = M.view(facts, cb)
        recv = set()
        for bi, t in cv.calls:
            m = re.match(r"^<(.*) as cipher::stream::StreamCipher>::(apply_keystream|try_apply_keystream|apply_keystream_b2b)$", M.decode_typenum(M.callee_name(t["callee"])))
            if m:
                recv.add(m.group(1))
        okp = len(recv) == 1 and bool(re.search(want, list(recv)[0]))
        _f(out, "C08.R1", okp, cb["id"], "keystream primitive", "%s.local must apply %s; the keystream is applied by %s" % (V.lower(), "AES-256-CTR (128-bit big-endian counter)" if V != "V4" else "XChaCha20", sorted(recv) or "no StreamCipher"), cb["line"], file=cv.file(),
           desc="%s.local keystream primitive: %s" % (V.lower(), M.short(sorted(recv)[0]) if recv else "?"))
    ok = len(cc) == 1 and len(pc) == 1 and cc[0][2].name == pc[0][2].name and _nonce_key_marker(cc[0][2].args[1], c) == _nonce_key_marker(pc[0][2].args[1], p)
    _f(out, "C01.R3", ok, c, "cipher agreement", "decrypt and encrypt must apply the same keystream function with the same derived key", cc[0][1]["ln"] if cc else c.e.body["line"],
       desc="%s.local: CipherText::from used both ways with the same derived key" % V.lower())
    # R5: the producer's tag is Tag::from(Ak, PAE) and the consumer compares with Tag::from(Ak', PAE')
    for side in (c, p):
        tc = _calls_in(side, r"tag::Tag<.*>>::(from|try_from|new|try_new)(::<.*>)?$")
        okt = len(tc) == 1 and len(tc[0][2].args) == 2 and tc[0][2].args[0].op in ("call", "tryok") and bool(list(tc[0][2].args[0].calls(r"AuthenticationKey<.*>>::(from|try_from)$")) or re.search(r"AuthenticationKey", M.show(tc[0][2].args[0]))) \
            and tc[0][2].args[1].op == "call" and bool(re.search(r"PreAuthenticationEncoding::parse$", tc[0][2].args[1].name))
        _f(out, "C04.R2", bool(okt), side, "tag keyed by the derived authentication key over the PAE", "Tag::from must receive the derived authentication key and this function's pre-authentication encoding", tc[0][1]["ln"] if tc else side.e.body["line"],
           desc="%s: Tag::from(Ak, PAE)" % side.e.label)


def buffer_layout(facts, body):
    """Abstract evaluation of a RawPayload assembling function on symbolic byte strings P1, P2, (P3): returns
    (ordered list of source names written contiguously from offset 0 to the end, engine ok?, detail)."""
    from . import absint as A
    from . import models as MD
    I = A.Interp(facts, MD.MODELS)
    st = A.State()
    v = M.view(facts, body)
    args = []
    for i in range(1, v.nargs + 1):
        ty = v.local_ty(i)
        sq = A.Seq("P%d" % i, A.Aff.sym("len(P%d)" % i), kind="bytes")
        if "PasetoNonce" in ty:
            args.append(A.Ptr(st.new_cell(A.Struct("crate::core::key::paseto_nonce::PasetoNonce", None, {"key": sq}))))
        else:
            args.append(A.Ptr(st.new_cell(sq)))
    outs = I.run(body, args, st)
    layouts = []
    for o in outs:
        if o.kind != "return":
            continue
        r = I.resolve(o.state, o.value)
        if isinstance(r, A.Struct) and r.variant == "Err":
            continue
        if isinstance(r, A.Struct) and r.variant == "Ok":
            r = I.resolve(o.state, r.fields["0"])
        if o.state.unmodelled or not isinstance(r, A.Seq) or "b64_of" not in r.attrs:
            layouts.append((None, False, "result is %r (unmodelled %s)" % (r, o.state.unmodelled)))
            continue
        eng = "URL_SAFE_NO_PAD" in r.attrs.get("engine", "")
        buf = r.attrs["b64_of"]
        names = None
        if isinstance(buf, A.Seq) and buf.chunks is not None:
            names = [c[1] if c[0] == "seq" else (c[1].name if c[0] == "arg" and isinstance(c[1], A.Seq) and c[1].chunks is None and c[1].elems is None else repr(c)) for c in buf.chunks]
        elif isinstance(buf, A.Seq) and "writes" in buf.attrs:
            ws = sorted(buf.attrs["writes"], key=lambda w: (len(w[0].terms), w[0].const))
            pos = A.Aff(0)
            names = []
            okk = True
            for a, b, src in buf.attrs["writes"]:
                if a != pos or not isinstance(src, A.Seq) or b.sub(a) != src.length:
                    okk = False
                names.append(src.name if isinstance(src, A.Seq) else repr(src))
                pos = b
            if not okk or pos != buf.length:
                layouts.append((names, False, "writes do not tile the buffer contiguously: %s of length %r" % ([(repr(a), repr(b)) for a, b, _ in buf.attrs["writes"]], buf.length)))
                continue
        layouts.append((names, eng, "engine %s" % r.attrs.get("engine")))
    if not layouts:
        return None, False, "no successful outcome"
    first = layouts[0]
    if any(l[0] != first[0] for l in layouts):
        return None, False, "outcomes disagree: %s" % [l[0] for l in layouts]
    return first


def _producer_layout(out, facts, p):
    """C01.R1 / C08.R5 producer side: RawPayload(nonce, ciphertext, tag) in that order, each whole."""
    V = p.V
    rc = _calls_in(p, r"raw_payload::RawPayload<.*Local>>::(from|try_from)$")
    if len(rc) != 1:
        _f(out, "C08.R5", False, p, "payload assembly", "expected one RawPayload::<V, Local> call, found %d" % len(rc), p.e.body["line"])
        return
    t = rc[0][2]
    a = t.args
    cls = [p.classify(x)[0] if i < 2 else None for i, x in enumerate(a)]
    n_ok = p.classify(M.T("field", "key", (a[0],)) if a[0].op == "param" else a[0])[0] == "nonce" or (a[0].op == "agg" and "PasetoNonce" in str(a[0].name) and p.classify(M.mk_field(a[0], "key"))[0] == "nonce")
    a1 = a[1].args[0] if a[1].op == "tryok" else a[1]
    c_ok = a1.op == "call" and bool(re.search(r"CipherText<.*Local>>::(from|try_from)$", a1.name))
    a2 = a[2].args[0] if a[2].op == "tryok" else a[2]
    t_ok = a2.op == "call" and bool(re.search(r"tag::Tag<.*>>::(from|try_from|new|try_new)", a2.name))
    _f(out, "C08.R5", bool(n_ok and c_ok and t_ok), p, "payload assembly arguments", "RawPayload must be assembled from (wire nonce, ciphertext, tag); found (%s, %s, %s)" % (M.show(a[0])[:60], M.show(a[1])[:60], M.show(a[2])[:60]), rc[0][1]["ln"],
       desc="%s.local: RawPayload(nonce, ciphertext, tag)" % V.lower())
    # the assembling function writes param1 | param2 | param3 contiguously
    d = t.meta.get("def")
    cb = facts.bodies.get(d)
    if cb is None:
        _f(out, "C08.R5", False, p, "payload assembly body", "RawPayload body not found", rc[0][1]["ln"])
        return
    cv = M.view(facts, cb)
    names, eng, detail = buffer_layout(facts, cb)
    ok = names == ["P1", "P2", "P3"] and eng
    _f(out, "C08.R5", ok, d, "nonce || ciphertext || tag", "the payload buffer must be base64url(nonce || ciphertext || tag); abstract evaluation gives %s (%s)" % (names, detail), cb["line"], file=cv.file(),
       desc="%s: buffer = nonce || ciphertext || tag, base64url(no pad)" % M.short(d))


UTF8 = r"^core::str::converts::from_utf8$|^alloc::string::String::from_utf8$"


def _ok_values(v, N):
    """normalised terms of every value wrapped in Ok(..) and returned"""
    rt = N.norm(v.return_term())
    arms = rt.args if rt.op == "phi" else [rt]
    return [a.args[0].args[0] for a in arms if a.op == "agg" and str(a.name).endswith("Result::Ok") and a.args]


def _returned_message(out, facts, c):
    """C01.R10 / C02.R9: what a consumer returns on success is the strict UTF-8 reading of exactly the authenticated message bytes
    (public: the message cut; local: the decryption of the ciphertext cut) - not a re-decoded, lossy or differently cut value."""
    V, P = c.e.vp
    rl = "C01.R10" if P == "Local" else "C02.R9"
    oks = _ok_values(c.v, c.N)
    if not oks:
        _f(out, rl, False, c, "returned message", "no Ok(..) return value found", c.e.body["line"])
        return
    for okv in oks:
        why = None
        t = okv.args[0] if okv.op == "tryok" else None
        if t is None or t.op != "call" or not re.search(UTF8, t.meta.get("tdef", "")):
            why = "the returned string is %s, not a strict from_utf8 conversion" % M.show(okv)[:140]
        else:
            y = t.args[0]
            if y.op == "field" and y.name == "ciphertext":
                y = y.args[0]
            y0 = y.args[0] if y.op == "tryok" else y
            if P == "Public":
                if c.helper and y0.op == "call" and y0.meta.get("def") == c.helper:
                    # the helper's Ok value carries the message cut of its first parameter
                    hb = facts.bodies[c.helper]
                    hv = M.view(facts, hb)
                    hN = M.Normalizer(facts, keep=S.KEEP)
                    base = lambda z: z.op == "param" and z.name == 1
                    hoks = _ok_values(hv, hN)
                    good = bool(hoks) and y0.args and is_payload(y0.args[0])
                    for h in hoks:
                        m = M.mk_field(h, "ciphertext")
                        sl = SL.payload_slice(m, base)
                        if not (sl is not None and sl[0] == A_Aff(0) and sl[1].terms == {"L": 1} and -sl[1].const == SIG_LEN[V]):
                            good = False
                            why = "the helper returns %s, not payload[..len-%d]" % (M.show(m)[:100], SIG_LEN[V])
                    if not good and why is None:
                        why = "the helper's result could not be related to the decoded payload"
                else:
                    cl = c.classify(y)
                    if not (cl[0] == "body" and cl[1] == ("head", SIG_LEN[V])):
                        why = "the returned bytes are %s (%s), not the signed message payload[..len-%d]" % (M.show(y)[:100], cl, SIG_LEN[V])
            else:
                if V == "V2":
                    good = y0.op == "call" and bool(re.search(r"CipherText<.*V2.*Local>>::try_decrypt_from$", y0.name))
                    if not good:
                        why = "the returned bytes are %s, not the AEAD decryption result" % M.show(y)[:120]
                else:
                    good = y0.op == "call" and bool(re.search(r"CipherText<.*Local>>::from$", y0.name)) and y0.args
                    if good:
                        cl = c.classify(y0.args[0])
                        good = cl[0] == "body" and cl[1] == ("mid", NONCE_LEN[V], TAG_LEN[V])
                    if not good:
                        why = "the returned bytes are %s, not the keystream applied to payload[%d..len-%d]" % (M.show(y)[:120], NONCE_LEN[V], TAG_LEN[V])
        _f(out, rl, why is None, c, "returned message", why or "", c.e.body["line"], desc="%s.%s returns from_utf8(authenticated message bytes)" % (V.lower(), P.lower()))


def _payload_codec(out, facts, p):
    """C01.R5 / C02.R3: the producer writes the payload segment with the engine parse_raw_token decodes it with (URL_SAFE_NO_PAD):
    any other alphabet or padding makes the library refuse its own tokens for some payload lengths / byte values.
    v2.local additionally gets its layout rule here (C08.R5: nonce || AEAD output)."""
    V, P = p.e.vp
    rl = "C01.R5" if P == "Local" else "C02.R3"
    rc = _calls_in(p, r"raw_payload::RawPayload<.*>>::(from|try_from)$")
    if len(rc) != 1:
        _f(out, rl, False, p, "payload assembly", "expected one RawPayload call in the producer, found %d" % len(rc), p.e.body["line"])
        return
    d = rc[0][2].meta.get("def")
    cb = facts.bodies.get(d)
    if cb is None:
        _f(out, rl, False, p, "payload assembly body", "RawPayload body not found", rc[0][1]["ln"])
        return
    cv = M.view(facts, cb)
    names, eng, detail = buffer_layout(facts, cb)
    _f(out, rl, bool(eng), d, "payload segment engine", "the payload segment must be written with URL_SAFE_NO_PAD, the engine parse_raw_token decodes with; abstract evaluation gives %s" % detail, cb["line"], file=cv.file(),
       desc="%s writes the payload segment with URL_SAFE_NO_PAD" % M.short(d))
    if (V, P) == ("V2", "Local"):
        ok = names == ["P1", "P2"] and eng
        _f(out, "C08.R5", bool(ok), d, "nonce || aead output", "the v2.local payload buffer must be base64url(nonce || AEAD output); abstract evaluation gives %s (%s)" % (names, detail), cb["line"], file=cv.file(),
           desc="%s: buffer = nonce || AEAD output, base64url(no pad)" % M.short(d))


def _v2_agreement(out, facts, c, p):
    """v2.local: same AEAD type, key, nonce and aad mapping in CipherText::try_from / try_decrypt_from; wire = nonce || aead output."""
    bodies = {}
    for name in ("try_from", "try_decrypt_from"):
        bs = [b for bid, b in facts.bodies.items() if re.search(r"CipherText<crate::core::version::v2::V2, crate::core::purpose::local::Local>>::%s$" % name, bid)]
        bodies[name] = bs[0] if len(bs) == 1 else None
    if not all(bodies.values()):
        _f(out, "C01.R3", False, c, "v2 AEAD helpers", "CipherText::<V2, Local>::{try_from, try_decrypt_from} not found", c.e.body["line"])
        return
    sig = {}
    for name, b in bodies.items():
        v = M.view(facts, b)
        N = M.Normalizer(facts, keep=S.KEEP)
        calls = v.find_calls(r"^aead::Aead::(encrypt|decrypt)$")
        if len(calls) != 1:
            _f(out, "C01.R3", False, b["id"], "AEAD call", "expected exactly one Aead::encrypt/decrypt call", b["line"], file=v.file())
            return
        bi, t = calls[0]
        ct = M.drop_calls(N.norm(v.call_term(t, bi)), r"Result::<.*>::map_err|core::result::Result::<T, E>::map_err$")
        recv, nonce, pl = ct.args[0], ct.args[1], ct.args[2]
        sig[name] = (re.sub(r"::(encrypt|decrypt)::", "::", ct.name), M.show(recv), M.show(nonce), M.show(M.mk_field(pl, "msg")), M.show(M.mk_field(pl, "aad")))
    ok = sig["try_from"] == sig["try_decrypt_from"]
    _f(out, "C01.R3", ok, c, "AEAD agreement", "encrypt: %s; decrypt: %s" % (sig["try_from"], sig["try_decrypt_from"]), bodies["try_from"]["line"],
       desc="v2.local: AEAD %s keyed by %s, nonce %s, aad %s on both sides" % (M.short(sig["try_from"][0]), sig["try_from"][1][:60], sig["try_from"][2], sig["try_from"][4][:40]))
    okk = "XChaCha20Poly1305" in sig["try_from"][0] or "ChaChaPoly1305<chacha20::xchacha::XChaCha20" in sig["try_from"][0] or "XChaCha" in sig["try_from"][0]
    _f(out, "C08.R1", okk, c, "v2 AEAD primitive", "v2.local must use XChaCha20-Poly1305; found %s" % M.short(sig["try_from"][0]), bodies["try_from"]["line"],
       desc="v2.local primitive: %s" % M.short(sig["try_from"][0]))
    # call sites: same nonce / aad roles
    for side, pat in ((p, r"CipherText<.*V2.*Local>>::try_from$"), (c, r"CipherText<.*V2.*Local>>::try_decrypt_from$")):
        cc = _calls_in(side, pat)
        okc = len(cc) == 1 and cc[0][2].args[0].op == "param" and cc[0][2].args[0].name == side.params.get("key") and \
            cc[0][2].args[3].op == "call" and bool(re.search(r"PreAuthenticationEncoding::parse$", cc[0][2].args[3].name))
        nonce_arg = cc[0][2].args[1] if cc else None
        okn = nonce_arg is not None and side.classify(nonce_arg if side.e.role == "producer" else nonce_arg)[0] == "nonce"
        _f(out, "C01.R3", bool(okc and okn), side, "AEAD call-site (key, nonce, aad)", "the AEAD helper must receive the caller's key, the wire nonce and the PAE; found %s" % (M.show(cc[0][2])[:200] if cc else "no call"), cc[0][1]["ln"] if cc else side.e.body["line"],
           desc="%s: AEAD(key param, wire nonce, PAE)" % side.e.label)
    rc = _calls_in(p, r"raw_payload::RawPayload<.*V2.*Local>>::from$")
    okr = len(rc) == 1 and p.classify(rc[0][2].args[0])[0] == "nonce" and rc[0][2].args[1].op in ("field", "tryok", "call") and bool(re.search(r"CipherText<.*V2.*Local>>::try_from", M.show(rc[0][2].args[1]) + " ".join(x.name for x in rc[0][2].args[1].calls())))
    _f(out, "C08.R5", bool(okr), p, "payload assembly arguments", "v2.local payload must be (derived nonce, AEAD output)", rc[0][1]["ln"] if rc else p.e.body["line"], desc="v2.local: RawPayload(nonce, aead output)")


def _public_producer(out, facts, p):
    """C02.R4 / C08.R5: payload = message || signature; the signature is over this function's PAE."""
    V = p.V
    rc = _calls_in(p, r"raw_payload::RawPayload<.*Public>>::from$")
    if len(rc) != 1:
        _f(out, "C02.R4", False, p, "payload assembly", "expected one RawPayload::<V, Public>::from call, found %d" % len(rc), p.e.body["line"])
        return
    t = rc[0][2]
    okm = t.args[0] == p.self_payload()
    sig = t.args[1]
    pae_in_sig = len(list(sig.calls(r"PreAuthenticationEncoding::parse$"))) == 1
    _f(out, "C02.R4", bool(okm and pae_in_sig), p, "message || signature", "the payload must be the message followed by a signature computed over the PAE; found (%s, %s)" % (M.show(t.args[0])[:60], M.show(sig)[:120]), rc[0][1]["ln"],
       desc="%s.public: RawPayload(self.payload, sign(PAE))" % V.lower())
    # algorithm table
    names = " ".join(x.name for x in sig.calls())
    want = {"V1": r"RsaKeyPair::sign.*|ring::rsa::keypair", "V2": r"ed25519_dalek::signing::SigningKey.*sign|Signer<ed25519", "V4": r"ed25519_dalek::signing::SigningKey.*sign|Signer<ed25519", "V3": r"p384|NistP384"}[V]
    oka = bool(re.search(want, names))
    if V == "V1":
        oka = oka and "RSA_PSS_SHA384" in M.show(sig)
    _f(out, "C08.R1", oka, p, "signature primitive", "signature algorithm for %s.public is not the specification's: %s" % (V.lower(), names[:200]), rc[0][1]["ln"], desc="%s.public signs with %s" % (V.lower(), want.split("|")[0]))
    # C04.R4: the signer is built from the caller's whole private key by the constructor that validates it (Ed25519: the 64-byte
    # key pair whose public half is checked against the seed) - a signer built from a part of the key signs for another identity
    ctor = {"V1": r"ring::rsa::keypair::KeyPair::(from_pkcs8|from_der)$", "V2": r"ed25519_dalek::signing::SigningKey::from_keypair_bytes$|ed25519_dalek::.*Keypair::from_bytes$",
            "V4": r"ed25519_dalek::signing::SigningKey::from_keypair_bytes$|ed25519_dalek::.*Keypair::from_bytes$", "V3": r"ecdsa::signing::SigningKey::<.*NistP384>::(from_bytes|from_slice)$"}[V]
    whole = T("field", "key", (T("param", p.params.get("key")),))
    cands = [x for x in sig.calls(ctor)]
    def strip_conv(x):
        g = 0
        while g < 6:
            g += 1
            if x.op == "tryok":
                x = x.args[0]
            elif x.op == "call" and re.search(r"convert::TryFrom<&\[u8\]> for &\[u8; \d+\]>::try_from$|generic_array::GenericArray::<.*>::from_slice$|<impl .*From<&\[u8\]>.*>::from$", x.name) and x.args:
                x = x.args[0]
            else:
                break
        return x
    okc = bool(cands) and all(x.args and strip_conv(x.args[0]) == whole for x in cands)
    _f(out, "C04.R4", okc, p, "signing key from the whole private key", "the signer of %s.public must be built from the caller's entire private key with %s; found %s" % (V.lower(), ctor.split("|")[0], [M.show(x)[:120] for x in cands] or names[:160]), rc[0][1]["ln"],
       desc="%s.public: signer = %s(whole private key)" % (V.lower(), M.short(cands[0].name) if cands else "?"))
    d = t.meta.get("def")
    cb = facts.bodies.get(d)
    if cb is not None:
        cv = M.view(facts, cb)
        names, eng, detail = buffer_layout(facts, cb)
        ok = names == ["P1", "P2"] and eng
        _f(out, "C08.R5", ok, d, "message || signature", "RawPayload::<V, Public>::from must produce base64url(message || signature); abstract evaluation gives %s (%s)" % (names, detail), cb["line"], file=cv.file(),
           desc="RawPayload public: message || signature")


def _min_length_guard(out, facts, c):
    """C01.R1 / C02.R1: the only length-based rejection is `len < fixed part` (nonce+tag, signature): an authentic token for the
    empty message is not rejected; (that it is not smaller either is C09's obligation)."""
    V, P = c.e.vp
    fixed = (NONCE_LEN[V] + TAG_LEN[V]) if (P == "Local" and V != "V2") else (NONCE_LEN[V] + 16 if P == "Local" else SIG_LEN[V])
    rl = "C01.R9" if P == "Local" else "C02.R7"
    views = [(c.v, c.N, c.e.id)]
    if c.helper:
        hb = facts.bodies[c.helper]
        views.append((M.view(facts, hb), M.Normalizer(facts, keep=S.KEEP), c.helper))
    found = set()
    for v, N, where in views:
        for sw in M.bool_switches(v):
            if sw["ty"] != "bool":
                continue
            t = N.norm(sw["term"])
            neg = False
            while t.op == "unop" and t.name == "Not":
                neg = not neg
                t = t.args[0]
            if t.op != "binop" or t.name not in ("Lt", "Le", "Gt", "Ge", "Eq", "Ne"):
                continue
            a, b = t.args
            def islen(x):
                return is_len_of(x, lambda y: is_payload(y) or (y.op == "param" and y.name == 1 and where != c.e.id))
            if islen(a) and const_int(b) is not None:
                op, k = t.name, const_int(b)
            elif islen(b) and const_int(a) is not None:
                op, k = {"Lt": "Gt", "Le": "Ge", "Gt": "Lt", "Ge": "Le", "Eq": "Eq", "Ne": "Ne"}[t.name], const_int(a)
            else:
                continue
            found.add((where, sw["block"]))
            tr, fl = M.truth_edges(sw)
            # which lengths take the edge that leads to an Err exit?
            oks, errs, dele = S.ok_exits(v)
            def leads_to_err_only(bb):
                r = v.cfg.reachable_without(start=bb)
                return not (set(oks + [x for x, _ in dele]) & r)
            true_rejects = leads_to_err_only(tr)
            false_rejects = leads_to_err_only(fl)
            if neg:
                true_rejects, false_rejects = false_rejects, true_rejects
            # set of L for which cond(len op k) is true
            max_rejected = None
            if true_rejects and not false_rejects:
                if op == "Lt":
                    max_rejected = k - 1
                elif op == "Le":
                    max_rejected = k
                else:
                    max_rejected = 10 ** 9
            elif false_rejects and not true_rejects:
                if op == "Ge":
                    max_rejected = k - 1
                elif op == "Gt":
                    max_rejected = k
                else:
                    max_rejected = 10 ** 9
            else:
                continue
            ok = max_rejected is not None and max_rejected <= fixed - 1
            _f(out, rl, ok, where, "length guard", "a decoded payload of %d bytes (the empty message) must not be rejected by the length guard; the guard rejects lengths up to %s" % (fixed, max_rejected), sw["ln"], file=v.file(),
               desc="%s.%s: length guard rejects only len < %d" % (V.lower(), P.lower(), fixed))
    # the same guard written with checked cuts: split_at_checked(m) / checked_sub(c) followed by `?` reject L < offset + m / L < c
    for v, N, where in views:
        for bi, t in v.find_calls(r"<impl \[T\]>::split_at_checked$|^core::num::<impl usize>::checked_sub$"):
            ct = N.norm(v.call_term(t, bi))
            base = lambda y: is_payload(y) or (y.op == "param" and y.name == 1 and where != c.e.id)
            lim = None
            if re.search(r"split_at_checked$", ct.name):
                sl = SL.payload_slice(ct.args[0], base)
                m = SL.aff(ct.args[1], base)
                if sl is not None and m is not None and sl[0].is_const() and m.is_const():
                    lim = sl[0].const + m.const
            else:
                a = SL.aff(ct.args[0], base)
                k = const_int(ct.args[1])
                if a is not None and a.terms == {"L": 1} and k is not None:
                    lim = k - a.const
            if lim is None:
                continue
            found.add((where, bi))
            ok = lim - 1 <= fixed - 1
            _f(out, rl, ok, where, "length guard (checked cut)", "a decoded payload of %d bytes (the empty message) must not be rejected; the checked cut rejects lengths below %d" % (fixed, lim), t["ln"], file=v.file(),
               desc="%s.%s: checked cut rejects only len < %d" % (V.lower(), P.lower(), lim))
    return found


STATEFUL = r"std::thread::local::|core::cell::(Cell|RefCell|OnceCell)|std::sync::(Mutex|RwLock|OnceLock|LazyLock)|once_cell::|lazy_static::|core::sync::atomic::"


def _only_from(t, keyparam):
    """None when the value denoted by t is, on every data arm, computed from the key parameter and from nothing stateful;
    else a description of the offending sub-term"""
    for x in t.walk():
        if x.op == "phi":
            for a in x.args:
                if a.op == "call" and re.search(r"FromResidual<.*>>::from_residual$", a.name):
                    continue    # error propagation arm: no key value flows from it
                if keyparam not in a.params():
                    return "one alternative of the value does not come from the key parameter: %s" % M.show(a)[:160]
        if x.op == "call" and re.search(STATEFUL, x.meta.get("tdef", "") + " " + x.name):
            return "the value is read from program state: %s" % M.show(x)[:120]
    return None


def _key_rules(out, facts, protos):
    """C04.R1: the whole user key keys the authenticator; C04.R3: the supplied public key reaches the verifier."""
    pats = [(r"authentication_key_impl::v\d_local::<impl .*AuthenticationKey<.*>>::(from|try_from)$", "authentication key"),
            (r"encryption_key_impl::v\d_local::<impl .*EncryptionKey<.*>>::(from|try_from)$", "encryption key"),
            (r"cipher_text_impl::v2_local::<impl .*CipherText<.*>>::(try_from|try_decrypt_from)$", "AEAD key")]
    for bid, b in sorted(facts.bodies.items()):
        for pat, what in pats:
            if not re.search(pat, bid):
                continue
            v = M.view(facts, b)
            N = M.Normalizer(facts, keep=S.KEEP)
            kparam = None
            for i in range(1, v.nargs + 1):
                if "PasetoSymmetricKey<" in v.local_ty(i):
                    kparam = i
            whole = T("field", "0", (T("field", "key", (T("param", kparam),)),)) if kparam else None
            Ni = M.Normalizer(facts, keep=[])
            sink_terms = []
            for bi, t in v.calls:
                ct = Ni.norm(v.call_term(t, bi))
                for x in ct.walk():
                    if x.op == "call" and re.search(r"crypto_common::KeyInit::new_from_slice$|ring::hkdf::Salt::extract$|digest::mac::Mac::new_from_slice$", x.meta.get("tdef", "")):
                        sink_terms.append((x, t["ln"]))
            ok = False
            detail = "no keyed primitive constructor found"
            ln = b["line"]
            seen_k = set()
            for ct, l2 in sink_terms:
                karg = ct.args[-1] if re.search(r"extract$", ct.name) else ct.args[0]
                ln = l2
                ok = karg == whole
                detail = "keyed with %s" % M.show(karg)[:120]
                if not ok:
                    break
            _f(out, "C04.R1", ok, bid, "whole user key into the " + what, "the %s must be derived from the caller's entire 32-byte key (key.key.0 unsliced); %s" % (what, detail), ln, file=v.file(),
               desc="%s: %s keyed by the whole user key" % (M.short(bid), what))
    # call sites pass the key parameter
    for (role, vp), pr in sorted(protos.items()):
        if vp[1] != "Local":
            continue
        pat = r"AuthenticationKey<.*>>::(from|try_from)$|EncryptionKey<.*>>::(from|try_from)$|CipherText<.*V2.*>>::(try_from|try_decrypt_from)$"
        for bi, t, ct in _calls_in(pr, pat):
            ok = any(a.op == "param" and a.name == pr.params.get("key") for a in ct.args)
            _f(out, "C04.R1", ok, pr, "key parameter into " + M.short(ct.name), "the key derivation must receive this function's key parameter; found %s" % M.show(ct)[:160], t["ln"], desc="%s: %s(key param)" % (pr.e.label, M.short(ct.name)[:50]))
    for (role, vp), pr in sorted(protos.items()):
        if vp[1] != "Public" or role != "consumer":
            continue
        info = S.auth_info(facts, pr.e.body)
        for s in info.sites:
            if s["kind"] == "sig":
                ct = pr.N.norm(s["term"])
                ps = ct.args[0].params()
                stateful = _only_from(ct.args[0], pr.params.get("key"))
                ok = ps == [pr.params.get("key")] and stateful is None
                _f(out, "C04.R3", ok, pr, "verification key", "the verifying key must be built from the public_key parameter only; %s" % (stateful or "it depends on params %s: %s" % (ps, M.show(ct.args[0])[:160])), s["ln"],
                   desc="%s: verifier key from the public_key parameter" % pr.e.label)
            elif s["kind"] == "delegated":
                call = pr.N.norm(s["term"])
                cb = facts.bodies[s["callee"]]
                cinfo = S.auth_info(facts, cb)
                cN = M.Normalizer(facts, keep=S.KEEP)
                for cs in cinfo.sites:
                    if cs["kind"] == "sig":
                        ct = cN.norm(cs["term"])
                        ps = ct.args[0].params()
                        ok = len(ps) == 1 and call.args[ps[0] - 1].params() == [pr.params.get("key")] and _only_from(ct.args[0], ps[0]) is None and _only_from(call.args[ps[0] - 1], pr.params.get("key")) is None
                        _f(out, "C04.R3", ok, pr, "verification key", "the verifying key must be built from the public_key parameter only", s["ln"], desc="%s: verifier key from the public_key parameter (via helper)" % pr.e.label)


def _nonce_rules(out, facts, entries, protos):
    """C10: fresh CSPRNG draw per build, whole buffer, all bytes reach the wire."""
    rnd = [b for bid, b in facts.bodies.items() if re.search(r"keys::Key::<KEYSIZE>::try_new_random$", bid)]
    if len(rnd) != 1:
        _f(out, "C10.R2", False, "Key::try_new_random", "anchor missing", "Key::<N>::try_new_random not found")
    else:
        b = rnd[0]
        v = M.view(facts, b)
        # semantic: on every Ok outcome the returned key is, whole, the output of one SystemRandom fill; a failing fill yields Err
        from . import absint as A
        from . import models as MD
        I = A.Interp(facts, MD.MODELS)
        st0 = A.State()
        st0.bounds["KEYSIZE"] = (1, 1 << 20)
        outs = I.run(b, [], st0)
        bad = []
        n_ok = 0
        for o in outs:
            if o.kind != "return":
                bad.append("path ends with %s" % o.kind)
                continue
            r = I.resolve(o.state, o.value)
            failed = any(c == "rng fill fails" for c in o.state.cond)
            if isinstance(r, A.Struct) and r.variant == "Ok":
                if failed:
                    bad.append("Ok is returned although the CSPRNG reported a failure")
                    continue
                n_ok += 1
                key = I.resolve(o.state, r.fields["0"])
                buf = MD.deref(I, o.state, key.fields.get("0")) if isinstance(key, A.Struct) else None
                whole = isinstance(buf, A.Seq) and buf.attrs.get("random") and not buf.attrs.get("writes") and buf.length == A.Aff.sym("KEYSIZE")
                if not whole:
                    bad.append("the returned key bytes are %r, not one whole buffer filled by the CSPRNG" % (buf,))
                if o.state.unmodelled:
                    bad.append("unmodelled calls on the path: %s" % o.state.unmodelled)
            elif isinstance(r, A.Struct) and r.variant == "Err":
                if not failed:
                    bad.append("Err without a CSPRNG failure")
            else:
                bad.append("returns %r" % (r,))
        ok = not bad and n_ok >= 1
        detail = "; ".join(bad)[:300] or "no Ok outcome"
        ln = b["line"]
        _f(out, "C10.R2", ok, b["id"], "whole buffer filled by the system CSPRNG", "try_new_random must return a buffer filled whole by SystemRandom::fill, and an RNG failure must be an Err; %s" % detail, ln, file=v.file(),
           desc="Key::try_new_random: Ok(Key(buf)) with buf filled whole by SystemRandom; failure -> Err")
    for e in S.select(entries, "generic", "producer", "Local"):
        from . import layers as _layers
        if _layers.analyse(facts, entries).get(e.id, (None, None))[0] is not None:
            continue    # decided by the generic build contract (rules/layers.py)
        v = M.view(facts, e.body)
        N = M.Normalizer(facts, keep=S.KEEP)
        core_calls = [(bi, t) for bi, t in v.find_calls(r"paseto::Paseto<.*Local>>::try_encrypt$")]
        if len(core_calls) != 1:
            _f(out, "C10.R1", False, e.id, "core call", "expected one core try_encrypt call", e.body["line"], file=v.file())
            continue
        bi, t = core_calls[0]
        ct = S.demut(N.norm(v.call_term(t, bi)))
        nonce = ct.args[2]
        key = M.mk_field(nonce, "key")
        # key = field(tryok(try_new_random()), 0)
        inner = key.args[0] if key.op == "field" and key.name == "0" else key
        want_n = {"V1": (32,), "V2": (24, 32), "V3": (32,), "V4": (32,)}[e.vp[0]]
        m = re.search(r"Key::<(\d+)>::try_new_random$", inner.args[0].name) if inner.op == "tryok" and inner.args[0].op == "call" else None
        ok = bool(m) and int(m.group(1)) in want_n and not inner.args[0].args
        leaves = [x for x in nonce.walk() if x.op in ("param", "static") or (x.op == "const" and not str(x.name).startswith("zst"))]
        ok = ok and not leaves
        # the draw happens inside this function on every path to the core call
        draws = v.find_calls(r"Key::<KEYSIZE>::try_new_random$")
        on_path = len(draws) == 1 and v.cfg.dominates(draws[0][0], bi)
        _f(out, "C10.R1", bool(ok and on_path), e.id, "fresh nonce per build", "the nonce of every build must be PasetoNonce::from(&Key::<N>::try_new_random()?) drawn inside the function; found %s" % M.show(nonce)[:200], t["ln"], file=v.file(),
           desc="%s: nonce = try_new_random()? drawn per call (N=%s)" % (e.label, m.group(1) if m else "?"))
    for (role, vp), pr in sorted(protos.items()):
        if role == "producer" and vp[1] == "Local" and hasattr(pr, "cls"):
            n = dict((x[0], x[1]) for x in pr.cls).get("nonce")
            if vp[0] in ("V3", "V4"):
                ok = n == "param"
                want = "the nonce parameter verbatim"
            elif vp[0] == "V1":
                ok = n == ("derived", "HMAC-SHA384", 32)
                want = "HMAC-SHA384(key = random bytes)(message)[..32]"
            else:
                ok = n == ("derived", "BLAKE2b-24", 24)
                want = "BLAKE2b-24(key = random bytes)(message)"
            _f(out, "C10.R3", ok, pr, "all nonce bytes reach the wire", "the wire nonce must be %s; found %s" % (want, n), pr.pae_site["ln"], desc="%s: wire nonce = %s" % (pr.e.label, want))
            _f(out, "C08.R3", ok, pr, "nonce derivation", "the wire nonce must be %s; found %s" % (want, n), pr.pae_site["ln"], desc="%s: wire nonce = %s" % (pr.e.label, want))
    from . import layers
    lay = layers.analyse(facts, entries)
    for e in S.select(entries, "prelude", "producer", "Local"):
        if lay.get(e.id, (None, None))[0] is not None:
            continue    # decided by the build contract (rules/layers.py)
        v = M.view(facts, e.body)
        names = [M.callee_def(t["callee"]) for _, t in v.calls]
        gen = [x for x in names if re.search(r"GenericBuilder::<.*>::try_encrypt$", x)]
        ok = len(gen) == 1
        _f(out, "C10.R4", ok, e.id, "delegation", "PasetoBuilder::build must delegate to GenericBuilder::try_encrypt", e.body["line"], file=v.file(), desc="%s: delegates to GenericBuilder::try_encrypt" % e.label)


def _wrapper_rules(out, facts, entries):
    """C01.R7 / C02.R5 / C05.R5 / C06.R4 / C10.R4: the generic and prelude layers forward payload, key, footer and assertion unchanged
    and do not consume builder / parser state.  Decided semantically (rules/layers.py: the wrapper is interpreted with the layer below
    summarised, its contract read off the events); the structural rules below are only the second opinion for an entry point the
    interpreter could not follow to the end."""
    from . import layers
    sem = layers.analyse(facts, entries)
    structural = []
    _wrapper_rules_structural(structural, facts, entries)
    decided = set(w for w, (fs, _why) in sem.items() if fs is not None)
    for w, (fs, _why) in sorted(sem.items()):
        if fs is not None:
            out.extend(fs)
    for f in structural:
        if f.where not in decided:
            out.append(f)


def _wrapper_rules_structural(out, facts, entries):
    for e in S.select(entries, "generic", "producer"):
        v = M.view(facts, e.body)
        N = M.Normalizer(facts, keep=S.KEEP)
        rl = "C01.R7" if e.vp[1] == "Local" else "C02.R5"
        core = v.find_calls(r"paseto::Paseto<.*>>::(try_encrypt|try_sign)$")
        if len(core) != 1:
            _f(out, rl, False, e.id, "core call", "expected exactly one core try_encrypt/try_sign call", e.body["line"], file=v.file())
            continue
        bi, t = core[0]
        ct = S.demut(N.norm(v.call_term(t, bi)))
        # the core builder object: mut(Paseto::default(), [set_payload(..), set_footer(..), set_implicit_assertion(..)])
        obj = ct.args[0]
        muts = [m for m in obj.args[1:]] if obj.op == "mut" else []
        def find(name):
            return [m for m in muts if m.op == "call" and re.search(name + "$", m.name)]
        key_ok = ct.args[1].op == "param" and "Key<" in v.local_ty(ct.args[1].name)
        _f(out, rl, key_ok, e.id, "key forwarded", "the core call must receive the key parameter", t["ln"], file=v.file(), desc="%s: key parameter forwarded" % e.label)
        sp = find(r"set_payload")
        okp = len(sp) == 1 and any(x.op == "call" and re.search(r"build_payload_from_claims$", x.name) for x in sp[0].walk())
        _f(out, rl, okp, e.id, "payload forwarded", "set_payload must receive the JSON produced by build_payload_from_claims", t["ln"], file=v.file(), desc="%s: payload = build_payload_from_claims()" % e.label)
        sf = find(r"set_footer")
        okf = len(sf) == 1 and _is_some_field(sf[0].args[1], "footer")
        _f(out, "C05.R5", okf, e.id, "footer forwarded", "set_footer must receive self.footer (when Some); found %s" % (M.show(sf[0].args[1])[:100] if sf else "no set_footer call"), t["ln"], file=v.file(), desc="%s: footer forwarded" % e.label)
        _f(out, rl, okf, e.id, "footer forwarded", "set_footer must receive self.footer (when Some)", t["ln"], file=v.file(), desc="%s: footer forwarded" % e.label)
        if e.vp[0] in ("V3", "V4"):
            sa = find(r"set_implicit_assertion")
            oka = len(sa) == 1 and _is_some_field(sa[0].args[1], "implicit_assertion")
            _f(out, "C06.R4", oka, e.id, "assertion forwarded", "set_implicit_assertion must receive self.implicit_assertion (when Some); found %s" % (M.show(sa[0].args[1])[:100] if sa else "no call"), t["ln"], file=v.file(), desc="%s: assertion forwarded" % e.label)
            _f(out, rl, oka, e.id, "assertion forwarded", "set_implicit_assertion must receive self.implicit_assertion (when Some)", t["ln"], file=v.file(), desc="%s: assertion forwarded" % e.label)
        # the setters are guarded only by `is Some`: every path to the core call with Some(..) passes the setter
        # no builder state is consumed by building (footer / assertion / claims stay for the next build)
        for w in M.field_writes(v):
            if w["adt"].endswith("GenericBuilder") and w["field"] in ("footer", "implicit_assertion"):
                rule = "C05.R5" if w["field"] == "footer" else "C06.R4"
                _f(out, rule, False, e.id, "build writes GenericBuilder.%s" % w["field"], "building a token must not modify the builder's %s (%s %s): later tokens of the same builder would lose it" % (w["field"], w["kind"], ",".join(w.get("users", []))[:80]), w["ln"], file=v.file())
                _f(out, rl, False, e.id, "build writes GenericBuilder.%s" % w["field"], "building a token must not modify the builder's %s" % w["field"], w["ln"], file=v.file())
    for e in S.select(entries, "generic", "consumer"):
        v = M.view(facts, e.body)
        N = M.Normalizer(facts, keep=S.KEEP)
        rl = "C01.R7" if e.vp[1] == "Local" else "C02.R5"
        core = v.find_calls(r"paseto::Paseto<.*>>::(try_decrypt|try_verify)$")
        if len(core) != 1:
            _f(out, rl, False, e.id, "core call", "expected exactly one core try_decrypt/try_verify call", e.body["line"], file=v.file())
            continue
        bi, t = core[0]
        ct = S.demut(N.norm(v.call_term(t, bi)))
        okt = ct.args[0].op == "param" and v.local_ty(ct.args[0].name) == "&str"
        okk = ct.args[1].op == "param" and "Key<" in v.local_ty(ct.args[1].name)
        _f(out, rl, okt and okk, e.id, "token and key forwarded", "the core call must receive the token and key parameters; found %s" % M.show(ct)[:160], t["ln"], file=v.file(), desc="%s: token, key forwarded" % e.label)
        okf = ct.args[2] == T("field", "footer", (T("param", 1),))
        _f(out, "C05.R5", okf, e.id, "expected footer forwarded", "the core call must receive self.footer as expected footer; found %s" % M.show(ct.args[2])[:100], t["ln"], file=v.file(), desc="%s: self.footer forwarded" % e.label)
        if e.vp[0] in ("V3", "V4"):
            oka = len(ct.args) > 3 and ct.args[3] == T("field", "implicit_assertion", (T("param", 1),))
            _f(out, "C06.R4", oka, e.id, "expected assertion forwarded", "the core call must receive self.implicit_assertion; found %s" % (M.show(ct.args[3])[:100] if len(ct.args) > 3 else "nothing"), t["ln"], file=v.file(), desc="%s: self.implicit_assertion forwarded" % e.label)
    # prelude wrappers delegate with their own parameters
    for e in S.select(entries, "prelude"):
        v = M.view(facts, e.body)
        N = M.Normalizer(facts, keep=S.KEEP)
        rl = "C01.R7" if e.vp[1] == "Local" else "C02.R5"
        pat = r"GenericBuilder::<.*>::(try_encrypt|try_sign)$" if e.role == "producer" else r"GenericParser::<.*>::parse$"
        cs = v.find_calls(pat)
        ok = len(cs) == 1
        if ok:
            bi, t = cs[0]
            ct = S.demut(N.norm(v.call_term(t, bi)))
            inner = ct.args[0]
            want_inner = T("field", "builder" if e.role == "producer" else "parser", (T("param", 1),))
            ok = inner == want_inner and all(a.op == "param" for a in ct.args[1:]) and len(ct.args) == v.nargs
        _f(out, rl, bool(ok), e.id, "delegation", "the prelude entry point must delegate to the generic layer with its own parameters", e.body["line"], file=v.file(), desc="%s: delegates" % e.label)
    # setters store their argument / forward it
    setters = [
        (r"paseto::Paseto::<'a, Version, Purpose>::set_footer$", "footer", "C05.R5"), (r"paseto::Paseto::<'a, Version, Purpose>::set_implicit_assertion$", "implicit_assertion", "C06.R4"),
        (r"paseto::Paseto::<'a, Version, Purpose>::set_payload$", "payload", "C01.R7"),
        (r"GenericBuilder::<'a, 'b, Version, Purpose>::set_footer$", "footer", "C05.R5"), (r"GenericBuilder::<'a, 'b, Version, Purpose>::set_implicit_assertion$", "implicit_assertion", "C06.R4"),
        (r"GenericParser::<'a, 'b, Version, Purpose>::set_footer$", "footer", "C05.R5"), (r"GenericParser::<'a, 'b, Version, Purpose>::set_implicit_assertion$", "implicit_assertion", "C06.R4"),
    ]
    for pat, field, rule in setters:
        bs = [b for bid, b in facts.bodies.items() if re.search(pat, bid)]
        if len(bs) != 1:
            _f(out, rule, False, pat, "setter missing", "expected one setter matching %s" % pat)
            continue
        b = bs[0]
        v = M.view(facts, b)
        ws = [w for w in M.field_writes(v) if w["field"] == field and w["kind"] == "assign"]
        ok = False
        if len(ws) == 1:
            t = v.rv_term(ws[0]["rv"])
            val = t
            if t.op == "agg" and str(t.name).endswith("Option::Some"):
                val = t.args[0].args[0]
            ok = val.op == "param" and val.name == 2
            # on every path
            ok = ok and v.cfg.dominates(ws[0]["block"], v.cfg.return_blocks()[0]) if v.cfg.return_blocks() else False
        _f(out, rule, ok, b["id"], "setter stores its argument", "%s must store its argument in .%s on every path" % (M.short(b["id"]), field), b["line"], file=v.file(), desc="%s stores its argument" % M.short(b["id"]))
        for r2 in ("C01.R7", "C02.R5"):
            if rule != r2:
                _f(out, r2, ok, b["id"], "setter stores its argument", "%s must store its argument on every path" % M.short(b["id"]), b["line"], file=v.file(), desc="%s stores its argument" % M.short(b["id"]))
    fw = [
        (r"PasetoBuilder::<'a, Version, Purpose>::set_footer$", r"GenericBuilder::<.*>::set_footer$", "C05.R5"), (r"PasetoBuilder::<'a, Version, Purpose>::set_implicit_assertion$", r"GenericBuilder::<.*>::set_implicit_assertion$", "C06.R4"),
        (r"PasetoParser::<'a, Version, Purpose>::set_footer$", r"GenericParser::<.*>::set_footer$", "C05.R5"), (r"PasetoParser::<'a, Version, Purpose>::set_implicit_assertion$", r"GenericParser::<.*>::set_implicit_assertion$", "C06.R4"),
    ]
    for pat, inner, rule in fw:
        bs = [b for bid, b in facts.bodies.items() if re.search(pat, bid)]
        if len(bs) != 1:
            _f(out, rule, False, pat, "setter missing", "expected one setter matching %s" % pat)
            continue
        b = bs[0]
        v = M.view(facts, b)
        cs = v.find_calls(inner)
        ok = len(cs) == 1 and v.op_term(cs[0][1]["args"][1]) == T("param", 2) and v.cfg.dominates(cs[0][0], v.cfg.return_blocks()[0])
        _f(out, rule, bool(ok), b["id"], "setter forwards its argument", "%s must forward its argument to the inner setter on every path" % M.short(b["id"]), b["line"], file=v.file(), desc="%s forwards its argument" % M.short(b["id"]))
        for r2 in ("C01.R7", "C02.R5"):
            _f(out, r2, bool(ok), b["id"], "setter forwards its argument", "%s must forward its argument" % M.short(b["id"]), b["line"], file=v.file(), desc="%s forwards its argument" % M.short(b["id"]))


def fmt_arguments(a):
    """(template constant, [display args]) of a core::fmt::Arguments::new(template, [Argument::new_display(x)..]) term"""
    if not (isinstance(a, T) and a.op == "call" and re.search(r"core::fmt::Arguments::<'_>::new::<|core::fmt::Arguments::<'a>::new", a.name + a.meta.get("tdef", ""))):
        return None
    tpl, arr = a.args[0], a.args[1]
    if tpl.op != "const" or arr.op != "agg":
        return None
    args = []
    for f in arr.args:
        x = f.args[0]
        if x.op == "call" and re.search(r"Argument::<'_>::new_display", x.name):
            args.append(x.args[0])
        else:
            return None
    return (tpl.name, args)


def _is_some_field(t, field):
    """(self.<field> as Some).0 - the value inside the builder's Option field"""
    return t.op == "field" and t.name == "0" and t.args[0].op == "variant" and t.args[0].name == "Some" and t.args[0].args[0] == T("field", field, (T("param", 1),))


def _carrier_rules(out, facts):
    """Footer / ImplicitAssertion / Payload carry the caller's string unchanged (constructors and byte views are identities)."""
    for ty, rule in (("footer::Footer<", "C05.R3"), ("implicit_assertion::ImplicitAssertion<", "C06.R5"), ("payload::Payload<", "C01.R7")):
        for trait, name, want in ((r"^core::convert::From<&'a str>$", "from", "ctor"), (r"^core::ops::deref::Deref$", "deref", "bytes"), (r"^core::convert::AsRef<str>$", "as_ref", "str")):
            bs = S.impl_fns(facts, r"^crate::core::" + re.escape(ty), trait, name)
            if len(bs) != 1:
                _f(out, rule, False, ty, "carrier fn missing: " + want, "expected one %s::%s for %s, found %d" % (trait, name, ty, len(bs)))
                continue
            b = bs[0]
            v = M.view(facts, b)
            N = M.Normalizer(facts, keep=[])
            rt = N.norm(v.return_term())
            if want == "ctor":
                ok = rt.op == "agg" and len(rt.args) == 1 and rt.args[0].args[0] == T("param", 1)
            else:
                ok = rt == T("field", "0", (T("param", 1),))
            _f(out, rule, ok, b["id"], "identity on content", "%s must pass the caller's string through unchanged; it returns %s" % (M.short(b["id"]), M.show(rt)[:120]), b["line"], file=v.file(),
               desc="%s is the identity on content" % M.short(b["id"]))
    # Footer::encode = URL_SAFE_NO_PAD.encode(whole footer)   (C05.R3)
    bs = [b for bid, b in facts.bodies.items() if re.search(r"traits::Base64Encodable::encode$", bid)]
    if len(bs) == 1:
        v = M.view(facts, bs[0])
        rt = M.Normalizer(facts, keep=[]).norm(v.return_term())
        ok = rt.op == "call" and re.search(r"Engine::encode$", rt.meta.get("tdef", "")) and rt.args[0].op == "const" and "URL_SAFE_NO_PAD" in str(rt.args[0].name) and rt.args[1] == T("param", 1)
        _f(out, "C05.R3", bool(ok), bs[0]["id"], "footer segment text", "Base64Encodable::encode must be URL_SAFE_NO_PAD.encode(self) over the whole value; found %s" % M.show(rt)[:120], bs[0]["line"], file=v.file(),
           desc="Base64Encodable::encode = URL_SAFE_NO_PAD.encode(self.as_ref())")
    else:
        _f(out, "C05.R3", False, "Base64Encodable::encode", "anchor missing", "expected the default method Base64Encodable::encode")


def _header_tables(out, facts):
    """C07.R3: version / purpose marker strings."""
    for name, lit in [("version::v1::V1", "v1"), ("version::v2::V2", "v2"), ("version::v3::V3", "v3"), ("version::v4::V4", "v4"), ("purpose::local::Local", "local"), ("purpose::public::Public", "public")]:
        N = M.Normalizer(facts, keep=[])
        for what, trait, fn in (("default", r"^core::default::Default$", "default"), ("as_ref", r"^core::convert::AsRef<str>$", "as_ref"), ("display", r"^core::fmt::Display$", "fmt")):
            bs = S.impl_fns(facts, r"^crate::core::" + re.escape(name) + "$", trait, fn)
            if len(bs) != 1:
                _f(out, "C07.R3", False, name, what + " missing", "expected one %s impl for %s, found %d" % (what, name, len(bs)))
                continue
            b = bs[0]
            v = M.view(facts, b)
            if what == "default":
                rt = N.norm(v.return_term())
                ok = rt.op == "agg" and rt.args[0].args[0] == T("const", lit)
                msg = "Default must construct the marker with the literal %r; found %s" % (lit, M.show(rt)[:80])
            elif what == "as_ref":
                rt = N.norm(v.return_term())
                ok = rt == T("field", "0", (T("param", 1),))
                msg = "AsRef<str> must return the stored string; found %s" % M.show(rt)[:80]
            else:
                # semantic: what the Display impl prints for a marker holding the string "X"
                from . import absint as A
                from . import models as MD
                I = A.Interp(facts, MD.MODELS)
                st0 = A.State()
                me = st0.new_cell(A.Struct("crate::core::" + name, None, {"0": A.StrV("X")}))
                fm = st0.new_cell(A.Sym("formatter"))
                outs = I.run(b, [A.Ptr(me), A.Ptr(fm)], st0)
                printed = [MD.displayed(I, o.state, o.state.events) for o in outs if o.kind == "return"]
                ok = bool(printed) and all(p == ["X"] for p in printed) and not any(o.state.unmodelled for o in outs)
                msg = "Display must print exactly the stored string; abstract evaluation prints %s" % (printed[:2],)
            _f(out, "C07.R3", bool(ok), b["id"], "%s string of %s" % (what, name.split("::")[-1]), msg, b["line"], file=v.file(), desc="%s %s = %r / field 0" % (name.split("::")[-1], what, lit))
