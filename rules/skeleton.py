"""Protocol skeletons: entry-point discovery and authentication structure shared by C01-C08, C10, C16."""
import re

from . import mir as M
from .mir import T

VERSIONS = ["V1", "V2", "V3", "V4"]
PURPOSES = ["Local", "Public"]
PROTOS = [(v, p) for v in VERSIONS for p in PURPOSES]

# crate-local functions kept symbolic (not inlined) when protocol terms are normalised: the inherent
# constructors of the protocol building blocks, the token splitter and the claim checker
KEEP = [r"header::<impl core::default::Default for crate::core::header::Header<", r"header::Header<.*> as core::default::Default>::default$", r"parse_raw_token$", r"format_token$",
        r"<impl crate::core::common::[a-z_]+::(Tag|AuthenticationKey|EncryptionKey|CipherText|RawPayload)<[^>]*>>::\w+$",
        r"PreAuthenticationEncoding::parse$", r"keys::<impl core::convert::From<&\[u8\]> for crate::core::key::keys::Key<KEYSIZE>>::from$",
        r"keys::Key::<KEYSIZE>::try_new_random$", r"verify_claims$", r"core::ops::arith::Add<", r"build_payload_from_claims$", r"verify_ready_to_build$",
        r"::(set_payload|set_footer|set_implicit_assertion|set_claim|remove_claim)$", r"paseto_impl::v\d_(local|public)::<impl .*>::(try_encrypt|try_decrypt|try_sign|try_verify)$",
        r"Generic(Builder|Parser)::<.*>::(try_encrypt|try_sign|parse)$"]


def impl_fns(facts, self_pat, trait_pat, name):
    """bodies of assoc fns selected by impl self type, implemented trait (None = inherent) and method name"""
    out = []
    for b in facts.bodies.values():
        if b["kind"] != "AssocFn" or b.get("name") != name:
            continue
        if not re.search(self_pat, b.get("impl_self", "")):
            continue
        tr = b.get("impl_trait")
        if trait_pat is None:
            if tr:
                continue
        elif not (tr and re.search(trait_pat, tr)):
            continue
        out.append(b)
    return out


def demut(t):
    """drop `mut(param k; ...)` wrappers: the parameter as an object, irrespective of what was called on it"""
    from .mir import T as _T
    if not isinstance(t, _T):
        return t
    if t.op == "mut" and t.args and t.args[0].op == "param":
        return t.args[0]
    if not t.args:
        return t
    return _T(t.op, t.name, [demut(a) for a in t.args], t.meta)

_VP = re.compile(r"crate::core::version::v\d::(V\d), crate::core::purpose::(?:local|public)::(Local|Public)>")


def vp_of(impl_self):
    m = _VP.search(impl_self or "")
    if not m:
        return None
    return (m.group(1), m.group(2))


class Entry:
    def __init__(self, layer, role, vp, body):
        self.layer = layer      # core / generic / prelude
        self.role = role        # consumer / producer
        self.vp = vp
        self.body = body
        self.id = body["id"]

    @property
    def label(self):
        return "%s %s %s.%s" % (self.layer, self.role, self.vp[0].lower(), self.vp[1].lower())


def entry_points(facts):
    """The 48 protocol entry points, discovered from impl self types (concrete V, P) and method names."""
    out = []
    for b in facts.bodies.values():
        if b["kind"] != "AssocFn":
            continue
        s = b.get("impl_self", "")
        if b.get("impl_trait"):
            continue
        vp = vp_of(s)
        if not vp:
            continue
        name = b["name"]
        if s.startswith("crate::core::paseto::Paseto<"):
            if name in ("try_decrypt", "try_verify"):
                out.append(Entry("core", "consumer", vp, b))
            elif name in ("try_encrypt", "try_sign"):
                out.append(Entry("core", "producer", vp, b))
        elif s.startswith("crate::generic::builders::generic_builder::GenericBuilder<"):
            if name in ("try_encrypt", "try_sign"):
                out.append(Entry("generic", "producer", vp, b))
        elif s.startswith("crate::generic::parsers::generic_parser::GenericParser<"):
            if name == "parse":
                out.append(Entry("generic", "consumer", vp, b))
        elif s.startswith("crate::prelude::paseto_builder::PasetoBuilder<"):
            if name == "build":
                out.append(Entry("prelude", "producer", vp, b))
        elif s.startswith("crate::prelude::paseto_parser::PasetoParser<"):
            if name == "parse":
                out.append(Entry("prelude", "consumer", vp, b))
    out.sort(key=lambda e: (e.layer, e.role, e.vp))
    return out


def select(entries, layer=None, role=None, purpose=None):
    return [e for e in entries if (layer is None or e.layer == layer) and (role is None or e.role == role) and (purpose is None or e.vp[1] == purpose)]


# ------------------------------------------------------------------ authentication primitives (frozen table, trusted)
# callee (trait-level definition path) -> (kind, description).  A success edge of `?` applied to one of these,
# or the equal edge of a bool switch on an equality built from a full-length comparison, is an authentication edge.
AUTH_PRIMS = [
    (r"^ring::deprecated_constant_time::verify_slices_are_equal$|^ring::constant_time::verify_slices_are_equal$", "cmp", "ring verify_slices_are_equal (length + content, constant time)"),
    (r"^aead::Aead::decrypt$", "aead", "AEAD decrypt (tag check inside)"),
    (r"^signature::verifier::Verifier::verify$", "sig", "signature::Verifier::verify"),
    (r"^signature::hazmat::PrehashVerifier::verify_prehash$", "sig", "PrehashVerifier::verify_prehash"),
    (r"^signature::verifier::DigestVerifier::verify_digest$", "sig", "signature::DigestVerifier::verify_digest"),
    (r"^ring::signature::UnparsedPublicKey::<B>::verify$", "sig", "ring UnparsedPublicKey::verify"),
    (r"^ed25519_dalek::verifying::VerifyingKey::verify_strict$", "sig", "ed25519 verify_strict"),
]
# Result-transparent wrappers around a checked call
RESULT_WRAPPERS = re.compile(r"core::result::Result::<T, E>::(map_err|or|or_else)$|core::convert::Into::into$|core::convert::From::from$|core::option::Option::<T>::(ok_or|ok_or_else)$")


def auth_prim(t):
    """If term t (after stripping Result wrappers) is a call to an authentication primitive return (kind, desc, callterm)."""
    guard = 0
    while isinstance(t, T) and t.op == "call" and RESULT_WRAPPERS.search(t.meta.get("tdef", "")) and t.args and guard < 6:
        t = t.args[0]
        guard += 1
    if isinstance(t, T) and t.op == "call":
        td = t.meta.get("tdef", "")
        for pat, kind, desc in AUTH_PRIMS:
            if re.search(pat, td):
                return kind, desc, t
    return None


def strip_result_wrappers(t):
    guard = 0
    while isinstance(t, T) and t.op == "call" and RESULT_WRAPPERS.search(t.meta.get("tdef", "")) and t.args and guard < 6:
        t = t.args[0]
        guard += 1
    return t


class AuthInfo:
    """Authentication structure of one function."""

    def __init__(self):
        self.edges = []        # list of (src_block, dst_block) success edges
        self.sites = []        # dicts: kind, desc, term (the primitive call term or delegated call), block, ln, via
        self.dropped = []      # primitive calls whose result is not checked by a recognised idiom


def ok_exits(v):
    """Blocks in which the return place receives an Ok value or a delegated Result (a call returning straight into _0)."""
    oks, errs, delegated = [], [], []
    for d in v.defs.get(0, []):
        if d[0] == "assign":
            rv = d[3]
            if rv["k"] == "aggregate" and rv["ak"] == "adt" and rv["adt"].endswith("result::Result"):
                (oks if rv["variant"] == "Ok" else errs).append(d[1])
            else:
                delegated.append((d[1], None))
        elif d[0] == "call":
            t = d[3]
            td = M.callee_trait_def(t["callee"])
            if re.search(r"core::ops::try_trait::FromResidual::from_residual$", td):
                errs.append(d[1])
            else:
                delegated.append((d[1], t))
    return oks, errs, delegated


_auth_memo = {}


def auth_info(facts, body, depth=3):
    """Find authentication success edges in `body`: `?` on a primitive, `?` on a call to a crate-local
    function that is itself authenticating (every Ok exit passes an auth edge), bool switches on full
    equality primitives."""
    key = (id(facts), body["id"])
    if key in _auth_memo:
        return _auth_memo[key]
    v = M.view(facts, body)
    info = AuthInfo()
    _auth_memo[key] = info  # recursion guard
    checked_calls = set()
    for s in M.try_sites(v):
        op = s["operand"]
        ap = auth_prim(op)
        if ap:
            kind, desc, ct = ap
            info.edges.append((s["switch_block"], s["cont"]))
            info.sites.append({"kind": kind, "desc": desc, "term": ct, "block": s["branch_block"], "ln": s["ln"], "via": "?", "try": s})
            checked_calls.add((ct.meta.get("body"), ct.meta.get("block")))
            continue
        inner = strip_result_wrappers(op)
        if isinstance(inner, T) and inner.op == "call" and inner.meta.get("local") and depth > 0:
            d = inner.meta.get("def")
            cb = facts.bodies.get(d)
            if cb is not None and is_authenticating(facts, cb, depth - 1):
                info.edges.append((s["switch_block"], s["cont"]))
                info.sites.append({"kind": "delegated", "desc": "`?` on authenticating fn " + M.short(d), "term": inner, "block": s["branch_block"], "ln": s["ln"], "via": "?", "callee": d, "try": s})
    # bool switches over equality primitives
    for sw in M.bool_switches(v):
        if sw["ty"] != "bool":
            continue
        eq = M.as_equality(sw["term"])
        if not eq:
            continue
        a, b, pos, kind = eq
        if kind.startswith("ring") or kind.startswith("subtle") or re.search(r"PartialEq <\[(u8|T)\]|PartialEq <\[u8; \d+\]|PartialEq <alloc::vec::Vec<u8>|PartialEq <str|PartialEq <&", kind):
            tr, fl = M.truth_edges(sw)
            info.edges.append((sw["block"], tr if pos else fl))
            info.sites.append({"kind": "cmp", "desc": kind + " via bool switch", "term": sw["term"], "block": sw["block"], "ln": sw["ln"], "via": "switch", "operands": (a, b)})
            for c in sw["term"].calls(r"verify_slices_are_equal"):
                checked_calls.add((c.meta.get("body"), c.meta.get("block")))
    # dropped results: primitive called but not checked
    for bi, t in v.calls:
        td = M.callee_trait_def(t["callee"])
        for pat, kind, desc in AUTH_PRIMS:
            if re.search(pat, td):
                if (v.id, bi) not in checked_calls:
                    # tolerate when the call's value flows into the function's result (a wrapper returning the verdict,
                    # e.g. `verify(..).is_ok()`): its callers are then checked where they branch on it
                    rt = v.return_term()
                    if any(c.meta.get("block") == bi and c.meta.get("body") == v.id for c in rt.calls()):
                        continue
                    info.dropped.append({"desc": desc, "block": bi, "ln": t["ln"], "callee": M.callee_name(t["callee"])})
    return info


def is_authenticating(facts, body, depth=2):
    """Every Ok / delegated exit of `body` is reachable only through one of its authentication edges."""
    v = M.view(facts, body)
    info = auth_info(facts, body, depth)
    oks, errs, delegated = ok_exits(v)
    targets = list(oks)
    for blk, t in delegated:
        if t is not None:
            td = M.callee_trait_def(t["callee"])
            ap = [1 for pat, _, _ in AUTH_PRIMS if re.search(pat, td)]
            if ap:
                continue  # returns the primitive's Result itself: Ok iff authentic
        targets.append(blk)
    if not targets:
        return False
    if not info.edges:
        return False
    return v.cfg.must_pass(targets, edges=info.edges)


def pae_sites(facts, body, norm=None):
    """Calls to PreAuthenticationEncoding::parse in `body` with the ordered component terms."""
    v = M.view(facts, body)
    out = []
    for bi, t in v.find_calls(r"pre_authentication_encoding::PreAuthenticationEncoding::parse$"):
        arr = v.op_term(t["args"][0])
        if norm:
            arr = norm.norm(arr)
        comps = None
        if arr.op == "agg" and arr.name == "(array)":
            comps = [f.args[0] for f in arr.args]
        out.append({"block": bi, "ln": t["ln"], "components": comps, "raw": arr})
    return out
