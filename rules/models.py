"""Models of external (std / dependency) callees for the abstract interpreter (frozen table, one line of
justification each).  A model returns a list of (state, kind, value) continuations - several when it forks."""
import re

from .absint import (Aff, Bits, BoolV, FnV, Ptr, Seq, State, StrV, Struct, Sym, SymBool, Top, UNIT, err, none, ok, some, LEN_MAX)
from . import mir as M

MODELS = []


def model(pat):
    def deco(f):
        MODELS.append((re.compile(pat), f))
        return f
    return deco


def ret(st, v):
    return [(st, "return", v)]


def deref(I, st, v):
    """follow pointers to the referent value"""
    v = I.resolve(st, v)
    guard = 0
    while isinstance(v, Ptr) and guard < 8:
        v = I.resolve(st, I.load(st, v))
        guard += 1
    return v


def content(I, st, v):
    """the string / byte content behind references and single-field carriers"""
    v = deref(I, st, v)
    return v


def length_of(I, st, v):
    v = deref(I, st, v)
    if isinstance(v, Seq):
        return v.length
    if isinstance(v, StrV):
        return Aff(len(v.s.encode() if isinstance(v.s, str) else v.s))
    if isinstance(v, Sym):
        k = (v.id, "len()")
        if k not in st.symfields:
            st.symfields[k] = Aff.sym("len(%s)" % v.name)
        return st.symfields[k]
    return None


def site(I, st, info, kind, ok_cond, need):
    """register a panic-capable site; ok_cond: True (discharged), False (fails), or SymBool (forked)"""
    key = (kind, info["fn"], M.short(info["tdef"]), info["ln"], info["file"])
    if ok_cond is True:
        I.site_ok(key)
        return [(st, True)]
    if ok_cond is False:
        I.site_fail(key, st, need)
        return [(st, False)]
    out = []
    sf = st.clone()
    if I.assume(sf, ok_cond, False):
        I.site_fail(key, sf, need)
        out.append((sf, False))
    else:
        I.site_ok(key)
    if I.assume(st, ok_cond, True):
        out.append((st, True))
    return out


def le_check(I, st, a, b):
    """a <= b as BoolV / SymBool"""
    return I.compare(st, "Le", a, b)


# ------------------------------------------------------------------ identities (content-preserving conversions)
IDENT = (r"^core::convert::AsRef::as_ref$|^core::ops::deref::Deref::deref$|^core::ops::deref::DerefMut::deref_mut$|^core::borrow::Borrow::borrow$|"
         r"^core::clone::Clone::clone$|^alloc::borrow::ToOwned::to_owned$|^alloc::string::ToString::to_string$|^alloc::slice::<impl \[T\]>::to_vec$|"
         r"^alloc::string::String::as_str$|^alloc::string::String::as_bytes$|^core::str::<impl str>::as_bytes$|^alloc::vec::Vec::<T, A>::as_slice$|"
         r"^core::hint::must_use$|^alloc::boxed::Box::<T>::new$|^core::convert::AsMut::as_mut$|^alloc::string::String::into_bytes$|^core::slice::<impl \[T\]>::iter$|"
         r"^core::iter::traits::collect::IntoIterator::into_iter$|^alloc::str::<impl str>::to_owned$|^core::array::<impl \[T; N\]>::as_slice$|^generic_array::GenericArray::<T, N>::as_slice$|"
         r"^core::str::<impl str>::to_string$|^alloc::string::String::from_utf8_unchecked$|"
         r"^alloc::vec::Vec::<T, A>::into_boxed_slice$|^alloc::slice::<impl \[T\]>::into_vec$|^alloc::string::String::into_boxed_str$|^alloc::str::<impl str>::into_string$|"
         r"^alloc::vec::Vec::<T, A>::as_mut_slice$|^alloc::vec::Vec::<T, A>::leak$")


@model(IDENT)
def m_ident(I, st, info, args, depth):
    # only for external impls (crate-local impls are interpreted from their MIR)
    if info["def"] in I.facts.bodies:
        return None
    v = args[0]
    td = info["tdef"]
    if re.search(r"<impl \[T\]>::iter$|IntoIterator::into_iter$", td):
        sv = deref(I, st, v)
        if isinstance(sv, Seq) and sv.elems is not None and not (isinstance(sv, Struct)):
            return ret(st, Struct("SliceIter", None, {"seq": sv, "pos": Aff(0)}))
    if td.endswith("ToString::to_string"):
        # x.to_string() of something that is not text itself: the text its Display prints (the same piece `format!("{}", x)` yields)
        sv = deref(I, st, v)
        if not isinstance(sv, (Seq, StrV)):
            shown = display_of(I, st, v, depth)
            if isinstance(shown, (Seq, StrV)):
                return ret(st, shown)
            n = st.facts.get("nfmt", 0)
            st.facts["nfmt"] = n + 1
            return ret(st, Seq("formatted#%d" % n, Aff.sym("len(fmt#%d)" % n), None, [("arg", shown)], kind="str"))
    if re.search(r"to_owned$|to_string$|to_vec$|Clone::clone$|Box::<T>::new$|into_bytes$|into_boxed_slice$|into_vec$|into_boxed_str$|into_string$", td):
        return ret(st, deref(I, st, v))
    return ret(st, v)


@model(r"^core::convert::Into::into$|^core::convert::From::from$")
def m_into(I, st, info, args, depth):
    if info["def"] in I.facts.bodies:
        return None
    v = args[0]
    name = info["name"]
    # T -> Option<T>
    m = re.search(r"core::convert::(?:Into|From)<(.*)>>::(?:into|from)$", name)
    tgt = info["gargs"][1] if re.search(r"Into::into$", info["tdef"]) and len(info["gargs"]) > 1 else (info["gargs"][0] if info["gargs"] else "")
    rv = I.resolve(st, v)
    if tgt.startswith("core::option::Option<"):
        if isinstance(rv, Struct) and rv.adt == "core::option::Option":
            return ret(st, rv)
        if isinstance(rv, Sym) and rv.attrs.get("adt") == "core::option::Option":
            return ret(st, rv)
        if isinstance(rv, Sym) and rv.attrs.get("into_option") is not None:
            return ret(st, rv.attrs["into_option"])
        return ret(st, some(rv))
    return ret(st, v)


# ------------------------------------------------------------------ Option / Result / Try
def as_enum(I, st, v, adt, info=None):
    """resolve v to a list of (state, Struct) alternatives for Option / Result typed values"""
    v = deref(I, st, v)
    if isinstance(v, Struct) and v.variant is not None:
        return [(st, v)]
    if isinstance(v, Sym):
        names = I.VARIANTS[adt]
        allowed = v.attrs.get("variants")
        out = []
        for n in names:
            if allowed is not None and n not in allowed:
                continue
            s2 = st.clone()
            mk = v.attrs.get("make_variant")
            val = mk(s2, v, n) if mk else Struct(adt, n, {} if n == "None" else {"0": Sym("%s.%s" % (v.name, n))})
            s2.refine[v.id] = val
            s2.cond.append("%s is %s" % (v.name, n))
            out.append((s2, val))
        return out
    # Top: both
    out = []
    for n in I.VARIANTS[adt]:
        s2 = st.clone()
        s2.cond.append("?%s" % n)
        s2.notes.append("undecided enum %r" % (v,))
        out.append((s2, Struct(adt, n, {} if n == "None" else {"0": Top("payload")})))
    return out


@model(r"^core::ops::try_trait::Try::branch$")
def m_branch(I, st, info, args, depth):
    adt = "core::result::Result" if "result::Result" in info["name"] else "core::option::Option"
    out = []
    for s2, v in as_enum(I, st, args[0], adt):
        if v.variant in ("Ok", "Some"):
            out.append((s2, "return", Struct("core::ops::control_flow::ControlFlow", "Continue", {"0": v.fields.get("0", UNIT)})))
        else:
            out.append((s2, "return", Struct("core::ops::control_flow::ControlFlow", "Break", {"0": v})))
    return out


@model(r"^core::ops::try_trait::FromResidual::from_residual$")
def m_residual(I, st, info, args, depth):
    v = deref(I, st, args[0])
    if isinstance(v, Struct) and v.variant == "Err":
        return ret(st, err(Struct("(converted)", None, {"source": v.fields.get("0")})))
    if isinstance(v, Struct) and v.variant == "None":
        return ret(st, none())
    return ret(st, err(Top("residual")))


def bool_forks(I, st, val, what="predicate"):
    """[(state, bool)] for a BoolV / SymBool / unknown truth value"""
    val = I.resolve(st, val)
    if isinstance(val, BoolV):
        return [(st, val.b)]
    if isinstance(val, SymBool):
        out = []
        s2 = st.clone()
        if I.assume(s2, val, True):
            out.append((s2, True))
        if I.assume(st, val, False):
            out.append((st, False))
        return out
    s2 = st.clone()
    s2.notes.append("undecided " + what)
    st.notes.append("undecided " + what)
    return [(s2, True), (st, False)]


def _calls(I, st, f, av, depth, wrap):
    """call the closure / fn value f on av; `wrap` turns its return value into the combinator's result"""
    out = []
    for s3, kind, val in I.call_value(st, f, av, depth):
        out.append((s3, kind, wrap(s3, val) if kind == "return" else val))
    return out


def _pred(I, st, f, av, depth, then):
    """call predicate f on av, fork on its truth value; then(state, bool) -> list of continuations"""
    out = []
    for s3, kind, val in I.call_value(st, f, av, depth):
        if kind != "return":
            out.append((s3, kind, val))
            continue
        for s4, t in bool_forks(I, s3, val):
            out += then(s4, t)
    return out


OPTION_OPS = ("unwrap_or_default|unwrap_or_else|unwrap_or|unwrap|expect|map_or_else|map_or|map|filter|ok_or_else|ok_or|is_some_and|is_none_or|is_some|is_none|take|replace|as_ref|as_mut|as_deref|as_deref_mut|"
              "copied|cloned|and_then|and|or_else|or|xor|zip|flatten|inspect|get_or_insert_with|get_or_insert|insert|unzip|transpose")


@model(r"^core::option::Option::<T>::(%s)$|^core::option::Option::<&T>::(copied|cloned)$|^core::option::Option::<core::option::Option<T>>::flatten$|^core::option::Option::<core::result::Result<T, E>>::transpose$" % OPTION_OPS)
def m_option(I, st, info, args, depth):
    op = info["tdef"].split("::")[-1]
    O = "core::option::Option"
    out = []
    if op in ("take", "replace", "insert", "get_or_insert", "get_or_insert_with"):
        ptr = I.resolve(st, args[0])
        cur = I.load(st, ptr) if isinstance(ptr, Ptr) else ptr
        res = []
        for s2, v in as_enum(I, st, cur, O):
            if op == "take":
                if isinstance(ptr, Ptr):
                    I.store_to(s2, ptr, none())
                s2.events.append(("Option::take", repr(ptr)))
                res.append((s2, "return", v))
            elif op == "replace":
                if isinstance(ptr, Ptr):
                    I.store_to(s2, ptr, some(args[1]))
                res.append((s2, "return", v))
            elif op == "insert":
                if isinstance(ptr, Ptr):
                    I.store_to(s2, ptr, some(args[1]))
                res.append((s2, "return", Ptr(ptr.cell, ptr.path + ("0",)) if isinstance(ptr, Ptr) else args[1]))
            elif op == "get_or_insert":
                if v.variant != "Some" and isinstance(ptr, Ptr):
                    I.store_to(s2, ptr, some(args[1]))
                res.append((s2, "return", Ptr(ptr.cell, ptr.path + ("0",)) if isinstance(ptr, Ptr) else (v.fields.get("0") if v.variant == "Some" else args[1])))
            else:
                if v.variant == "Some":
                    res.append((s2, "return", Ptr(ptr.cell, ptr.path + ("0",)) if isinstance(ptr, Ptr) else v.fields.get("0")))
                else:
                    for s3, kind, val in I.call_value(s2, args[1], [], depth):
                        if kind == "return" and isinstance(ptr, Ptr):
                            I.store_to(s3, ptr, some(val))
                            res.append((s3, "return", Ptr(ptr.cell, ptr.path + ("0",))))
                        else:
                            res.append((s3, kind, val))
        return res
    for s2, v in as_enum(I, st, args[0], O):
        is_some = v.variant == "Some"
        inner = v.fields.get("0")
        if op in ("copied", "cloned") and is_some and isinstance(I.resolve(s2, inner), Ptr):
            # Option<&T> -> Option<T>: the value the reference points to
            out.append((s2, "return", some(deref(I, s2, inner))))
        elif op in ("as_ref", "as_mut", "as_deref", "as_deref_mut", "copied", "cloned"):
            out.append((s2, "return", v))
        elif op == "is_some":
            out.append((s2, "return", BoolV(is_some)))
        elif op == "is_none":
            out.append((s2, "return", BoolV(not is_some)))
        elif op in ("is_some_and", "is_none_or"):
            if is_some:
                out += _calls(I, s2, args[1], [inner], depth, lambda s3, val: val)
            else:
                out.append((s2, "return", BoolV(op == "is_none_or")))
        elif op == "unwrap_or_default":
            out.append((s2, "return", inner if is_some else default_of(info["gargs"][0] if info["gargs"] else "")))
        elif op == "unwrap_or":
            out.append((s2, "return", inner if is_some else args[1]))
        elif op == "unwrap_or_else":
            if is_some:
                out.append((s2, "return", inner))
            else:
                out += _calls(I, s2, args[1], [], depth, lambda s3, val: val)
        elif op in ("unwrap", "expect"):
            for s3, okk in site(I, s2, info, "unwrap", True if is_some else False, "Option is Some"):
                if okk:
                    out.append((s3, "return", inner))
                else:
                    out.append((s3, "panic", ("unwrap", info["fn"], info["ln"])))
        elif op == "map":
            if is_some:
                out += _calls(I, s2, args[1], [inner], depth, lambda s3, val: some(val))
            else:
                out.append((s2, "return", none()))
        elif op == "inspect":
            if is_some:
                c = s2.new_cell(inner)
                out += _calls(I, s2, args[1], [Ptr(c, ())], depth, lambda s3, val: v)
            else:
                out.append((s2, "return", v))
        elif op == "map_or":
            if is_some:
                out += _calls(I, s2, args[2], [inner], depth, lambda s3, val: val)
            else:
                out.append((s2, "return", args[1]))
        elif op == "map_or_else":
            if is_some:
                out += _calls(I, s2, args[2], [inner], depth, lambda s3, val: val)
            else:
                out += _calls(I, s2, args[1], [], depth, lambda s3, val: val)
        elif op == "and_then":
            if is_some:
                out += _calls(I, s2, args[1], [inner], depth, lambda s3, val: val)
            else:
                out.append((s2, "return", none()))
        elif op == "and":
            out.append((s2, "return", args[1] if is_some else none()))
        elif op == "or":
            out.append((s2, "return", v if is_some else args[1]))
        elif op == "or_else":
            if is_some:
                out.append((s2, "return", v))
            else:
                out += _calls(I, s2, args[1], [], depth, lambda s3, val: val)
        elif op == "xor":
            for s3, w in as_enum(I, s2, args[1], O):
                ws = w.variant == "Some"
                out.append((s3, "return", v if (is_some and not ws) else (w if (ws and not is_some) else none())))
        elif op == "zip":
            if not is_some:
                out.append((s2, "return", none()))
            else:
                for s3, w in as_enum(I, s2, args[1], O):
                    out.append((s3, "return", some(Struct("(tuple)", None, {"0": inner, "1": w.fields.get("0")})) if w.variant == "Some" else none()))
        elif op == "flatten":
            if not is_some:
                out.append((s2, "return", none()))
            else:
                for s3, w in as_enum(I, s2, inner, O):
                    out.append((s3, "return", w))
        elif op == "transpose":
            if not is_some:
                out.append((s2, "return", ok(none())))
            else:
                for s3, w in as_enum(I, s2, inner, "core::result::Result"):
                    out.append((s3, "return", ok(some(w.fields.get("0"))) if w.variant == "Ok" else w))
        elif op == "filter":
            if is_some:
                c = s2.new_cell(inner)
                out += _pred(I, s2, args[1], [Ptr(c, ())], depth, lambda s4, t: [(s4, "return", v if t else none())])
            else:
                out.append((s2, "return", none()))
        elif op in ("ok_or_else", "ok_or"):
            if is_some:
                out.append((s2, "return", ok(inner)))
            elif op == "ok_or":
                out.append((s2, "return", err(args[1])))
            else:
                out += _calls(I, s2, args[1], [], depth, lambda s3, val: err(val))
        else:
            s2.unmodelled.append("Option::" + op)
            out.append((s2, "return", Top("Option::" + op)))
    return out


@model(r"^core::bool::<impl bool>::(then_some|then)$")
def m_bool_then(I, st, info, args, depth):
    op = info["tdef"].split("::")[-1]
    out = []
    for s2, t in bool_forks(I, st, args[0], "bool receiver"):
        if not t:
            out.append((s2, "return", none()))
        elif op == "then_some":
            out.append((s2, "return", some(args[1])))
        else:
            out += _calls(I, s2, args[1], [], depth, lambda s3, val: some(val))
    return out


def default_of(ty):
    if "Footer<" in ty or "ImplicitAssertion<" in ty or "Payload<" in ty:
        adt = re.sub(r"<.*$", "", ty)
        return Struct(adt, None, {"0": StrV("")})
    if ty.startswith("&str") or ty == "&str" or ty in ("alloc::string::String", "str"):
        return StrV("")
    if ty == "serde_json::value::Value":
        return Struct("serde_json::value::Value", "Null", {})     # impl Default for Value: Null
    if ty == "bool":
        return BoolV(False)
    if re.match(r"^[ui](8|16|32|64|128|size)$", ty):
        return Aff(0, ty=ty)
    if ty.startswith("core::option::Option<"):
        return none()
    if ty.startswith("alloc::vec::Vec<"):
        return Seq("vec", Aff(0), elems=[], kind="vec")
    return Sym("default::<%s>" % M.short(ty))


RESULT_OPS = ("map_err|unwrap_or_default|unwrap_or_else|unwrap_or|unwrap_err|expect_err|unwrap|expect|is_ok_and|is_err_and|is_ok|is_err|ok|err|map_or_else|map_or|map|and_then|and|or_else|or|as_ref|as_mut|as_deref|"
              "copied|cloned|inspect_err|inspect|flatten|transpose")


@model(r"^core::result::Result::<T, E>::(%s)$|^core::result::Result::<&T, E>::(copied|cloned)$" % RESULT_OPS)
def m_result(I, st, info, args, depth):
    op = info["tdef"].split("::")[-1]
    R = "core::result::Result"
    out = []
    for s2, v in as_enum(I, st, args[0], R):
        is_ok = v.variant == "Ok"
        inner = v.fields.get("0")
        if op in ("as_ref", "as_mut", "as_deref", "copied", "cloned"):
            out.append((s2, "return", v))
        elif op == "is_ok":
            out.append((s2, "return", BoolV(is_ok)))
        elif op == "is_err":
            out.append((s2, "return", BoolV(not is_ok)))
        elif op == "is_ok_and":
            if is_ok:
                out += _calls(I, s2, args[1], [inner], depth, lambda s3, val: val)
            else:
                out.append((s2, "return", BoolV(False)))
        elif op == "is_err_and":
            if not is_ok:
                out += _calls(I, s2, args[1], [inner], depth, lambda s3, val: val)
            else:
                out.append((s2, "return", BoolV(False)))
        elif op == "ok":
            out.append((s2, "return", some(inner) if is_ok else none()))
        elif op == "err":
            out.append((s2, "return", none() if is_ok else some(inner)))
        elif op in ("unwrap", "expect"):
            for s3, okk in site(I, s2, info, "unwrap", True if is_ok else False, "Result is Ok"):
                if okk:
                    out.append((s3, "return", inner))
                else:
                    out.append((s3, "panic", ("unwrap", info["fn"], info["ln"])))
        elif op in ("unwrap_err", "expect_err"):
            for s3, okk in site(I, s2, info, "unwrap", True if not is_ok else False, "Result is Err"):
                if okk:
                    out.append((s3, "return", inner))
                else:
                    out.append((s3, "panic", ("unwrap", info["fn"], info["ln"])))
        elif op == "map_err":
            if is_ok:
                out.append((s2, "return", v))
            else:
                out += _calls(I, s2, args[1], [inner], depth, lambda s3, val: err(val))
        elif op == "map":
            if is_ok:
                out += _calls(I, s2, args[1], [inner], depth, lambda s3, val: ok(val))
            else:
                out.append((s2, "return", v))
        elif op in ("inspect", "inspect_err"):
            if is_ok == (op == "inspect"):
                c = s2.new_cell(inner)
                out += _calls(I, s2, args[1], [Ptr(c, ())], depth, lambda s3, val: v)
            else:
                out.append((s2, "return", v))
        elif op == "map_or":
            if is_ok:
                out += _calls(I, s2, args[2], [inner], depth, lambda s3, val: val)
            else:
                out.append((s2, "return", args[1]))
        elif op == "map_or_else":
            if is_ok:
                out += _calls(I, s2, args[2], [inner], depth, lambda s3, val: val)
            else:
                out += _calls(I, s2, args[1], [inner], depth, lambda s3, val: val)
        elif op == "and_then":
            if is_ok:
                out += _calls(I, s2, args[1], [inner], depth, lambda s3, val: val)
            else:
                out.append((s2, "return", v))
        elif op == "and":
            out.append((s2, "return", args[1] if is_ok else v))
        elif op == "or":
            out.append((s2, "return", v if is_ok else args[1]))
        elif op == "or_else":
            if is_ok:
                out.append((s2, "return", v))
            else:
                out += _calls(I, s2, args[1], [inner], depth, lambda s3, val: val)
        elif op == "unwrap_or_default":
            out.append((s2, "return", inner if is_ok else default_of(info["gargs"][0] if info["gargs"] else "")))
        elif op == "unwrap_or":
            out.append((s2, "return", inner if is_ok else args[1]))
        elif op == "unwrap_or_else":
            if is_ok:
                out.append((s2, "return", inner))
            else:
                out += _calls(I, s2, args[1], [inner], depth, lambda s3, val: val)
        elif op == "flatten":
            if not is_ok:
                out.append((s2, "return", v))
            else:
                for s3, w in as_enum(I, s2, inner, R):
                    out.append((s3, "return", w))
        elif op == "transpose":
            if not is_ok:
                out.append((s2, "return", some(v)))
            else:
                for s3, w in as_enum(I, s2, inner, "core::option::Option"):
                    out.append((s3, "return", some(ok(w.fields.get("0"))) if w.variant == "Some" else none()))
        else:
            s2.unmodelled.append("Result::" + op)
            out.append((s2, "return", Top("Result::" + op)))
    return out


# ------------------------------------------------------------------ strings, slices, vectors
@model(r"^core::slice::<impl \[T\]>::len$|^alloc::vec::Vec::<T, A>::len$|^core::str::<impl str>::len$|^alloc::string::String::len$")
def m_len(I, st, info, args, depth):
    l = length_of(I, st, args[0])
    return ret(st, l if l is not None else Top("len"))


@model(r"^core::slice::<impl \[T\]>::is_empty$|^alloc::vec::Vec::<T, A>::is_empty$|^core::str::<impl str>::is_empty$|^alloc::string::String::is_empty$")
def m_is_empty(I, st, info, args, depth):
    l = length_of(I, st, args[0])
    if l is None:
        return ret(st, Top("is_empty"))
    return ret(st, I.compare(st, "Eq", l, Aff(0)))


@model(r"^alloc::vec::Vec::<T>::new$|^alloc::vec::Vec::<T>::with_capacity$|^alloc::string::String::new$")
def m_vec_new(I, st, info, args, depth):
    return ret(st, Seq("vec", Aff(0), elems=[], kind="vec"))


@model(r"^alloc::vec::from_elem$")
def m_from_elem(I, st, info, args, depth):
    n = I.resolve(st, args[1])
    if isinstance(n, Aff):
        return ret(st, Seq("vec0", n, None, kind="vec", attrs={"fill": args[0]}))
    return ret(st, Seq("vec0", Aff.sym("n"), None, kind="vec"))


@model(r"^alloc::vec::Vec::<T, A>::push$")
def m_push(I, st, info, args, depth):
    p = I.resolve(st, args[0])
    v = deref(I, st, p)
    if isinstance(p, Ptr) and isinstance(v, Seq) and v.elems is not None:
        I.store_to(st, p, Seq(v.name, v.length.add(Aff(1)), v.elems + [I.resolve(st, args[1])], None, v.attrs, v.kind))
    elif isinstance(p, Ptr):
        I.store_to(st, p, Seq("vec+", Aff.sym("n"), None, kind="vec"))
    return ret(st, UNIT)


def seq_chunks(I, st, v):
    """a sequence as a list of chunks: ('bytes', [elem vals]) or ('seq', name, length)"""
    v = deref(I, st, v)
    if isinstance(v, Seq):
        if v.chunks is not None:
            return list(v.chunks), v.length
        if v.elems is not None:
            return ([("elems", list(v.elems))] if v.elems else []), v.length
        return [("seq", v.name, v.length)], v.length
    if isinstance(v, StrV):
        b = v.s.encode() if isinstance(v.s, str) else v.s
        return [("lit", v.s)], Aff(len(b))
    if isinstance(v, Sym):
        l = length_of(I, st, v)
        return [("seq", v.name, l)], l
    return [("top", repr(v))], Aff.sym("len?")


@model(r"^core::iter::traits::collect::Extend::extend$|^alloc::vec::Vec::<T, A>::extend_from_slice$")
def m_extend(I, st, info, args, depth):
    p = I.resolve(st, args[0])
    if not isinstance(p, Ptr):
        return ret(st, UNIT)
    cur = deref(I, st, p)
    c1, l1 = seq_chunks(I, st, cur)
    c2, l2 = seq_chunks(I, st, args[1])
    I.store_to(st, p, Seq("vec", l1.add(l2), None, c1 + c2, kind="vec"))
    return ret(st, UNIT)


@model(r"^core::iter::traits::iterator::Iterator::next$")
def m_next(I, st, info, args, depth):
    if "core::ops::range::Range<" in info["name"] or "Range<A>" in info["def"]:
        p = I.resolve(st, args[0])
        r = deref(I, st, p)
        if isinstance(r, Struct) and isinstance(r.fields.get("start"), Aff) and isinstance(r.fields.get("end"), Aff):
            s_, e_ = r.fields["start"], r.fields["end"]
            c = I.compare(st, "Lt", s_, e_)
            if isinstance(c, BoolV):
                if c.b:
                    I.store_to(st, p, Struct(r.adt, r.variant, {"start": s_.add(Aff(1)), "end": e_}))
                    return ret(st, some(s_))
                return ret(st, none())
    p0 = I.resolve(st, args[0])
    it0 = deref(I, st, p0)
    if isinstance(it0, Struct) and it0.adt == "SliceIter":
        sq, pos = it0.fields["seq"], it0.fields["pos"]
        if pos.const < len(sq.elems):
            if isinstance(p0, Ptr):
                I.store_to(st, p0, Struct("SliceIter", None, {"seq": sq, "pos": Aff(pos.const + 1)}))
            return ret(st, some(Ptr(st.new_cell(sq.elems[pos.const]), ())))
        return ret(st, none())
    # generic iterator: may yield an opaque item or end
    s2 = st.clone()
    s2.cond.append("iterator yields an item")
    n = st.facts.get(("iter_items", info["ln"]), 0)
    s2.facts[("iter_items", info["ln"])] = n + 1
    item = Sym("item%d@%d" % (n, info["ln"]))
    if "HashMap" in info["name"] or "hash::map::Iter" in info["name"]:
        item = Struct("(tuple)", None, {"0": Sym("key%d@%d" % (n, info["ln"])), "1": Sym("val%d@%d" % (n, info["ln"]))})
    s2.events.append(("iter_item", "item%d@%d" % (n, info["ln"]), getattr(it0, "name", repr(it0))))
    st.cond.append("iterator ends")
    if n >= I.sym_loop_unroll:
        return [(st, "return", none())]
    return [(s2, "return", some(item)), (st, "return", none())]


@model(r"^core::iter::traits::iterator::Iterator::fold$")
def m_fold(I, st, info, args, depth):
    it = deref(I, st, args[0])
    acc = args[1]
    f = args[2]
    if isinstance(it, Struct) and it.adt == "SliceIter":
        sq = it.fields["seq"]
        it = Seq(sq.name, sq.length, sq.elems[it.fields["pos"].const:], kind=sq.kind)
    if isinstance(it, Seq) and it.elems is not None:
        states = [(st, acc)]
        for e in it.elems:
            c = None
            nxt = []
            for s2, a in states:
                cell = s2.new_cell(e)
                for s3, kind, val in I.call_value(s2, f, [a, Ptr(cell, ())], depth):
                    if kind != "return":
                        return [(s3, kind, val)]
                    nxt.append((s3, val))
            states = nxt
        return [(s2, "return", a) for s2, a in states]
    # symbolic number of elements: run the closure once on an arbitrary element (panic sites) and summarise
    el = Seq("piece", Aff.sym("len(piece)"), kind="bytes") if "&[u8]" in info["name"] else Sym("elem")
    s2 = st.clone()
    cell = s2.new_cell(el)
    for s3, kind, val in I.call_value(s2, f, [acc, Ptr(cell, ())], depth):
        if kind == "panic":
            return [(s3, kind, val)]
    st.notes.append("fold over a symbolic sequence summarised")
    return ret(st, Seq("folded", Aff.sym("len(folded@%d)" % info["ln"]), kind="vec"))


# ------------------------------------------------------------------ formatting
@model(r"^core::fmt::rt::Argument::<'_>::new_display$|^core::fmt::rt::Argument::<'_>::new_debug$")
def m_arg(I, st, info, args, depth):
    return ret(st, Struct("fmt::Argument", None, {"0": args[0]}))


@model(r"^core::fmt::Arguments::<'a>::new$|^core::fmt::Arguments::<'_>::new$|^core::fmt::Arguments::<'(a|_)>::(from_str|from_str_nonconst)$")
def m_arguments(I, st, info, args, depth):
    return ret(st, Struct("fmt::Arguments", None, {"template": args[0], "args": args[1] if len(args) > 1 else Seq("array", Aff(0), [], kind="array")}))


def display_of(I, st, v, depth):
    """what Display prints for the value: interpret crate-local Display impls that print one field; strings print themselves"""
    v = deref(I, st, v)
    if isinstance(v, Struct) and v.adt == "fmt::Argument":
        return display_of(I, st, v.fields["0"], depth)
    if isinstance(v, Struct) and len(v.fields) >= 1 and v.adt.startswith("crate::"):
        # crate-local carrier types print their single string field (checked structurally by C05.R3 / C07.R3)
        for k in ("header", "0"):
            if k in v.fields:
                return display_of(I, st, v.fields[k], depth)
    return v


@model(r"^alloc::fmt::format$")
def m_format(I, st, info, args, depth):
    a = deref(I, st, args[0])
    if not (isinstance(a, Struct) and a.adt == "fmt::Arguments"):
        return ret(st, Seq("formatted", Aff.sym("len(fmt@%d)" % info["ln"]), kind="str"))
    tpl = deref(I, st, a.fields["template"])
    arr = deref(I, st, a.fields["args"])
    raw = None
    if isinstance(tpl, Seq) and tpl.elems is not None and all(isinstance(x, Aff) and x.is_const() for x in tpl.elems):
        raw = bytes(x.const for x in tpl.elems)
    elif isinstance(tpl, StrV):
        raw = tpl.s.encode("latin-1") if isinstance(tpl.s, str) else tpl.s
    vals = arr.elems if isinstance(arr, Seq) and arr.elems is not None else None
    if raw is None or vals is None:
        return ret(st, Seq("formatted", Aff.sym("len(fmt@%d)" % info["ln"]), kind="str"))
    chunks = []
    i = 0
    ai = 0
    okk = True
    while i < len(raw):
        b = raw[i]
        if b == 0:
            break
        if b == 0xC0:
            if ai < len(vals):
                chunks.append(("arg", display_of(I, st, vals[ai], depth)))
            ai += 1
            i += 1
        elif b < 0x80:
            chunks.append(("lit", raw[i + 1:i + 1 + b].decode("utf-8", "replace")))
            i += 1 + b
        else:
            okk = False
            break
    n = st.facts.get("nfmt", 0)
    st.facts["nfmt"] = n + 1
    if not okk:
        return ret(st, Seq("formatted#%d" % n, Aff.sym("len(fmt#%d)" % n), kind="str"))
    return ret(st, Seq("formatted#%d" % n, Aff.sym("len(fmt#%d)" % n), None, chunks, kind="str"))


@model(r"^base64::engine::Engine::encode$")
def m_b64enc(I, st, info, args, depth):
    src = deref(I, st, args[1])
    eng = deref(I, st, args[0])
    return ret(st, Seq("b64", Aff.sym("len(b64@%d)" % info["ln"]), kind="str", attrs={"b64_of": src, "engine": repr(eng)}))


# ------------------------------------------------------------------ equality on strings
def describe(I, st, v, depth=0):
    """canonical text of a string-like abstract value (used to state which two things were compared equal)"""
    v = deref(I, st, v)
    if depth > 6:
        return "..."
    if isinstance(v, StrV):
        return repr(v.s) if not isinstance(v.s, bytes) else repr(v.s)
    if isinstance(v, Seq):
        if "segs" in v.attrs and v.attrs["segs"][2] is None:
            # "segment i up to the end" is segment i once the segment count is known to be i + 1
            p_, i_, _j = v.attrs["segs"]
            lo_, hi_ = st.bounds.get("len(%s)" % p_, (1, LEN_MAX))
            if hi_ == i_ + 1:
                return "%s[%d]" % (p_, i_)
        if "b64_of" in v.attrs:
            eng = v.attrs.get("engine", "")
            return "b64%s(%s)" % ("" if "URL_SAFE_NO_PAD" in eng else "[%s]" % eng, describe(I, st, v.attrs["b64_of"], depth + 1))
        if v.chunks is not None:
            out = []
            for c in v.chunks:
                if c[0] == "lit":
                    out.append(c[1])
                elif c[0] == "arg":
                    inner = deref(I, st, c[1])
                    if isinstance(inner, Seq) and inner.chunks is not None:
                        out.append(describe(I, st, c[1], depth + 1))      # a piece that is itself pieced together: the same text
                    else:
                        out.append("{%s}" % describe(I, st, c[1], depth + 1))
                else:
                    out.append("{%s}" % (c[1],))
            return "".join(out)
        f = st.facts.get(("streq", v.name))
        return repr(f) if f is not None else v.name
    if isinstance(v, Struct) and len(v.fields) >= 1:
        for k in ("0", "header"):
            if k in v.fields:
                return describe(I, st, v.fields[k], depth + 1)
    if isinstance(v, Sym):
        return v.name
    return repr(v)


def str_key(I, st, v):
    v = deref(I, st, v)
    if isinstance(v, StrV):
        return ("const", v.s)
    if isinstance(v, Seq):
        f = st.facts.get(("streq", v.name))
        if f is not None:
            return ("const", f)
        return ("sym", v.name)
    if isinstance(v, Sym):
        f = st.facts.get(("streq", v.name))
        if f is not None:
            return ("const", f)
        return ("sym", v.name)
    return ("top", repr(v))


def str_eq(I, st, a, b):
    """list of (state, bool); the equal branch records which two values were found equal"""
    da, db = describe(I, st, a), describe(I, st, b)
    out = _str_eq(I, st, a, b)
    for s2, r in out:
        s2.events.append(("equal" if r else "notequal", da, db))
    return out


def _str_eq(I, st, a, b):
    ka, kb = str_key(I, st, a), str_key(I, st, b)
    if ka[0] == "const" and kb[0] == "const":
        return [(st, ka[1] == kb[1])]
    if ka == kb and ka[0] == "sym":
        return [(st, True)]
    for x, k in ((a, kb), (b, ka)):
        # a text pieced together that is longer than the constant it is compared with differs from it
        xv = deref(I, st, x)
        if k[0] == "const" and isinstance(xv, Seq) and xv.chunks is not None and isinstance(k[1], (str, bytes)):
            mn = 0
            for c in xv.chunks:
                if c[0] == "lit":
                    mn += len(c[1])
                elif c[0] == "arg":
                    iv = deref(I, st, c[1])
                    if isinstance(iv, Seq) and isinstance(iv.length, Aff):
                        mn += max(0, st.range_of(iv.length)[0])
            if mn > len(k[1]):
                return [(st, False)]
    if ka[0] == "sym" and kb[0] == "const" or ka[0] == "const" and kb[0] == "sym":
        sym = ka[1] if ka[0] == "sym" else kb[1]
        c = kb[1] if ka[0] == "sym" else ka[1]
        ne = st.facts.get(("strne", sym), frozenset())
        if c in ne:
            return [(st, False)]
        allowed = st.facts.get(("strin", sym))
        out = []
        if allowed is None or c in allowed:
            s2 = st.clone()
            s2.facts[("streq", sym)] = c
            s2.cond.append("%s == %r" % (sym, c))
            out.append((s2, True))
        st.facts[("strne", sym)] = ne | {c}
        st.cond.append("%s != %r" % (sym, c))
        out.append((st, False))
        return out
    s2 = st.clone()
    s2.cond.append("%s == %s" % (ka[1], kb[1]))
    st.cond.append("%s != %s" % (ka[1], kb[1]))
    return [(s2, True), (st, False)]


@model(r"^core::cmp::PartialEq::(eq|ne)$")
def m_eq(I, st, info, args, depth):
    if info["def"] in I.facts.bodies:
        return None
    nm = info["name"]
    neg = info["tdef"].endswith("ne")
    if re.search(r"<str as|<&str as|String as|impl core::cmp::PartialEq<&B> for &A|PartialEq<str>|PartialEq<&'a str>|PartialEq<alloc::string::String>|<&A as core::cmp::PartialEq<&B>>|PartialEq for str>|PartialEq<.*> for (str|alloc::string::String|&'a str)>|PartialEq for &?\\[u8\\]>|PartialEq<\\[U\\]> for \\[T\\]>|PartialEq<alloc::vec::Vec<U, A2>> for alloc::vec::Vec<T, A1>>", nm + " " + info["def"]):
        return [(s2, "return", BoolV(r != neg)) for s2, r in str_eq(I, st, args[0], args[1])]
    a, b = deref(I, st, args[0]), deref(I, st, args[1])
    if isinstance(a, Aff) and isinstance(b, Aff):
        return ret(st, I.binop(st, "Ne" if neg else "Eq", a, b))
    if all(isinstance(x, Struct) and x.adt == "(tuple)" for x in (a, b)) and set(a.fields) == set(b.fields) and a.fields:
        # tuples compare member by member, left to right; `eq` stops at the first unequal pair
        outs = []
        cur = [st]
        decided = True
        for k in sorted(a.fields, key=lambda z: int(z) if z.isdigit() else 0):
            nxt = []
            for s_ in cur:
                xa, xb = deref(I, s_, a.fields[k]), deref(I, s_, b.fields[k])
                if all(isinstance(x, StrV) or isinstance(x, Seq) and x.kind == "str" for x in (xa, xb)):
                    for s2, r in str_eq(I, s_, a.fields[k], b.fields[k]):
                        (nxt if r else outs).append(s2) if r else outs.append(s2)
                elif isinstance(xa, Aff) and isinstance(xb, Aff):
                    for s2, r in fork_bool(I, s_, I.compare(s_, "Eq", xa, xb)):
                        nxt.append(s2) if r else outs.append(s2)
                else:
                    decided = False
            cur = nxt
        if decided:
            return [(s2, "return", BoolV(neg)) for s2 in outs] + [(s2, "return", BoolV(not neg)) for s2 in cur]
    if all(isinstance(x, Struct) and x.adt == "core::option::Option" and x.variant in ("Some", "None") for x in (a, b)):
        # Option<text> == Option<text>: the same variant, and equal contents
        if a.variant != b.variant:
            return ret(st, BoolV(neg))
        if a.variant == "None":
            return ret(st, BoolV(not neg))
        pa, pb = deref(I, st, a.fields["0"]), deref(I, st, b.fields["0"])
        if all(isinstance(x, StrV) or isinstance(x, Seq) and x.kind == "str" for x in (pa, pb)):
            return [(s2, "return", BoolV(r != neg)) for s2, r in str_eq(I, st, a.fields["0"], b.fields["0"])]
    return ret(st, SymBool(("ne" if neg else "eq", repr(a), repr(b))))


@model(r"^core::slice::<impl \[T\]>::contains$")
def m_contains(I, st, info, args, depth):
    arr = deref(I, st, args[0])
    key = args[1]
    kv = deref(I, st, key)
    if isinstance(arr, Seq) and arr.elems is not None and isinstance(kv, Aff) and all(isinstance(I.resolve(st, e), Aff) for e in arr.elems):
        # numbers: equal to one of the listed values, or different from all of them
        out = []
        cur = st
        for e in arr.elems:
            nxt = None
            for s2, t in fork_bool(I, cur, I.compare(cur, "Eq", kv, I.resolve(cur, e))):
                if t:
                    out.append((s2, "return", BoolV(True)))
                else:
                    nxt = s2
            if nxt is None:
                return out
            cur = nxt
        out.append((cur, "return", BoolV(False)))
        return out
    if isinstance(arr, Seq) and arr.elems is not None:
        out = []
        cur = st
        for e in arr.elems:
            res = str_eq(I, cur, key, e)
            nxt = None
            for s2, r in res:
                if r:
                    out.append((s2, "return", BoolV(True)))
                else:
                    nxt = s2
            if nxt is None:
                return out
            cur = nxt
        out.append((cur, "return", BoolV(False)))
        return out
    return ret(st, SymBool(("contains", repr(arr), repr(key))))


# ------------------------------------------------------------------ collections (events)
@model(r"^std::collections::hash::set::HashSet::<T, S, A>::insert$")
def m_hs_insert(I, st, info, args, depth):
    k = str_key(I, st, args[1])
    target = repr(I.resolve(st, args[0]))
    s2 = st.clone()
    s2.events.append(("HashSet::insert", k, "new"))
    s2.cond.append("insert(%s) -> true" % (k[1],))
    st.events.append(("HashSet::insert", k, "dup"))
    st.cond.append("insert(%s) -> false" % (k[1],))
    return [(s2, "return", BoolV(True)), (st, "return", BoolV(False))]


@model(r"^std::collections::hash::(map::HashMap|set::HashSet)::<.*>::(insert|remove|clear|extend|drain|retain|entry|get_mut|remove_entry|take)$|^core::mem::(take|replace|swap)$")
def m_coll_event(I, st, info, args, depth):
    st.events.append((M.short(info["tdef"]), [str_key(I, st, a) if i > 0 else repr(I.resolve(st, a)) for i, a in enumerate(args)]))
    return ret(st, Top(M.short(info["tdef"])))


@model(r"^std::collections::hash::(map::HashMap|set::HashSet)::<.*>::(new|with_capacity)$|^<std::collections::hash::map::HashMap<K, V, S> as core::default::Default>::default$")
def m_coll_new(I, st, info, args, depth):
    return ret(st, Sym("empty " + ("map" if "HashMap" in info["name"] else "set")))


# ------------------------------------------------------------------ JSON partition (C11 / C12)
JSON_CLASSES = frozenset(["Null", "Bool", "Number", "Array", "Object", "String:empty", "String:rfc3339", "String:other"])


def json_sym(name="value"):
    return Sym(name, "serde_json::value::Value", classes=JSON_CLASSES, attrs={"adt": "serde_json::value::Value"})


def json_classes(I, st, v):
    v = deref(I, st, v)
    if isinstance(v, Sym) and v.classes is not None:
        return v, st.facts.get(("cls", v.name), v.classes)
    return v, None


def fork_classes(I, st, v, pred):
    """split on pred(class): returns [(state, True/False)]"""
    sym, cls = json_classes(I, st, v)
    if cls is None and isinstance(sym, Struct) and sym.adt == "serde_json::value::Value" and sym.variant is not None:
        # a concrete JSON value (Value::Null, Value::String(..), ..): its own class
        vc = {"Null": "Null", "Bool": "Bool", "Number": "Number", "Array": "Array", "Object": "Object", "String": "String:other"}.get(sym.variant)
        if vc is not None:
            return [(st, bool(pred(vc)))]
    if cls is None:
        s2 = st.clone()
        s2.notes.append("JSON value of unknown shape")
        return [(s2, True), (st, False)]
    yes = frozenset(c for c in cls if pred(c))
    no = cls - yes
    out = []
    if yes:
        s2 = st.clone() if no else st
        s2.facts[("cls", sym.name)] = yes
        out.append((s2, True))
    if no:
        st.facts[("cls", sym.name)] = no
        out.append((st, False))
    return out


@model(r"^serde_json::value::Value::is_null$")
def m_is_null(I, st, info, args, depth):
    return [(s2, "return", BoolV(r)) for s2, r in fork_classes(I, st, args[0], lambda c: c == "Null")]


@model(r"^serde_json::value::Value::is_string$")
def m_is_string(I, st, info, args, depth):
    return [(s2, "return", BoolV(r)) for s2, r in fork_classes(I, st, args[0], lambda c: c.startswith("String"))]


@model(r"^serde_json::value::Value::as_str$")
def m_as_str(I, st, info, args, depth):
    out = []
    sym, _ = json_classes(I, st, args[0])
    for s2, r in fork_classes(I, st, args[0], lambda c: c.startswith("String")):
        if r:
            out.append((s2, "return", some(Seq("str(%s)" % getattr(sym, "name", "?"), Aff.sym("len(str(%s))" % getattr(sym, "name", "?")), kind="str", attrs={"json": getattr(sym, "name", "?")}))))
        else:
            out.append((s2, "return", none()))
    return out


def str_classes(I, st, v):
    """for a &str obtained from Value::as_str: the remaining String:* classes"""
    v = deref(I, st, v)
    if isinstance(v, Seq) and "json" in v.attrs:
        cls = st.facts.get(("cls", v.attrs["json"]), JSON_CLASSES)
        return v, v.attrs["json"], frozenset(c for c in cls if c.startswith("String"))
    if isinstance(v, StrV):
        return v, None, None
    return v, None, None


@model(r"^core::str::<impl str>::is_empty$")
def m_str_is_empty(I, st, info, args, depth):
    v, name, cls = str_classes(I, st, args[0])
    if isinstance(v, StrV):
        return ret(st, BoolV(len(v.s) == 0))
    if cls is None:
        return m_is_empty(I, st, info, args, depth)
    out = []
    yes = frozenset(c for c in cls if c == "String:empty")
    no = cls - yes
    if yes:
        s2 = st.clone() if no else st
        s2.facts[("cls", name)] = yes
        out.append((s2, "return", BoolV(True)))
    if no:
        st.facts[("cls", name)] = no
        out.append((st, "return", BoolV(False)))
    return out


@model(r"^time::offset_date_time::OffsetDateTime::parse$")
def m_time_parse(I, st, info, args, depth):
    v, name, cls = str_classes(I, st, args[0])
    fmt = info["gargs"]
    wk = "Rfc3339" in " ".join(fmt) or "Rfc3339" in info["name"]
    if cls is None or not wk:
        s2 = st.clone()
        s2.cond.append("parse ok")
        st.cond.append("parse fails")
        return [(s2, "return", ok(Sym("instant(%s)" % getattr(v, "name", "?"), "time::OffsetDateTime", attrs={"instant": True, "of": getattr(v, "name", "?")}))), (st, "return", err(Sym("time::error::Parse")))]
    out = []
    yes = frozenset(c for c in cls if c == "String:rfc3339")
    no = cls - yes
    if yes:
        s2 = st.clone() if no else st
        s2.facts[("cls", name)] = yes
        out.append((s2, "return", ok(Sym("instant(%s)" % name, "time::OffsetDateTime", attrs={"instant": True, "of": name}))))
    if no:
        st.facts[("cls", name)] = no
        out.append((st, "return", err(Sym("time::error::Parse"))))
    return out


@model(r"^time::offset_date_time::OffsetDateTime::now_utc$")
def m_now(I, st, info, args, depth):
    n = st.facts.get("now_calls", 0)
    st.facts["now_calls"] = n + 1
    return ret(st, Sym("now", "time::OffsetDateTime", attrs={"instant": True, "now": True}))


def _ordering(rel, partial):
    v = Struct("core::cmp::Ordering", {"<": "Less", "=": "Equal", ">": "Greater"}[rel], {})
    return some(v) if partial else v


@model(r"^core::cmp::PartialOrd::(le|lt|ge|gt|partial_cmp)$|^core::cmp::Ord::cmp$")
def m_ord(I, st, info, args, depth):
    a, b = deref(I, st, args[0]), deref(I, st, args[1])
    op = info["tdef"].split("::")[-1]
    if isinstance(a, Aff) and isinstance(b, Aff) and op in ("cmp", "partial_cmp"):
        out = []
        for s2, lt in fork_bool(I, st, I.compare(st, "Lt", a, b)):
            if lt:
                out.append((s2, "return", _ordering("<", op == "partial_cmp")))
                continue
            for s3, eq in fork_bool(I, s2, I.compare(s2, "Eq", a, b)):
                out.append((s3, "return", _ordering("=" if eq else ">", op == "partial_cmp")))
        return out
    if isinstance(a, Aff) and isinstance(b, Aff):
        return ret(st, I.compare(st, {"le": "Le", "lt": "Lt", "ge": "Ge", "gt": "Gt"}[op], a, b))
    shifted = [x for x in (a, b) if isinstance(x, Sym) and abs(x.attrs.get("offset_secs") or 0) > 2]
    if isinstance(a, Sym) and isinstance(b, Sym) and a.attrs.get("instant") and b.attrs.get("instant") and not shifted:
        # three-way order between two instants; one of them must be `now` for the partition to be meaningful
        # (an instant moved by more than the 2 s the properties allow for clock granularity is not `now` any more: undecided below)
        if a.attrs.get("now") and not b.attrs.get("now"):
            x, y, flip = b, a, True
        else:
            x, y, flip = a, b, False
        key = ("order", x.name, y.name)
        out = []
        known = st.facts.get(key)
        for rel in (["<", "=", ">"] if known is None else [known]):
            s2 = st.clone() if known is None else st
            s2.facts[key] = rel
            if known is None:
                s2.cond.append("%s %s %s" % (x.name, rel, y.name))
            # truth of (a op b)
            r = rel if not flip else {"<": ">", "=": "=", ">": "<"}[rel]
            if op in ("cmp", "partial_cmp"):
                out.append((s2, "return", _ordering(r, op == "partial_cmp")))
                continue
            truth = {"le": r in "<=", "lt": r == "<", "ge": r in ">=", "gt": r == ">"}[op]
            out.append((s2, "return", BoolV(truth)))
        return out
    st.notes.append("ordering of non-instants: %r %s %r" % (a, op, b))
    return ret(st, SymBool((op, repr(a), repr(b))))


@model(r"^time::(signed_duration::SignedDuration|duration::Duration)::(weeks|days|hours|minutes|seconds|milliseconds)$")
def m_duration(I, st, info, args, depth):
    """a constant span of time, in seconds"""
    unit = info["tdef"].split("::")[-1]
    n = I.resolve(st, args[0])
    mult = {"weeks": 604800, "days": 86400, "hours": 3600, "minutes": 60, "seconds": 1}.get(unit)
    if isinstance(n, Aff) and n.is_const() and mult:
        return ret(st, Struct("time::Duration", None, {"secs": Aff(n.const * mult)}))
    return ret(st, Sym("duration(%s %s)" % (unit, n if isinstance(n, Aff) else "?"), "time::Duration"))


@model(r"^time::offset_date_time::OffsetDateTime::format$")
def m_time_format(I, st, info, args, depth):
    """instant.format(&Rfc3339): the rendering of that instant (fails only outside the representable range)"""
    a = deref(I, st, args[0])
    nm = getattr(a, "name", "?")
    wk = "Rfc3339" if "Rfc3339" in " ".join(info.get("gargs") or []) + info["name"] else "?"
    s2 = st.clone()
    s2.cond.append("format(%s) ok" % nm)
    st.cond.append("format(%s) fails" % nm)
    txt = Seq("%s(%s)" % (wk.lower(), nm), Aff.sym("len(%s(%s))" % (wk.lower(), nm)), kind="str", attrs={"rendered": nm, "format": wk, "ascii": True})
    return [(s2, "return", ok(txt)), (st, "return", err(Sym("time::error::Format")))]


@model(r"^time::offset_date_time::OffsetDateTime::(replace_offset|to_offset|date|time|replace_|unix_timestamp|replace_time|replace_date|checked_add|checked_sub|saturating)|^<time::offset_date_time::OffsetDateTime as core::ops::arith::(Add|Sub)")
def m_time_transform(I, st, info, args, depth):
    a = deref(I, st, args[0])
    op = info["tdef"].split("::")[-1]
    # to_offset and + / - of a duration panic when the result leaves the supported range (years -9999..=9999); an instant read from
    # the clock is assumed to be far from those ends, an instant parsed from token content (or of unknown origin) is not
    rkey = ("time range", info["fn"], M.short(info["tdef"]), info["ln"], info["file"])
    if op in ("to_offset", "add", "sub") and isinstance(a, Sym) and a.attrs.get("now"):
        I.site_ok(rkey)
    elif op in ("to_offset", "add", "sub"):
        s2 = st.clone()
        s2.cond.append("%s(%s) leaves the supported range of OffsetDateTime" % (op, getattr(a, "name", "?")))
        I.site_fail(rkey, s2, "the instant is a clock reading (not taken from token content), so that the result stays within years -9999..=9999")
        out = [(s2, "panic", ("OffsetDateTime::" + op, info["fn"], info["ln"]))]
        if op == "to_offset" and isinstance(a, Sym):
            return out + ret(st, a)
        nm = getattr(a, "name", "?")
        return out + ret(st, Sym("%s(%s)" % (op, nm), "time::?", attrs={"derived_from": nm, "transform": op}))
    if op == "to_offset" and isinstance(a, Sym):
        return ret(st, a)   # same instant, other rendering
    nm = getattr(a, "name", "?")
    at = {"derived_from": nm, "transform": op}
    if isinstance(a, Sym) and a.attrs.get("now"):
        at["now"] = True    # a fixed distance from the clock reading
    d = deref(I, st, args[1]) if len(args) > 1 else None
    if op in ("add", "sub") and isinstance(a, Sym) and isinstance(d, Struct) and d.adt == "time::Duration" and isinstance(d.fields.get("secs"), Aff):
        secs = d.fields["secs"].const * (1 if op == "add" else -1) + (a.attrs.get("offset_secs") or 0)
        base = a.attrs.get("base", nm)
        at.update({"instant": True, "offset_secs": secs, "base": base})
        return ret(st, Sym("%s%+ds" % (base, secs) if secs else base, "time::OffsetDateTime", attrs=at))
    return ret(st, Sym("%s(%s)" % (op, nm), "time::?", attrs=at))


@model(r"^time::offset_date_time::OffsetDateTime::checked_to_offset$")
def m_time_checked_to_offset(I, st, info, args, depth):
    """the same instant in another offset, or None when its rendering there leaves the supported range (a clock reading never does)"""
    a = deref(I, st, args[0])
    if not isinstance(a, Sym):
        return None
    if a.attrs.get("now"):
        return ret(st, some(a))
    s2 = st.clone()
    s2.cond.append("checked_to_offset(%s) leaves the supported range of OffsetDateTime" % a.name)
    return [(st, "return", some(a)), (s2, "return", none())]


# ------------------------------------------------------------------ generic trait methods of the crate
@model(r"^crate::generic::claims::traits::PasetoClaim::get_key$")
def m_get_key(I, st, info, args, depth):
    if info["def"] != "crate::generic::claims::traits::PasetoClaim::get_key":
        return None   # resolved to a concrete impl: interpret it
    recv = I.resolve(st, args[0])
    base = deref(I, st, recv)
    if isinstance(base, Sym) and base.attrs.get("claim_key") is not None:
        return ret(st, StrV(base.attrs["claim_key"]))
    nm = getattr(base, "name", repr(base))
    return ret(st, Seq("key(%s)" % nm, Aff.sym("len(key(%s))" % nm), kind="str"))


@model(r"^iso8601::(datetime::)?datetime$")
def m_iso8601(I, st, info, args, depth):
    v = deref(I, st, args[0])
    nm = getattr(v, "name", repr(v))
    s2 = st.clone()
    s2.facts[("iso8601", nm)] = True
    s2.cond.append("iso8601::datetime(%s) is Ok" % nm)
    st.facts[("iso8601", nm)] = False
    st.cond.append("iso8601::datetime(%s) is Err" % nm)
    return [(s2, "return", ok(Sym("DateTime(%s)" % nm))), (st, "return", err(Sym("iso8601 error")))]


# ------------------------------------------------------------------ serde_json plumbing of GenericBuilder::set_claim (C14.R3)
@model(r"^serde_json::ser::Serializer::<W>::new$")
def m_ser_new(I, st, info, args, depth):
    return ret(st, Struct("serde_json::Serializer", None, {"writer": args[0]}))


@model(r"^erased_serde::ser::serialize$")
def m_erased_serialize(I, st, info, args, depth):
    # writes the JSON text of args[0] into the serializer's writer: remember what was serialised
    ser = deref(I, st, args[1])
    src = deref(I, st, args[0])
    st.events.append(("serialize", getattr(src, "name", repr(src))))
    if isinstance(ser, Struct) and isinstance(ser.fields.get("writer"), Ptr):
        I.store_to(st, ser.fields["writer"], Seq("json_text(%s)" % getattr(src, "name", "?"), Aff.sym("len(json_text)"), kind="vec", attrs={"json_of": getattr(src, "name", "?")}))
    return ret(st, ok(UNIT))


@model(r"^serde_json::de::from_slice$|^serde_json::de::from_str$")
def m_from_slice(I, st, info, args, depth):
    src = deref(I, st, args[0])
    of = src.attrs.get("json_of") if isinstance(src, Seq) else None
    nm = "json(%s)" % of if of else "json(%s)" % getattr(src, "name", "?")
    s2 = st.clone()
    s2.cond.append("%s parses" % nm)
    st.cond.append("%s does not parse" % nm)
    v = Sym(nm, "serde_json::value::Value", attrs={"adt": "serde_json::value::Value", "json_of": of})
    return [(s2, "return", ok(v)), (st, "return", err(Sym("serde_json::Error")))]


@model(r"^serde_json::map::Map::<alloc::string::String, serde_json::value::Value>::(len|contains_key|remove|get|insert)$")
def m_json_map(I, st, info, args, depth):
    op = info["tdef"].split("::")[-1]
    p = I.resolve(st, args[0])
    m = deref(I, st, p)
    nm = getattr(m, "name", repr(m))
    if op == "len":
        return ret(st, Aff.sym("len(%s)" % nm))
    k = str_key(I, st, args[1]) if len(args) > 1 else None
    fact = ("mapcontains", nm, k)
    if op == "contains_key":
        known = st.facts.get(fact)
        if known is not None:
            return ret(st, BoolV(known))
        s2 = st.clone()
        s2.facts[fact] = True
        s2.cond.append("%s has %s" % (nm, k[1]))
        st.facts[fact] = False
        st.cond.append("%s lacks %s" % (nm, k[1]))
        return [(s2, "return", BoolV(True)), (st, "return", BoolV(False))]
    if op in ("remove", "get"):
        if op == "remove":
            st.events.append(("Map::remove", nm, k))
        known = st.facts.get(fact)
        item = Sym("%s[%s]" % (nm, k[1]), attrs={"member_of": nm, "member_key": k})
        if known is True:
            return ret(st, some(item))
        if known is False:
            return ret(st, none())
        s2 = st.clone()
        s2.facts[fact] = True
        st.facts[fact] = False
        return [(s2, "return", some(item)), (st, "return", none())]
    st.events.append(("Map::" + op, nm, k) + ((str_key(I, st, args[2]),) if op == "insert" and len(args) > 2 else ()))
    return ret(st, Top("Map::" + op))


# ====================================================================== C09: lengths, indexing and the SAFE / PANICKY tables
def seq_of(I, st, v, what="seq"):
    """a Seq view of a slice / Vec / array / str value (opaque values get a symbolic length)"""
    v = deref(I, st, v)
    if isinstance(v, Seq):
        return v
    if isinstance(v, StrV):
        b = v.s.encode() if isinstance(v.s, str) else v.s
        return Seq("lit", Aff(len(b)), kind="str", attrs={"const": v.s})
    if isinstance(v, Struct) and len(v.fields) == 1 and "0" in v.fields:
        return seq_of(I, st, v.fields["0"], what)
    if isinstance(v, Sym):
        l = length_of(I, st, v)
        return Seq(v.name, l, kind="bytes")
    return Seq("?" + what, Aff.sym("len(?%s)" % what), kind="bytes", attrs={"top": True})


def range_parts(I, st, r):
    r = deref(I, st, r)
    if isinstance(r, Struct):
        nm = r.adt.split("::")[-1]
        return nm, r.fields.get("start"), r.fields.get("end")
    return None, None, None


def need(I, st, info, kind, cond, needtxt):
    """returns list of (state, ok)"""
    if isinstance(cond, BoolV):
        return site(I, st, info, kind, cond.b, needtxt)
    return site(I, st, info, kind, cond, needtxt)


@model(r"^core::ops::index::Index::index$|^core::ops::index::IndexMut::index_mut$")
def m_index(I, st, info, args, depth):
    nm = info["name"]
    if info["def"] in I.facts.bodies:
        return None
    base = deref(I, st, args[0])
    # serde_json Value indexing never panics on the immutable path (returns Null)
    if re.search(r"for serde_json::value::Value>::index(_mut)?$|^<&?(mut )?serde_json::value::Value as core::ops::index::Index", nm):
        if "IndexMut" in info["tdef"]:
            return [(st, "panic", ("Value::index_mut", info["fn"], info["ln"]))] if False else ret(st, Sym("json_member"))
        k = str_key(I, st, args[1])
        bn = getattr(base, "name", "json")
        key = (("jsonidx", bn), k)
        if key not in st.symfields:
            st.symfields[key] = json_sym("%s[%s]" % (bn, k[1]))
        c = st.new_cell(st.symfields[key])
        return ret(st, Ptr(c, ()))
    if "HashMap<" in nm or "serde_json::map::Map<" in nm:
        # (serde_json::Map, unlike serde_json::Value, panics when indexed with a key it does not hold)
        mname = repr(I.resolve(st, args[0]))
        k = str_key(I, st, args[1])
        known = st.facts.get(("hashcontains", mname, k))
        out = []
        for s2, okk in site(I, st, info, "HashMap index", True if known is True else (False if known is False else SymBool(("contains", mname, k[1]))), "the key is present in the map (guard with contains_key / use get)"):
            if okk:
                out.append((s2, "return", Sym("%s[%s]" % (mname, k[1]))))
            else:
                out.append((s2, "panic", ("HashMap index", info["fn"], info["ln"])))
        return out
    idx = I.resolve(st, args[1])
    is_str = re.search(r"Index<.*> for str>|<str as core::ops::index::Index|<alloc::string::String as core::ops::index::Index", nm) is not None
    s_ = seq_of(I, st, base)
    L = s_.length
    rk, a, b = range_parts(I, st, idx)
    out = []
    if rk is None and isinstance(idx, Aff):
        # element access
        for s2, okk in need(I, st, info, "index", I.compare(st, "Lt", idx, L), "index %r < len %r" % (idx, L)):
            if okk:
                el = I.project(s2, s_, idx.const) if idx.is_const() else Sym("%s[%r]" % (s_.name, idx))
                c = s2.new_cell(el)
                out.append((s2, "return", Ptr(c, ())))
            else:
                out.append((s2, "panic", ("index", info["fn"], info["ln"])))
        return out
    if rk in ("RangeTo", "Range", "RangeFrom", "RangeFull", "RangeInclusive", "RangeToInclusive"):
        a = I.resolve(st, a) if a is not None else Aff(0)
        b = I.resolve(st, b) if b is not None else L
        if rk == "RangeFrom":
            b = L
        if rk == "RangeTo":
            a = Aff(0)
        if not (isinstance(a, Aff) and isinstance(b, Aff)):
            return [(st, "panic", ("slice with unknown bounds", info["fn"], info["ln"]))] if site(I, st, info, "slice", False, "bounds of the range are known") else []
        states = [(st, True)]
        res = []
        for cond, txt in ((I.compare(st, "Le", a, b), "start %r <= end %r" % (a, b)), (None, None)):
            pass
        cur = [(st, True)]
        nxt = []
        for s2, _ in cur:
            for s3, ok1 in need(I, s2, info, "slice", I.compare(s2, "Le", a, b), "range start %r <= end %r" % (a, b)):
                if not ok1:
                    res.append((s3, "panic", ("slice", info["fn"], info["ln"])))
                    continue
                for s4, ok2 in need(I, s3, info, "slice", I.compare(s3, "Le", b, L), "range end %r <= len %r" % (b, L)):
                    if not ok2:
                        res.append((s4, "panic", ("slice", info["fn"], info["ln"])))
                        continue
                    if is_str:
                        # char boundary: only decidable for constant 0 / the whole length
                        bnd_ok = (a.is_const() and a.const == 0) and (b == L)
                        for s5, ok3 in site(I, s4, info, "str slice", True if bnd_ok else False, "byte offsets %r..%r are char boundaries of an arbitrary string" % (a, b)):
                            if ok3:
                                res.append((s5, "return", Seq("%s[%r..%r]" % (s_.name, a, b), b.sub(a), kind="str")))
                            else:
                                res.append((s5, "panic", ("str slice", info["fn"], info["ln"])))
                        continue
                    if info["tdef"].endswith("index_mut"):
                        bp = I.resolve(s4, args[0])
                        g = 0
                        while isinstance(bp, Ptr) and isinstance(I.resolve(s4, I.load(s4, bp)), Ptr) and g < 4:
                            bp = I.resolve(s4, I.load(s4, bp))
                            g += 1
                        if isinstance(bp, Ptr) and isinstance(I.resolve(s4, I.load(s4, bp)), Seq):
                            res.append((s4, "return", Ptr(bp.cell, bp.path + (("range", a, b),))))
                            continue
                    if a == Aff(0) and b == s_.length and not info["tdef"].endswith("index_mut"):
                        # the whole sequence (`v[..]`, `&v[0..v.len()]`): the same elements under the same names
                        res.append((s4, "return", s_))
                        continue
                    sub = Seq("%s[%r..%r]" % (s_.name, a, b), b.sub(a), kind=s_.kind if s_.kind != "array" else "bytes")
                    if s_.elems is not None and a.is_const() and b.is_const():
                        sub = Seq(sub.name, sub.length, s_.elems[a.const:b.const], None, {}, sub.kind)
                    res.append((s4, "return", sub))
        return res
    st.unmodelled.append("index with %r" % (idx,))
    return ret(st, Top("index"))


@model(r"^core::slice::<impl \[T\]>::split_at$")
def m_split_at(I, st, info, args, depth):
    s_ = seq_of(I, st, args[0])
    mid = I.resolve(st, args[1])
    out = []
    for s2, okk in need(I, st, info, "split_at", I.compare(st, "Le", mid, s_.length), "mid %r <= len %r" % (mid, s_.length)):
        if okk:
            out.append((s2, "return", Struct("(tuple)", None, {"0": Seq(s_.name + "[..%r]" % mid, mid, kind="bytes"), "1": Seq(s_.name + "[%r..]" % mid, s_.length.sub(mid), kind="bytes")})))
        else:
            out.append((s2, "panic", ("split_at", info["fn"], info["ln"])))
    return out


@model(r"^core::slice::<impl \[T\]>::split_at_mut$")
def m_split_at_mut(I, st, info, args, depth):
    """two disjoint mutable views of one buffer: pointers to its byte ranges (writes through them land in the buffer)"""
    p = I.resolve(st, args[0])
    g = 0
    while isinstance(p, Ptr) and isinstance(I.resolve(st, I.load(st, p)), Ptr) and g < 4:
        p = I.resolve(st, I.load(st, p))
        g += 1
    s_ = seq_of(I, st, args[0])
    mid = I.resolve(st, args[1])
    if not (isinstance(p, Ptr) and isinstance(mid, Aff)):
        return None
    out = []
    for s2, okk in need(I, st, info, "split_at_mut", I.compare(st, "Le", mid, s_.length), "mid %r <= len %r" % (mid, s_.length)):
        if okk:
            out.append((s2, "return", Struct("(tuple)", None, {"0": Ptr(p.cell, p.path + (("range", Aff(0), mid),)), "1": Ptr(p.cell, p.path + (("range", mid, s_.length),))})))
        else:
            out.append((s2, "panic", ("split_at_mut", info["fn"], info["ln"])))
    return out


@model(r"^core::slice::<impl \[T\]>::(split_first_chunk_mut|split_last_chunk_mut|first_chunk_mut|last_chunk_mut)$")
def m_chunk_mut(I, st, info, args, depth):
    """mutable chunk views: pointers to byte ranges of the buffer (None when it is shorter than N)"""
    p = I.resolve(st, args[0])
    g = 0
    while isinstance(p, Ptr) and isinstance(I.resolve(st, I.load(st, p)), Ptr) and g < 4:
        p = I.resolve(st, I.load(st, p))
        g += 1
    s_ = seq_of(I, st, args[0])
    n = None
    for g_ in (info.get("gargs") or []):
        if re.fullmatch(r"\d+(_usize)?", str(g_)):
            n = int(str(g_).split("_")[0])
    if n is None:
        m = re.search(r"::<(\d+)>$", M.decode_typenum(info["name"]))
        n = int(m.group(1)) if m else None
    if n is None or not isinstance(p, Ptr):
        return None
    n = Aff(n)
    L = s_.length
    op = info["tdef"].split("::")[-1]
    out = []
    for s2, t in fork_bool(I, st, I.compare(st, "Le", n, L)):
        if not t:
            out.append((s2, "return", none()))
            continue
        head, tail_ = (Aff(0), n), (n, L)
        if op.startswith(("split_last", "last")):
            head, tail_ = (L.sub(n), L), (Aff(0), L.sub(n))
        hp = Ptr(p.cell, p.path + (("range", head[0], head[1]),))
        tp = Ptr(p.cell, p.path + (("range", tail_[0], tail_[1]),))
        if op in ("first_chunk_mut", "last_chunk_mut"):
            out.append((s2, "return", some(hp)))
        elif op == "split_first_chunk_mut":
            out.append((s2, "return", some(Struct("(tuple)", None, {"0": hp, "1": tp}))))
        else:
            out.append((s2, "return", some(Struct("(tuple)", None, {"0": tp, "1": hp}))))
    return out


@model(r"^alloc::vec::Vec::<T, A>::split_off$")
def m_split_off(I, st, info, args, depth):
    """v.split_off(at): v keeps [..at], the result is [at..]; panics when at > len"""
    p = I.resolve(st, args[0])
    s_ = seq_of(I, st, args[0])
    at = I.resolve(st, args[1])
    if not (isinstance(p, Ptr) and isinstance(at, Aff)):
        return None
    out = []
    for s2, okk in need(I, st, info, "split_off", I.compare(st, "Le", at, s_.length), "at %r <= len %r" % (at, s_.length)):
        if okk:
            I.store_to(s2, p, Seq(s_.name + "[..%r]" % at, at, kind="vec"))
            out.append((s2, "return", Seq(s_.name + "[%r..]" % at, s_.length.sub(at), kind="vec")))
        else:
            out.append((s2, "panic", ("split_off", info["fn"], info["ln"])))
    return out


@model(r"^core::slice::<impl \[T\]>::copy_from_slice$|^core::slice::<impl \[T\]>::clone_from_slice$")
def m_copy_from_slice(I, st, info, args, depth):
    dst_p = I.resolve(st, args[0])
    d = seq_of(I, st, args[0])
    s_ = seq_of(I, st, args[1])
    out = []
    for s2, okk in need(I, st, info, "copy_from_slice", I.compare(st, "Eq", d.length, s_.length), "destination length %r == source length %r" % (d.length, s_.length)):
        if okk:
            if isinstance(dst_p, Ptr):
                I.store_to(s2, dst_p, Seq(s_.name, d.length, None, None, dict(s_.attrs), d.kind))
            out.append((s2, "return", UNIT))
        else:
            out.append((s2, "panic", ("copy_from_slice", info["fn"], info["ln"])))
    return out


def typenum_len(name):
    m = re.search(r"GenericArray::<u8, U(\d+)>|GenericArray<u8, U(\d+)>", name)
    if m:
        return int(m.group(1) or m.group(2))
    return None


@model(r"^generic_array::GenericArray::<T, N>::from_slice$|^generic_array::GenericArray::<T, N>::clone_from_slice$|^generic_array::GenericArray::<T, N>::from_mut_slice$")
def m_ga_from_slice(I, st, info, args, depth):
    n = typenum_len(info["name"])
    s_ = seq_of(I, st, args[0])
    if n is None:
        for s2, okk in site(I, st, info, "GenericArray::from_slice", False, "the array length of %s is known" % M.short(info["name"])):
            return [(s2, "panic", ("from_slice", info["fn"], info["ln"]))]
    out = []
    for s2, okk in need(I, st, info, "GenericArray::from_slice", I.compare(st, "Eq", s_.length, Aff(n)), "slice length %r == %d" % (s_.length, n)):
        if okk:
            out.append((s2, "return", Seq(s_.name, Aff(n), None, None, dict(s_.attrs), "array")))
        else:
            out.append((s2, "panic", ("from_slice", info["fn"], info["ln"])))
    return out


@model(r"^core::panicking::(assert_failed|panic|panic_fmt|panic_display|unreachable_display|panic_explicit|panic_str)|^std::rt::begin_panic|^core::panicking::panic_nounwind|^core::option::expect_failed|^core::result::unwrap_failed")
def m_panic(I, st, info, args, depth):
    for s2, okk in site(I, st, info, "explicit panic", False, "this panic / assertion failure is unreachable"):
        return [(s2, "panic", ("panic", info["fn"], info["ln"]))]
    return []


@model(r"^core::str::<impl str>::split$|^core::str::<impl str>::splitn$|^core::str::<impl str>::rsplit$")
def m_split(I, st, info, args, depth):
    src = seq_of(I, st, args[0])
    how = info["tdef"].split("::")[-1]
    if how == "splitn":     # splitn(n, pat): at most n items, the last one is the rest of the string
        lim = I.resolve(st, args[1])
        return ret(st, Struct("str::Split", None, {"src": src, "sep": args[2] if len(args) > 2 else UNIT, "pos": Aff(0), "how": StrV(how), "limit": lim if isinstance(lim, Aff) else Aff(-1)}))
    return ret(st, Struct("str::Split", None, {"src": src, "sep": args[1] if len(args) > 1 else UNIT, "pos": Aff(0), "how": StrV(how)}))


@model(r"^core::iter::traits::iterator::Iterator::collect$|^core::iter::traits::collect::FromIterator::from_iter$")
def m_collect(I, st, info, args, depth):
    it = deref(I, st, args[0])
    if isinstance(it, Struct) and it.adt == "str::Split":
        n = st.facts.get("nsplit", 0)
        st.facts["nsplit"] = n + 1
        name = "parts%d" % n
        st.bounds["len(%s)" % name] = (1, LEN_MAX)
        return ret(st, Seq(name, Aff.sym("len(%s)" % name), kind="vec", attrs={"elem": "str"}))
    if isinstance(it, Seq):
        return ret(st, it)
    return ret(st, Seq("collected@%d" % info["ln"], Aff.sym("len(collected@%d)" % info["ln"]), kind="vec"))


@model(r"^core::ops::range::RangeInclusive::<Idx>::new$")
def m_ri_new(I, st, info, args, depth):
    return ret(st, Struct("core::ops::range::RangeInclusive", None, {"start": args[0], "end": args[1]}))


@model(r"^core::ops::range::RangeInclusive::<Idx>::contains$|^core::ops::range::Range::<Idx>::contains$")
def m_range_contains(I, st, info, args, depth):
    r = deref(I, st, args[0])
    x = deref(I, st, args[1])
    if isinstance(r, Struct) and isinstance(x, Aff):
        lo, hi = I.resolve(st, r.fields.get("start")), I.resolve(st, r.fields.get("end"))
        if isinstance(lo, Aff) and isinstance(hi, Aff):
            incl = "Inclusive" in r.adt
            out = []
            # x >= lo && x <= hi
            c1 = I.compare(st, "Ge", x, lo)
            for s2, t1 in fork_bool(I, st, c1):
                if not t1:
                    out.append((s2, "return", BoolV(False)))
                    continue
                c2 = I.compare(s2, "Le" if incl else "Lt", x, hi)
                for s3, t2 in fork_bool(I, s2, c2):
                    out.append((s3, "return", BoolV(t2)))
            return out
    return ret(st, SymBool(("contains", repr(r), repr(x))))


def fork_bool(I, st, c):
    if isinstance(c, BoolV):
        return [(st, c.b)]
    out = []
    s2 = st.clone()
    if I.assume(s2, c, True):
        out.append((s2, True))
    if I.assume(st, c, False):
        out.append((st, False))
    return out


def result_fork(I, st, okv, errname, what):
    s2 = st.clone()
    s2.cond.append(what + " ok")
    st.cond.append(what + " fails")
    return [(s2, "return", ok(okv)), (st, "return", err(Sym(errname)))]


@model(r"^base64::engine::Engine::decode$")
def m_b64dec(I, st, info, args, depth):
    n = st.facts.get("ndec", 0)
    st.facts["ndec"] = n + 1
    name = "decoded%d" % n
    eng = repr(deref(I, st, args[0]))
    what = describe(I, st, args[1])
    out = result_fork(I, st, Seq(name, Aff.sym("len(%s)" % name), kind="vec", attrs={"decoded_of": what, "engine": eng}), "base64::DecodeError", "base64 decode")
    out[1][0].events.append(("decodefail", what, eng))
    return out


@model(r"^hex::decode$")
def m_hexdec(I, st, info, args, depth):
    return result_fork(I, st, Seq("hexbytes", Aff.sym("len(hexbytes)"), kind="vec"), "hex::FromHexError", "hex decode")


@model(r"^core::str::converts::from_utf8$|^alloc::string::String::from_utf8$")
def m_from_utf8(I, st, info, args, depth):
    s_ = seq_of(I, st, args[0])
    return result_fork(I, st, Seq("utf8(%s)" % s_.name, s_.length, kind="str"), "Utf8Error", "utf8")


@model(r"^ring::deprecated_constant_time::verify_slices_are_equal$|^ring::constant_time::verify_slices_are_equal$")
def m_verify_slices(I, st, info, args, depth):
    da, db = describe(I, st, args[0]), describe(I, st, args[1])
    out = result_fork(I, st, UNIT, "ring::error::Unspecified", "constant-time compare")
    out[0][0].events.append(("equal", da, db))
    out[1][0].events.append(("notequal", da, db))
    return out


def out_size(name):
    m = re.search(r"Blake2bMac<U(\d+)>|Blake2bVarCore, U(\d+)", name)
    if m:
        return int(m.group(1) or m.group(2))
    if re.search(r"Sha512VarCore, U48|Sha384", name):
        return 48
    if re.search(r"Sha256VarCore, U32|Sha256", name):
        return 32
    if re.search(r"Sha512", name):
        return 64
    return None


@model(r"^crypto_common::KeyInit::new_from_slice$|^digest::mac::Mac::new_from_slice$")
def m_new_from_slice(I, st, info, args, depth):
    nm = info["name"]
    k = seq_of(I, st, args[0])
    obj = Sym("mac", attrs={"mac": nm, "out": out_size(nm)})
    if "Hmac" in nm or "hmac::" in nm:
        return ret(st, ok(obj))          # HMAC accepts keys of any length
    if "blake2::Blake2bMac" in nm:
        c = I.compare(st, "Le", k.length, Aff(64))  # blake2: Err(InvalidLength) iff key longer than 64 bytes
    elif "ChaChaPoly1305" in nm or "chacha20poly1305" in nm:
        c = I.compare(st, "Eq", k.length, Aff(32))
    else:
        return result_fork(I, st, obj, "InvalidLength", "new_from_slice")
    out = []
    for s2, t in fork_bool(I, st, c):
        out.append((s2, "return", ok(obj) if t else err(Sym("InvalidLength"))))
    return out


@model(r"^digest::FixedOutput::finalize_fixed$|^digest::mac::Mac::finalize$|^digest::digest::Digest::finalize$")
def m_finalize(I, st, info, args, depth):
    n = out_size(info["name"])
    if info["tdef"].endswith("Mac::finalize"):
        return ret(st, Struct("CtOutput", None, {"bytes": Seq("mac_out", Aff(n) if n else Aff.sym("maclen"), kind="array")}))
    return ret(st, Seq("digest_out", Aff(n) if n else Aff.sym("digestlen"), kind="array"))


@model(r"^digest::mac::CtOutput::<T>::into_bytes$")
def m_into_bytes(I, st, info, args, depth):
    v = deref(I, st, args[0])
    if isinstance(v, Struct) and "bytes" in v.fields:
        return ret(st, v.fields["bytes"])
    n = out_size(info["name"])
    return ret(st, Seq("mac_out", Aff(n) if n else Aff.sym("maclen"), kind="array"))


# opaque, never panicking (SAFE table): return an opaque value / unit
SAFE_UNIT = (r"^digest::Update::update$|^digest::mac::Mac::update$|^digest::digest::Digest::update$|^cipher::stream::StreamCipher::apply_keystream$|^zeroize::Zeroize::zeroize$|"
             r"^core::mem::drop$")
SAFE_OPAQUE = (r"^digest::digest::Digest::(new|new_with_prefix|chain_update)$|^digest::mac::Mac::chain_update$|^digest::Update::chain$|^cipher::common::NewCipher::new$|^crypto_common::KeyIvInit::new$|^ring::hkdf::Salt::new$|^ring::hkdf::Salt::extract$|^ring::signature::UnparsedPublicKey::<B>::new$|"
               r"^core::default::Default::default$|^ring::rand::SystemRandom::new$|^serde_json::value::Value::to_string$|^time::offset_date_time::OffsetDateTime::to_string$")


@model(r"^core::default::Default::default$")
def m_default(I, st, info, args, depth):
    """Default of the std types whose default is a fixed value (crate-local impls are interpreted from their MIR)"""
    if info["def"] in I.facts.bodies:
        return None
    m = re.match(r"^<(.*) as core::default::Default>::default$", info["name"]) or re.search(r"<impl core::default::Default for (.*)>::default$", info["name"]) \
        or re.search(r"<impl core::default::Default for (.*)>::default$", info.get("def") or "")
    ty = m.group(1) if m else ((info.get("gargs") or [""])[0] if len(info.get("gargs") or []) == 1 else "")
    if ty.startswith("core::option::Option<"):
        return ret(st, none())
    if ty in ("&str", "alloc::string::String", "str") or ty.startswith("&'") and ty.endswith(" str"):
        return ret(st, StrV(""))
    if ty == "bool":
        return ret(st, BoolV(False))
    if re.match(r"^[ui](8|16|32|64|128|size)$", ty):
        return ret(st, Aff(0, ty=ty))
    if ty.startswith("alloc::vec::Vec<"):
        return ret(st, Seq("vec", Aff(0), elems=[], kind="vec"))
    if ty.startswith("core::marker::PhantomData<"):
        return ret(st, UNIT)
    if ty == "serde_json::value::Value":
        return ret(st, Struct("serde_json::value::Value", "Null", {}))
    return None


@model(SAFE_UNIT)
def m_safe_unit(I, st, info, args, depth):
    if info["def"] in I.facts.bodies:
        return None
    return ret(st, UNIT)


@model(SAFE_OPAQUE)
def m_safe_opaque(I, st, info, args, depth):
    if info["def"] in I.facts.bodies:
        return None
    return ret(st, Sym(M.short(info["tdef"]).split("::")[-2] if "::" in info["tdef"] else "opaque"))


RESULT_FORKS = [
    (r"^aead::Aead::decrypt$|^aead::Aead::encrypt$", lambda I, st, info, args: Seq("aead_out", Aff.sym("len(aead_out)"), kind="vec"), "aead::Error"),
    (r"^signature::verifier::Verifier::verify$|^signature::verifier::DigestVerifier::verify_digest$|^ring::signature::UnparsedPublicKey::<B>::verify$", lambda I, st, info, args: UNIT, "signature::Error"),
    (r"^ed25519_dalek::verifying::VerifyingKey::from_bytes$|^ecdsa::verifying::VerifyingKey::<C>::from_sec1_bytes$|^elliptic_curve::public_key::PublicKey::<C>::from_sec1_bytes$", lambda I, st, info, args: Sym("public key object"), "key error"),
    (r"^serde_json::value::to_value$", lambda I, st, info, args: Sym("to_value", attrs={"adt": "serde_json::value::Value"}), "serde_json::Error"),
    (r"^ring::hkdf::Prk::expand$", lambda I, st, info, args: Struct("ring::hkdf::Okm", None, {"len": args[2]}), "ring::error::Unspecified"),
    (r"^ring::hkdf::Okm::<'a, L>::fill$|^ring::hkdf::Okm::<'_, L>::fill$", lambda I, st, info, args: UNIT, "ring::error::Unspecified"),
]
for _pat, _mk, _err in RESULT_FORKS:
    def _make(mk, errn, pat):
        def h(I, st, info, args, depth):
            return result_fork(I, st, mk(I, st, info, args), errn, M.short(info["tdef"]).split("::")[-1])
        return h
    MODELS.append((re.compile(_pat), _make(_mk, _err, _pat)))


@model(r"^ring::hkdf::Okm::<'a, L>::len$|^ring::hkdf::Okm::<'_, L>::len$")
def m_okm_len(I, st, info, args, depth):
    v = deref(I, st, args[0])
    if isinstance(v, Struct) and "len" in v.fields:
        c = st.new_cell(v.fields["len"])
        return ret(st, Ptr(c, ()))
    return ret(st, Top("okm len"))


@model(r"^elliptic_curve::sec1::ToEncodedPoint::to_encoded_point$|^ecdsa::verifying::VerifyingKey::<C>::to_encoded_point$")
def m_encoded_point(I, st, info, args, depth):
    return ret(st, Seq("encoded_point", Aff.sym("len(encoded_point)"), kind="bytes"))


@model(r"^core::convert::TryFrom::try_from$|^core::convert::TryInto::try_into$")
def m_try_from(I, st, info, args, depth):
    nm = info["name"]
    if info["def"] in I.facts.bodies:
        return None
    # blanket TryInto -> the crate's TryFrom impl
    if info["tdef"].endswith("try_into") and len(info["gargs"]) >= 2:
        tgt = M.decode_typenum(info["gargs"][1])
        for b in I.facts.bodies.values():
            if b.get("name") == "try_from" and b.get("impl_trait", "").startswith("core::convert::TryFrom<") and M.decode_typenum(b.get("impl_self", "")) == tgt:
                return list(I._call_body(st, b, args, depth + 1))
    # &[u8] -> &[u8; N]  /  [u8; N]
    m = re.search(r"<&\[u8; (\d+)\] as core::convert::TryFrom<&\[u8\]>>|<\[u8; (\d+)\] as core::convert::TryFrom<&\[u8\]>>|TryFrom<&'a \[T\]> for &'a \[T; N\]|<&\[u8\] as core::convert::TryInto<&?\[u8; (\d+)\]>>", nm + " " + info["def"])
    mm = re.search(r"\[u8; (\d+)\]", nm)
    if not m and mm and re.search(r"<impl core::convert::TryFrom<&(?:'\w+ )?\[u8\]> for &?(?:'\w+ )?\[u8; \d+\]>::try_from$", nm):
        m = mm
    if m and mm:
        n = int(mm.group(1))
        s_ = seq_of(I, st, args[0])
        out = []
        for s2, t in fork_bool(I, st, I.compare(st, "Eq", s_.length, Aff(n))):
            out.append((s2, "return", ok(Seq(s_.name, Aff(n), s_.elems, s_.chunks, dict(s_.attrs), "array")) if t else err(Sym("TryFromSliceError"))))
        return out
    # slice -> array of a const-generic length ([u8; KEYSIZE]): Ok exactly when the lengths agree, the same bytes
    mg = re.search(r"<&?\[(?:u8|T); ([A-Z][A-Z0-9_]*)\] as core::convert::TryFrom<&(?:'\w+ )?\[(?:u8|T)\]>>", nm) or \
        re.search(r"<impl core::convert::TryFrom<&(?:'\w+ )?\[u8\]> for &?(?:'\w+ )?\[u8; ([A-Z][A-Z0-9_]*)\]>::try_from$", nm)
    if mg:
        n = Aff.sym(mg.group(1))
        fr_ = getattr(I, "_cur_frame", None)
        if fr_ is not None and mg.group(1) in (fr_.consts or {}):
            n = Aff(fr_.consts[mg.group(1)])       # the caller's const parameter has a value at this call
        s_ = seq_of(I, st, args[0])
        out = []
        for s2, t in fork_bool(I, st, I.compare(st, "Eq", s_.length, n)):
            out.append((s2, "return", ok(Seq(s_.name, n, s_.elems, s_.chunks, dict(s_.attrs), "array")) if t else err(Sym("TryFromSliceError"))))
        return out
    # integer conversions: widening never fails; narrowing succeeds exactly when the value fits
    mi = re.search(r"<(u8|u16|u32|u64|u128|usize) as core::convert::TryFrom<(u8|u16|u32|u64|u128|usize)>>::try_from$", nm) or \
        re.search(r"<impl core::convert::TryFrom<(?P<src>u8|u16|u32|u64|u128|usize)> for (?P<dst>u8|u16|u32|u64|u128|usize)>::try_from$", nm + " " + (info.get("def") or ""))
    if mi:
        dst, src = (mi.group("dst"), mi.group("src")) if "dst" in mi.groupdict() else (mi.group(1), mi.group(2))
        bits = {"u8": 8, "u16": 16, "u32": 32, "u64": 64, "u128": 128, "usize": 32}     # usize: at least 32 bits
        src_bits = {"usize": 64}.get(src, bits[src])                                   # ... and at most 64
        x = I.resolve(st, args[0])
        if src_bits <= bits[dst]:
            return ret(st, ok(x))
        lim = (1 << bits[dst]) - 1
        if isinstance(x, Bits) and x.mask <= lim:
            return ret(st, ok(x))
        if isinstance(x, Aff):
            out = []
            for s2, t in fork_bool(I, st, I.compare(st, "Le", x, Aff(lim))):
                out.append((s2, "return", ok(x) if t else err(Sym("TryFromIntError"))))
            return out
    if "Signature" in nm or "signature" in nm:
        return result_fork(I, st, Sym("signature object"), "signature::Error", "signature parse")
    return result_fork(I, st, Sym("converted"), "conversion error", "try_from")


@model(r"^std::collections::hash::map::HashMap::<K, V, S, A>::contains_key$")
def m_hm_contains(I, st, info, args, depth):
    mname = repr(I.resolve(st, args[0]))
    k = str_key(I, st, args[1])
    key = ("hashcontains", mname, k)
    known = st.facts.get(key)
    if known is not None:
        return ret(st, BoolV(known))
    s2 = st.clone()
    s2.facts[key] = True
    s2.cond.append("%s has %s" % (mname, k[1]))
    st.facts[key] = False
    st.cond.append("%s lacks %s" % (mname, k[1]))
    return [(s2, "return", BoolV(True)), (st, "return", BoolV(False))]


@model(r"^core::ops::function::Fn::call$|^core::ops::function::FnMut::call_mut$|^core::ops::function::FnOnce::call_once$")
def m_fn_call(I, st, info, args, depth):
    f = deref(I, st, args[0])
    tup = deref(I, st, args[1])
    av = [tup.fields[str(i)] for i in range(len(tup.fields))] if isinstance(tup, Struct) else []
    if isinstance(f, FnV):
        return I.call_value(st, f, av, depth)
    # a caller-supplied validator (dyn Fn): its own panics are the caller's; its verdict is unknown
    if "PasetoClaimError" in info["name"]:
        return result_fork(I, st, UNIT, "PasetoClaimError", "validator")
    return ret(st, Top("dyn Fn"))


@model(r"^core::num::<impl usize>::checked_(add|sub|mul)$")
def m_checked(I, st, info, args, depth):
    a, b = I.resolve(st, args[0]), I.resolve(st, args[1])
    op = info["tdef"].split("_")[-1]
    if not (isinstance(a, Aff) and isinstance(b, Aff)):
        return ret(st, Sym("checked", attrs={"adt": "core::option::Option"}))
    r = a.add(b) if op == "add" else (a.sub(b) if op == "sub" else (b.scale(a.const) if a.is_const() else (a.scale(b.const) if b.is_const() else None)))
    if r is None:
        return ret(st, Sym("checked", attrs={"adt": "core::option::Option"}))
    c = I.compare(st, "Ge", r, Aff(0)) if op == "sub" else I.compare(st, "Le", r, Aff((1 << 64) - 1))
    out = []
    for s2, t in fork_bool(I, st, c):
        out.append((s2, "return", some(r) if t else none()))
    return out


# ------------------------------------------------------------------ SAFE table: std inspection / iterator functions that do not panic by themselves
SAFE_STD = (r"^core::str::<impl str>::(bytes|chars|char_indices|trim|trim_start|trim_end|trim_matches|starts_with|ends_with|contains|find|rfind|eq_ignore_ascii_case|is_char_boundary|"
            r"to_lowercase|to_uppercase|to_ascii_lowercase|to_ascii_uppercase|get|as_ptr|lines|split_once|rsplit_once|strip_prefix|strip_suffix|parse|is_ascii|nth|rsplitn|split_terminator|matches)$|"
            r"^alloc::str::<impl str>::(to_lowercase|to_uppercase|repeat|replace|to_ascii_lowercase|to_ascii_uppercase)$|"
            r"^core::iter::traits::iterator::Iterator::(zip|map|filter|filter_map|enumerate|rev|skip|take|chain|cloned|copied|peekable|count|nth|last|position|sum|min|max|find|find_map|for_each|try_for_each|try_fold|flat_map|flatten|take_while|skip_while|eq|cmp|by_ref|size_hint|map_while|inspect|fuse)$|"
            r"^core::iter::traits::double_ended::DoubleEndedIterator::(next_back|rev|rfold|rfind|nth_back)$|"
            r"^core::slice::<impl \[T\]>::(iter_mut|starts_with|ends_with|split_first|split_last|to_owned|concat|is_sorted|binary_search|get_mut|fill|reverse|as_ptr)$|"
            r"^alloc::vec::Vec::<T, A>::(get|first|last|clear|truncate|reserve|capacity|pop|iter|as_ptr|shrink_to_fit|dedup|retain|append|is_empty)$|"
            r"^alloc::string::String::(clear|capacity|from_utf8_lossy|pop|reserve)$|^core::char::methods::<impl char>::|^core::num::<impl u8>::(is_ascii|to_ascii|eq_ignore)|"
            r"^alloc::string::FromUtf8Error::(utf8_error|into_bytes|as_bytes)$|^core::str::error::Utf8Error::(valid_up_to|error_len)$|"
            r"^core::option::Option::<T>::(iter|iter_mut)$|"
            r"^core::result::Result::<T, E>::(iter|iter_mut)$|"
            r"^std::collections::hash::map::HashMap::<K, V, S(, A)?>::(get|iter|keys|values|len|is_empty|get_key_value)$|^std::collections::hash::set::HashSet::<T, S(, A)?>::(contains|get|len|is_empty|iter)$|"
            r"^serde_json::value::Value::(is_string|is_number|is_boolean|is_array|is_object|as_bool|as_i64|as_u64|as_f64|as_array|as_object|pointer)$|^serde_json::map::Map::<.*>::(iter|keys|values|is_empty)$|"
            r"^core::cmp::(Ord|PartialOrd)::(cmp|partial_cmp|max|min)$|^core::cmp::(min|max)$|^core::mem::(size_of|align_of)")


@model(r"^alloc::string::String::truncate$")
def m_string_truncate(I, st, info, args, depth):
    """String::truncate(n) panics when n is not on a char boundary: discharged only for n == 0, n >= len, or text known to be ASCII"""
    p = I.resolve(st, args[0])
    s_ = seq_of(I, st, args[0])
    n = I.resolve(st, args[1])
    if not isinstance(n, Aff):
        return None
    out = []
    ascii_ = bool(s_.attrs.get("ascii")) or (s_.attrs.get("const") is not None and all(ord(c) < 128 for c in str(s_.attrs.get("const"))))
    for s2, ge in fork_bool(I, st, I.compare(st, "Ge", n, s_.length)):
        if ge:
            out.append((s2, "return", UNIT))
            continue
        okc = True if (ascii_ or n == Aff(0)) else False
        for s3, okk in need(I, s2, info, "String::truncate", okc, "new length %r lies on a char boundary of the (non-ASCII capable) text" % (n,)):
            if okk:
                if isinstance(p, Ptr):
                    I.store_to(s3, p, Seq("%s[..%r]" % (s_.name, n), n, kind="str"))
                out.append((s3, "return", UNIT))
            else:
                out.append((s3, "panic", ("String::truncate", info["fn"], info["ln"])))
    return out


@model(r"^core::slice::<impl \[T\]>::(chunks|chunks_exact|chunks_exact_mut|chunks_mut|windows|rchunks)$|^core::iter::traits::iterator::Iterator::step_by$")
def m_nonzero_arg(I, st, info, args, depth):
    """chunks(0) / windows(0) / step_by(0) panic: the size must be provably non-zero"""
    n = I.resolve(st, args[1]) if len(args) > 1 else None
    okc = I.compare(st, "Ge", n, Aff(1)) if isinstance(n, Aff) else False
    out = []
    for s2, okk in need(I, st, info, info["tdef"].split("::")[-1], okc, "the chunk / window / step size is at least 1"):
        if okk:
            out.append((s2, "return", Sym("%s@%d" % (info["tdef"].split("::")[-1], info["ln"]))))
        else:
            out.append((s2, "panic", (info["tdef"].split("::")[-1], info["fn"], info["ln"])))
    return out


@model(r"^serde_json::value::Value::get$")
def m_json_get(I, st, info, args, depth):
    """value.get(key): None when the member is absent (then value[key] is Null), otherwise a reference to the very member value[key] denotes"""
    base = deref(I, st, args[0])
    k = str_key(I, st, args[1])
    if not (isinstance(base, Sym) and k[0] in ("const", "sym")):
        return ret(st, Sym("get@%d" % info["ln"], attrs={"adt": "core::option::Option"}))
    bn = getattr(base, "name", "json")
    key = (("jsonidx", bn), k)
    if key not in st.symfields:
        st.symfields[key] = json_sym("%s[%s]" % (bn, k[1]))
    mem = st.symfields[key]
    out = []
    cls = st.facts.get(("cls", mem.name), mem.classes)
    # (the serialised form of an expected claim holds its one entry under the claim's own key - C14.R2 - so that lookup does not fail)
    if (cls is None or "Null" in cls) and not bn.startswith("expected("):
        s2 = st.clone()
        s2.symfields = dict(st.symfields)
        s2.facts[("cls", mem.name)] = frozenset(["Null"])
        s2.facts[("lookup_refined", mem.name)] = True
        s2.cond.append("%s absent" % mem.name)
        out.append((s2, "return", none()))
    out.append((st, "return", some(Ptr(st.new_cell(mem), ()))))
    return out


@model(r"^core::str::<impl str>::(contains|starts_with|ends_with|eq_ignore_ascii_case|is_ascii|is_char_boundary)$|^core::slice::<impl \[T\]>::(starts_with|ends_with|is_ascii)$")
def m_text_predicate(I, st, info, args, depth):
    """a yes / no question about text whose answer the analysis does not compute: both answers are followed, each recorded as a condition"""
    if info["def"] in I.facts.bodies:
        return None
    op = info["tdef"].split("::")[-1]
    vals = [deref(I, st, a) for a in args]
    if len(vals) == 2 and op in ("contains", "starts_with", "ends_with", "eq_ignore_ascii_case"):
        b = vals[1]
        pc = I.resolve(st, args[1])
        if isinstance(pc, Aff) and pc.is_const() and "char" in info["name"]:
            b = StrV(chr(pc.const))
        a = vals[0]
        if isinstance(a, StrV) and isinstance(b, StrV) and type(a.s) is type(b.s):
            # both texts are known: the answer is computed
            r = {"contains": lambda: b.s in a.s, "starts_with": lambda: a.s.startswith(b.s), "ends_with": lambda: a.s.endswith(b.s),
                 "eq_ignore_ascii_case": lambda: a.s.lower() == b.s.lower()}[op]()
            return ret(st, BoolV(bool(r)))
    if len(vals) == 1 and op == "is_ascii" and isinstance(vals[0], StrV):
        return ret(st, BoolV(all((ord(c) if isinstance(c, str) else c) < 128 for c in vals[0].s)))
    return ret(st, SymBool((op,) + tuple(describe(I, st, a) for a in args)))


@model(r"^core::str::<impl str>::(trim|trim_start|trim_end|trim_ascii|trim_ascii_start|trim_ascii_end|trim_matches|trim_start_matches|trim_end_matches)$|"
       r"^core::slice::ascii::<impl \[u8\]>::(trim_ascii|trim_ascii_start|trim_ascii_end)$")
def m_trim(I, st, info, args, depth):
    """a part of the text: not longer than the text, possibly empty although the text is not; known texts are trimmed as they are"""
    x = deref(I, st, args[0])
    op = info["tdef"].split("::")[-1]
    if isinstance(x, StrV) and isinstance(x.s, str) and "matches" not in op:
        ws = " \t\n\r\x0c" if "ascii" in op else None
        f = {"trim": str.strip, "trim_start": str.lstrip, "trim_end": str.rstrip, "trim_ascii": str.strip, "trim_ascii_start": str.lstrip, "trim_ascii_end": str.rstrip}[op]
        return ret(st, StrV(f(x.s, ws) if ws else f(x.s)))
    if not isinstance(x, Seq):
        return None
    nm = "%s(%s)" % (op, x.name)
    ln = Aff.sym("len(%s)" % nm)
    lo, hi = st.range_of(x.length)
    st.bounds["len(%s)" % nm] = (0, max(0, hi))
    return ret(st, Seq(nm, ln, kind=x.kind, attrs={"part_of": x.name}))


@model(SAFE_STD)
def m_safe_std(I, st, info, args, depth):
    """opaque result; closures handed to the function are interpreted once on opaque arguments so that their panic sites are inventoried"""
    if info["def"] in I.facts.bodies:
        return None
    for a in args:
        f = deref(I, st, a)
        if isinstance(f, FnV):
            body = I.facts.bodies.get(f.defn)
            if body is not None:
                n = body["arg_count"] - (1 if f.kind == "closure" else 0)
                s2 = st.clone()
                for s3, kind, val in I.call_value(s2, f, [Sym("hof_arg%d" % i) for i in range(n)], depth):
                    if kind == "panic":
                        return [(s3, kind, val)]
    name = info["tdef"].split("::")[-1]
    return ret(st, Sym("%s@%d" % (name, info["ln"])))


@model(r"^core::slice::<impl \[T\]>::split_at_checked$")
def m_split_at_checked(I, st, info, args, depth):
    s_ = seq_of(I, st, args[0])
    mid = I.resolve(st, args[1])
    out = []
    for s2, t in fork_bool(I, st, I.compare(st, "Le", mid, s_.length)):
        if t:
            out.append((s2, "return", some(Struct("(tuple)", None, {"0": Seq(s_.name + "[..%r]" % mid, mid, kind="bytes"), "1": Seq(s_.name + "[%r..]" % mid, s_.length.sub(mid), kind="bytes")}))))
        else:
            out.append((s2, "return", none()))
    return out


@model(r"^core::slice::<impl \[T\]>::(first_chunk|split_first_chunk|last_chunk|split_last_chunk)$")
def m_chunk_split(I, st, info, args, depth):
    """first_chunk::<N> / split_first_chunk::<N> / last_chunk::<N> / split_last_chunk::<N>: None when the slice is shorter than N"""
    op = info["tdef"].split("::")[-1]
    s_ = seq_of(I, st, args[0])
    L = s_.length
    n = None
    for g in (info.get("gargs") or []):
        if re.fullmatch(r"\d+(_usize)?", str(g)):
            n = int(str(g).split("_")[0])
    if n is None:
        m = re.search(r"::<(\d+)>$", M.decode_typenum(info["name"]))
        n = int(m.group(1)) if m else None
    if n is None:
        return None
    n = Aff(n)

    def arr(name, first=False, s2=None):
        if first and n.const <= 64 and (s_.elems is not None or s_.attrs.get("elem") is not None):
            # the leading elements under their own names (element i of the chunk is element i of the sequence)
            return Seq(name, n, [I.project(s2, s_, i) for i in range(n.const)], kind="array")
        return Seq(name, n, kind="array")
    out = []
    for s2, t in fork_bool(I, st, I.compare(st, "Le", n, L)):
        if not t:
            out.append((s2, "return", none()))
        elif op == "first_chunk":
            out.append((s2, "return", some(Ptr(s2.new_cell(arr(s_.name + "[..%r]" % n, True, s2)), ()))))
        elif op == "last_chunk":
            out.append((s2, "return", some(Ptr(s2.new_cell(arr(s_.name + "[%r..]" % L.sub(n))), ()))))
        elif op == "split_first_chunk":
            out.append((s2, "return", some(Struct("(tuple)", None, {"0": Ptr(s2.new_cell(arr(s_.name + "[..%r]" % n, True, s2)), ()), "1": Seq(s_.name + "[%r..]" % n, L.sub(n), kind="bytes")}))))
        else:
            out.append((s2, "return", some(Struct("(tuple)", None, {"0": Seq(s_.name + "[..%r]" % L.sub(n), L.sub(n), kind="bytes"), "1": Ptr(s2.new_cell(arr(s_.name + "[%r..]" % L.sub(n))), ())}))))
    return out


@model(r"^core::slice::<impl \[T\]>::(get|first|last)$")
def m_slice_get(I, st, info, args, depth):
    s_ = seq_of(I, st, args[0])
    op = info["tdef"].split("::")[-1]
    if op == "get" and len(args) > 1:
        idx = I.resolve(st, args[1])
        rk, a, b = range_parts(I, st, idx)
        L = s_.length
        if rk is None and isinstance(idx, Aff):
            out = []
            for s2, t in fork_bool(I, st, I.compare(st, "Lt", idx, L)):
                if t:
                    el = I.project(s2, s_, idx.const) if idx.is_const() else Sym("%s[%r]" % (s_.name, idx))
                    out.append((s2, "return", some(Ptr(s2.new_cell(el), ()))))
                else:
                    out.append((s2, "return", none()))
            return out
        if rk in ("RangeTo", "Range", "RangeFrom"):
            a = I.resolve(st, a) if a is not None and rk != "RangeTo" else Aff(0)
            b = I.resolve(st, b) if b is not None and rk != "RangeFrom" else L
            if isinstance(a, Aff) and isinstance(b, Aff):
                out = []
                for s2, t1 in fork_bool(I, st, I.compare(st, "Le", a, b)):
                    if not t1:
                        out.append((s2, "return", none()))
                        continue
                    for s3, t2 in fork_bool(I, s2, I.compare(s2, "Le", b, L)):
                        out.append((s3, "return", some(Seq("%s[%r..%r]" % (s_.name, a, b), b.sub(a), kind="bytes")) if t2 else none()))
                return out
    if op in ("first", "last"):
        L = s_.length
        out = []
        for s2, t in fork_bool(I, st, I.compare(st, "Ge", L, Aff(1))):
            if not t:
                out.append((s2, "return", none()))
            elif s_.elems is not None and len(s_.elems) >= 1:
                out.append((s2, "return", some(Ptr(s2.new_cell(s_.elems[0 if op == "first" else -1]), ()))))
            elif op == "first":
                out.append((s2, "return", some(Ptr(s2.new_cell(I.project(s2, s_, 0)), ()))))
            else:
                out.append((s2, "return", some(Ptr(s2.new_cell(Sym("%s[last]" % s_.name)), ()))))
        return out
    return ret(st, Sym("%s@%d" % (op, info["ln"]), attrs={"adt": "core::option::Option"}))


@model(r"^core::num::<impl u(64|32|16|size)>::to_le_bytes$|^core::num::<impl u(64|32|16|size)>::to_be_bytes$")
def m_to_le_bytes(I, st, info, args, depth):
    x = I.resolve(st, args[0])
    n = {"64": 8, "32": 4, "16": 2, "size": 8}[re.search(r"impl u(64|32|16|size)", info["tdef"]).group(1)]
    if isinstance(x, Aff):
        bs = [Bits(x, 8 * i, 0xFF, "u8") if not x.is_const() else Aff((x.const >> (8 * i)) & 0xFF, ty="u8") for i in range(n)]
        if info["tdef"].endswith("to_be_bytes"):
            bs = list(reversed(bs))
        return ret(st, Seq("bytes", Aff(n), bs, kind="array"))
    return ret(st, Seq("bytes", Aff(n), None, kind="array"))


@model(r"^alloc::string::String::with_capacity$")
def m_string_new(I, st, info, args, depth):
    return ret(st, Seq("string", Aff(0), None, [], kind="str"))


@model(r"^alloc::string::String::(push_str|push)$")
def m_push_str(I, st, info, args, depth):
    p = I.resolve(st, args[0])
    cur = deref(I, st, p)
    x = deref(I, st, args[1])
    if isinstance(p, Ptr) and isinstance(cur, StrV) and isinstance(cur.s, str):
        # a String holding known text
        cur = Seq("string", Aff(len(cur.s.encode())), None, [("lit", cur.s)] if cur.s else [], kind="str")
    if isinstance(p, Ptr) and isinstance(cur, Seq):
        chunks = list(cur.chunks) if cur.chunks is not None else ([("arg", cur)] if cur.elems is None and cur.name != "string" else [])
        if isinstance(x, StrV):
            chunks.append(("lit", x.s))
            add = Aff(len(x.s.encode()))
        elif isinstance(x, Aff) and x.is_const() and info["tdef"].endswith("push"):
            chunks.append(("lit", chr(x.const)))
            add = Aff(len(chr(x.const).encode()))
        else:
            chunks.append(("arg", x))
            add = length_of(I, st, x) or Aff.sym("len?")
        I.store_to(st, p, Seq(cur.name, cur.length.add(add), None, chunks, cur.attrs, "str"))
    return ret(st, UNIT)


@model(r"^core::iter::traits::iterator::Iterator::(any|all)$")
def m_any(I, st, info, args, depth):
    it = deref(I, st, args[0])
    if isinstance(it, Struct) and it.adt == "SliceIter":
        sq = it.fields["seq"]
        elems = sq.elems[it.fields["pos"].const:]
    elif isinstance(it, Seq) and it.elems is not None:
        elems = it.elems
    else:
        return m_safe_std(I, st, info, args, depth)
    want_any = info["tdef"].endswith("any")
    out = []
    cur = [st]
    for e in elems:
        nxt = []
        for s2 in cur:
            for s3, kind, val in I.call_value(s2, args[1], [Ptr(s2.new_cell(e), ())], depth):
                if kind != "return":
                    out.append((s3, kind, val))
                    continue
                for s4, t in fork_bool(I, s3, I.resolve(s3, val)) if isinstance(I.resolve(s3, val), (BoolV, SymBool)) else [(s3, None)]:
                    if t is None:
                        s4.notes.append("undecided predicate in any/all")
                        out.append((s4, "return", Top("any")))
                    elif t == want_any:
                        out.append((s4, "return", BoolV(want_any)))
                    else:
                        nxt.append(s4)
        cur = nxt
    for s2 in cur:
        out.append((s2, "return", BoolV(not want_any)))
    return out


@model(r"^core::fmt::Formatter::<'a>::write_fmt$|^core::fmt::Formatter::<'a>::write_str$|^core::fmt::Write::write_str$|^core::fmt::Write::write_fmt$|^<str as core::fmt::Display>::fmt$|^core::fmt::Display::fmt$")
def m_fmt_write(I, st, info, args, depth):
    """Display output is recorded as events (what a Display impl prints is its abstract result)"""
    if info["def"] in I.facts.bodies:
        return None
    td = info["tdef"]
    p = I.resolve(st, args[0])
    cur = deref(I, st, p)
    if isinstance(p, Ptr) and isinstance(cur, Seq) and cur.kind == "str" and (td.endswith("write_fmt") or td.endswith("write_str")) and "Formatter" not in td:
        # write!(string, ..) / string.write_str(..): the text is appended to the String (never fails)
        if td.endswith("write_fmt"):
            val = m_format(I, st, info, [deref(I, st, args[1])], depth)[0][2]
            add = val.chunks if isinstance(val, Seq) and val.chunks is not None else [("arg", val)]
        else:
            x = deref(I, st, args[1])
            add = [("lit", x.s)] if isinstance(x, StrV) else [("arg", x)]
        chunks = list(cur.chunks) if cur.chunks is not None else ([("arg", cur)] if cur.elems is None and cur.name != "string" else [])
        ln = cur.length
        for kind, x in add:
            chunks.append((kind, x))
            ln = ln.add(Aff(len(x.encode())) if kind == "lit" else (length_of(I, st, x) or Aff.sym("len?")))
        I.store_to(st, p, Seq(cur.name, ln, None, chunks, cur.attrs, "str"))
        return ret(st, ok(UNIT))
    if td.endswith("write_fmt"):
        a = deref(I, st, args[1])
        r = m_format(I, st, info, [a], depth)
        val = r[0][2]
        chunks = val.chunks if isinstance(val, Seq) and val.chunks is not None else [("arg", val)]
        for kind, x in chunks:
            st.events.append(("fmt", kind, deref(I, st, x) if kind == "arg" else x))
    elif td.endswith("write_str"):
        st.events.append(("fmt", "arg", deref(I, st, args[1])))
    else:
        # <str as Display>::fmt(s, f) / Display::fmt(x, f)
        st.events.append(("fmt", "arg", deref(I, st, args[0])))
    return ret(st, ok(UNIT))


def displayed(I, st, events):
    """concatenated Display output of a run as a list of pieces (concrete strings merged)"""
    out = []
    for e in events:
        if e[0] != "fmt":
            continue
        x = e[2]
        s = x if isinstance(x, str) else (x.s if isinstance(x, StrV) else None)
        if s is not None:
            if out and isinstance(out[-1], str):
                out[-1] += s
            else:
                out.append(s)
        else:
            out.append(x)
    return [p for p in out if p != ""]


@model(r"^ring::rand::SecureRandom::fill$")
def m_rng_fill(I, st, info, args, depth):
    """Ok: the destination (whatever part of a buffer the pointer designates) now holds fresh CSPRNG output"""
    dst = I.resolve(st, args[1])
    cur = seq_of(I, st, args[1])
    s2 = st.clone()
    s2.cond.append("rng fill ok")
    n = s2.facts.get("nfill", 0)
    s2.facts["nfill"] = n + 1
    if isinstance(dst, Ptr):
        I.store_to(s2, dst, Seq("random#%d" % n, cur.length, None, None, {"random": True}, cur.kind))
    s2.events.append(("rng_fill", repr(cur.length)))
    st.cond.append("rng fill fails")
    return [(s2, "return", ok(UNIT)), (st, "return", err(Sym("ring::error::Unspecified")))]


# ------------------------------------------------------------------ map pipelines (C14.R3: payload = f(every stored claim))
@model(r"^std::collections::hash::map::HashMap::<K, V, S(, A)?>::(iter|into_iter|drain)$")
def m_map_iter(I, st, info, args, depth):
    return ret(st, Struct("MapIter", None, {"map": deref(I, st, args[0]), "by": info["tdef"].split("::")[-1]}))


def _as_pipeline(I, it):
    """an opaque collection handed to an iterator adaptor becomes a pipeline source (opt-in: Interp.generic_pipelines)"""
    if isinstance(it, Struct) and it.adt in ("MapIter", "Mapped", "Lossy"):
        return it
    if getattr(I, "generic_pipelines", False) and isinstance(it, Sym):
        return Struct("MapIter", None, {"map": it, "by": "into_iter", "generic": BoolV(True)})
    return None


@model(r"^core::iter::traits::iterator::Iterator::map$")
def m_iter_map(I, st, info, args, depth):
    it = _as_pipeline(I, deref(I, st, args[0]))
    if it is not None:
        return ret(st, Struct("Mapped", None, {"inner": it, "f": args[1]}))
    return m_safe_std(I, st, info, args, depth)


@model(r"^core::iter::traits::iterator::Iterator::(filter|filter_map|skip|take|step_by|skip_while|take_while|flat_map|flatten|zip|chain|rev|enumerate|map_while|scan|cycle|intersperse)$")
def m_iter_lossy(I, st, info, args, depth):
    """adaptors that may drop, add, reorder or reshape elements: remembered in the pipeline so that a collect() reports them"""
    if not getattr(I, "generic_pipelines", False):
        return None
    it = _as_pipeline(I, deref(I, st, args[0]))
    if it is not None:
        return ret(st, Struct("Lossy", None, {"inner": it, "op": StrV(info["tdef"].split("::")[-1])}))
    return None


def _map_source(it):
    fs = []
    lossy = []
    while isinstance(it, Struct) and it.adt in ("Mapped", "Lossy"):
        if it.adt == "Mapped":
            fs.append(it.fields["f"])
        else:
            lossy.append(it.fields["op"].s)
        it = it.fields["inner"]
    _map_source.lossy = lossy
    return it, list(reversed(fs))


@model(r"^core::iter::traits::iterator::Iterator::collect$|^core::iter::traits::collect::FromIterator::from_iter$")
def m_collect_map(I, st, info, args, depth):
    it = deref(I, st, args[0])
    if getattr(I, "generic_pipelines", False):
        it = _as_pipeline(I, it) or it
    src, fs = _map_source(it)
    lossy = list(_map_source.lossy)
    if isinstance(src, Struct) and src.adt == "MapIter":
        m = src.fields["map"]
        mname = getattr(m, "name", repr(m))
        # evaluate the per-entry pipeline once on an arbitrary entry (k, v)
        if "generic" in src.fields:
            entry = Sym("entry")    # element of an opaque collection: its shape is materialised by what the pipeline does with it
        else:
            entry = Struct("(tuple)", None, {"0": Ptr(st.new_cell(Seq("entry.key", Aff.sym("len(entry.key)"), kind="str")), ()), "1": Ptr(st.new_cell(Sym("entry.value")), ())})
        states = [(st.clone(), entry)]
        for f in fs:
            nxt = []
            for s2, val in states:
                for s3, kind, out in I.call_value(s2, f, [val], depth):
                    if kind == "return":
                        nxt.append((s3, out))
            states = nxt
        per = []
        for s2, val in states:
            val = deref(I, s2, val)
            if isinstance(val, Struct) and "0" in val.fields and "1" in val.fields:
                kd = describe(I, s2, val.fields.get("0"))
                vv = deref(I, s2, val.fields.get("1"))
                vd = (vv.adt.split("::")[-1] + "::" + vv.variant) if isinstance(vv, Struct) and vv.variant else getattr(vv, "name", repr(vv))
            elif isinstance(val, Struct):
                kd = describe(I, s2, val.fields.get("0"))
                vd = repr(None)
            else:
                kd, vd = None, getattr(val, "name", repr(val))
            per.append((kd, vd, tuple(c for c in s2.cond if c not in st.cond), tuple(s2.unmodelled)))
        res = Sym("collected(%s)" % mname, attrs={"source": mname, "per_entry": per, "lossy": lossy})
        st.events.append(("collect_map", mname, per, lossy))
        return ret(st, res)
    return None


@model(r"^serde_json::map::Map::<.*>::new$")
def m_json_map_new(I, st, info, args, depth):
    return ret(st, Seq("empty_map", Aff(0), kind="map"))


@model(r"^serde_json::ser::to_string$|^serde_json::ser::to_string_pretty$|^serde_json::ser::to_vec$")
def m_json_to_string(I, st, info, args, depth):
    src = deref(I, st, args[0])
    return result_fork(I, st, Seq("json_text", Aff.sym("len(json_text)"), kind="str", attrs={"json_text_of": src}), "serde_json::Error", "to_string")


# priority: models registered later in this file that must win over earlier generic ones
def _prioritise(names):
    front = [m for m in MODELS if m[1].__name__ in names]
    rest = [m for m in MODELS if m[1].__name__ not in names]
    MODELS[:] = front + rest


_prioritise({"m_collect_map", "m_iter_map", "m_iter_lossy", "m_map_iter", "m_slice_get", "m_split_at_checked", "m_any", "m_push_str", "m_string_new", "m_fmt_write", "m_rng_fill"})


# concrete collections / lazy iterators (registered in front of the models above; they decline unless the receiver is concrete)
from . import models_iter  # noqa: E402,F401
from . import models_str  # noqa: E402,F401   strings with separator structure (split_once / contains / prefix slicing)
