"""Slice algebra over provenance terms: canonical (start, end) offsets - affine in the payload length L - of a sub-slice
of the token's decoded payload, whatever idiom produced it (range indexing, split_at, split_at_checked, checked_sub ...)."""
import re

from .absint import Aff
from .mir import T, mk_field

L = Aff.sym("L")


def is_payload(t):
    return isinstance(t, T) and t.op == "tryok" and t.args[0].op == "call" and bool(re.search(r"parse_raw_token", t.args[0].name))


def strip_opt(t):
    """x? / x.ok_or(e)? / x.unwrap() wrappers around an Option/Result producing call"""
    g = 0
    while isinstance(t, T) and g < 6:
        g += 1
        if t.op == "tryok":
            t = t.args[0]
            continue
        if t.op == "call" and re.search(r"core::option::Option::<T>::(ok_or|ok_or_else|unwrap|expect)$|core::result::Result::<T, E>::(map_err|unwrap|expect)$", t.meta.get("tdef", "")) and t.args:
            t = t.args[0]
            continue
        if t.op == "variant" and t.name == "Some" and t.args:
            t = t.args[0]
            continue
        break
    return t


def aff(t, base_pred=is_payload, slicer=None):
    """affine value of an integer term (in L) or None"""
    slicer = slicer or (lambda x: payload_slice(x, base_pred))
    if not isinstance(t, T):
        return None
    if t.op == "const" and isinstance(t.name, int):
        return Aff(t.name)
    if t.op == "binop" and t.name in ("Add", "Sub", "AddUnchecked", "SubUnchecked"):
        a, b = aff(t.args[0], base_pred, slicer), aff(t.args[1], base_pred, slicer)
        if a is None or b is None:
            return None
        return a.add(b) if t.name.startswith("Add") else a.sub(b)
    if t.op == "call" and re.search(r"::len$", t.name) and t.args:
        s = slicer(t.args[0])
        if s is not None:
            return s[1].sub(s[0])
        return None
    if t.op == "unop" and t.name == "PtrMetadata" and t.args:
        s = slicer(t.args[0])
        if s is not None:
            return s[1].sub(s[0])
    if t.op == "cast" and t.args:
        return aff(t.args[0], base_pred, slicer)
    return None


def payload_slice(t, base_pred=is_payload):
    """(start, end) of the sub-slice of the base denoted by term t, or None"""
    if not isinstance(t, T):
        return None
    if base_pred(t):
        return (Aff(0), L)
    slicer = lambda x: payload_slice(x, base_pred)
    if t.op == "call" and re.search(r"Index<core::ops::range::Range(To|From|Full)?<?", t.name) and re.search(r"::index$|::index_mut$", t.name) and len(t.args) == 2:
        b = payload_slice(t.args[0], base_pred)
        if b is None:
            return None
        r = t.args[1]
        kind = str(r.name).split("::")[-1] if r.op == "agg" else ""
        if kind == "RangeFull":
            return b
        st = aff(mk_field(r, "start"), base_pred, slicer) if kind in ("Range", "RangeFrom") else Aff(0)
        en = aff(mk_field(r, "end"), base_pred, slicer) if kind in ("Range", "RangeTo") else None
        if st is None or (kind in ("Range", "RangeTo") and en is None):
            return None
        return (b[0].add(st), b[0].add(en) if en is not None else b[1])
    if t.op == "field" and t.name in ("0", "1") and t.args:
        inner = strip_opt(t.args[0])
        if inner.op == "call" and re.search(r"<impl \[\w+\]>::(split_at|split_at_checked|split_at_unchecked)$", inner.name) and len(inner.args) == 2:
            b = payload_slice(inner.args[0], base_pred)
            m = aff(inner.args[1], base_pred, slicer)
            if b is None or m is None:
                return None
            return (b[0], b[0].add(m)) if t.name == "0" else (b[0].add(m), b[1])
    if t.op == "call" and re.search(r"<impl \[T\]>::(get|get_unchecked)$", t.name) and len(t.args) == 2:
        return payload_slice(T("call", "Index<core::ops::range::Range<usize>>>::index", t.args, t.meta), base_pred) if False else None
    if t.op in ("tryok",):
        inner = strip_opt(t)
        if inner is not t:
            return payload_slice(inner, base_pred)
    return None


def fmt(s):
    return "[%r..%r]" % (s[0], s[1]) if s else "?"
