"""CFG utilities (E2), provenance terms (E3) and effects (E4) over pvfacts bodies."""
import re
from collections import defaultdict

# ------------------------------------------------------------------ names
_TN = re.compile(r"typenum::uint::UInt<")


def decode_typenum(s):
    """Replace typenum UInt<...> chains in a type string by U<n>."""
    out = []
    i = 0
    while True:
        m = _TN.search(s, i)
        if not m:
            out.append(s[i:])
            break
        out.append(s[i:m.start()])
        # parse balanced
        j = m.end()
        depth = 1
        while depth > 0 and j < len(s):
            if s[j] == "<":
                depth += 1
            elif s[j] == ">":
                depth -= 1
            j += 1
        inner = s[m.start():j]
        bits = re.findall(r"typenum::bit::B([01])", inner)
        if "UTerm" in inner and bits:
            out.append("U%d" % int("".join(bits), 2))
        else:
            out.append(inner)
        i = j
    return "".join(out)


def short(s):
    """Human-oriented shortening of a canonical path for reports."""
    s = decode_typenum(s)
    s = re.sub(r"crate::core::[a-z_0-9]+::(?:[a-z_0-9]+::)*", "", s)
    s = re.sub(r"crate::(generic|prelude)::(?:[a-z_0-9]+::)*", "", s)
    s = s.replace("core::", "").replace("alloc::", "")
    return s


# ------------------------------------------------------------------ CFG
class CFG:
    """Control-flow graph of one body without cleanup (unwind) blocks."""

    def __init__(self, body):
        self.body = body
        self.blocks = body["blocks"]
        n = len(self.blocks)
        self.succ = [[] for _ in range(n)]
        for i, b in enumerate(self.blocks):
            if b["cleanup"]:
                continue
            t = b["term"]
            k = t["k"]
            if k == "goto":
                self.succ[i] = [t["target"]]
            elif k == "switch":
                seen = []
                for _, bb in t["targets"]:
                    if bb not in seen:
                        seen.append(bb)
                if t["otherwise"] not in seen:
                    seen.append(t["otherwise"])
                self.succ[i] = seen
            elif k in ("call", "drop", "assert"):
                if t.get("target") is not None:
                    self.succ[i] = [t["target"]]
            # return / unreachable / resume: none
        self.pred = [[] for _ in range(n)]
        for i, ss in enumerate(self.succ):
            for s2 in ss:
                self.pred[s2].append(i)
        self.reach = self._reach(0, None)
        self._dom = None

    def _reach(self, start, removed_edges, removed_blocks=()):
        seen = set()
        stack = [start]
        rb = set(removed_blocks)
        if start in rb:
            return seen
        while stack:
            x = stack.pop()
            if x in seen:
                continue
            seen.add(x)
            for y in self.succ[x]:
                if removed_edges and (x, y) in removed_edges:
                    continue
                if y in rb:
                    continue
                if y not in seen:
                    stack.append(y)
        return seen

    def reachable_without(self, edges=(), blocks=(), start=0):
        return self._reach(start, set(edges), blocks)

    def return_blocks(self):
        return [i for i in self.reach if self.blocks[i]["term"]["k"] == "return"]

    def dominators(self):
        if self._dom is not None:
            return self._dom
        nodes = sorted(self.reach)
        dom = {x: set(nodes) for x in nodes}
        dom[0] = {0}
        changed = True
        # reverse post order for speed
        order = self._rpo()
        while changed:
            changed = False
            for x in order:
                if x == 0:
                    continue
                ps = [p for p in self.pred[x] if p in self.reach]
                if not ps:
                    continue
                new = set.intersection(*(dom[p] for p in ps)) | {x}
                if new != dom[x]:
                    dom[x] = new
                    changed = True
        self._dom = dom
        return dom

    def _rpo(self):
        seen = set()
        post = []

        def dfs(x):
            stack = [(x, iter(self.succ[x]))]
            seen.add(x)
            while stack:
                node, it = stack[-1]
                adv = False
                for y in it:
                    if y not in seen:
                        seen.add(y)
                        stack.append((y, iter(self.succ[y])))
                        adv = True
                        break
                if not adv:
                    post.append(node)
                    stack.pop()
        dfs(0)
        return list(reversed(post))

    def dominates(self, a, b):
        return a in self.dominators().get(b, set())

    def edges_dominate(self, edges, block):
        """True when every path from entry to `block` uses at least one of `edges`."""
        return block not in self.reachable_without(edges=edges)

    def must_pass(self, targets, edges=(), blocks=()):
        """True when no block of `targets` is reachable once `edges` / `blocks` are removed."""
        r = self.reachable_without(edges=edges, blocks=blocks)
        return not (set(targets) & r)

    def has_loop(self):
        color = {}
        for start in [0]:
            stack = [(start, iter(self.succ[start]))]
            color[start] = 1
            while stack:
                node, it = stack[-1]
                adv = False
                for y in it:
                    if color.get(y) == 1:
                        return True
                    if y not in color:
                        color[y] = 1
                        stack.append((y, iter(self.succ[y])))
                        adv = True
                        break
                if not adv:
                    color[node] = 2
                    stack.pop()
        return False


# ------------------------------------------------------------------ terms
class T:
    """Provenance term. Equality is structural on (op, name, args); meta is ignored."""
    __slots__ = ("op", "name", "args", "meta", "_h")

    def __init__(self, op, name=None, args=(), meta=None):
        self.op = op
        self.name = name
        self.args = tuple(args)
        self.meta = meta or {}
        self._h = None

    def __eq__(self, o):
        return isinstance(o, T) and self.op == o.op and self.name == o.name and self.args == o.args

    def __hash__(self):
        if self._h is None:
            self._h = hash((self.op, self.name, self.args))
        return self._h

    def __repr__(self):
        return show(self)

    def walk(self):
        yield self
        for a in self.args:
            if isinstance(a, T):
                yield from a.walk()

    def leaves(self):
        for t in self.walk():
            if t.op in ("param", "const", "static", "unknown", "cycle", "self_field"):
                yield t

    def calls(self, pat=None):
        for t in self.walk():
            if t.op == "call" and (pat is None or re.search(pat, t.name)):
                yield t

    def has_call(self, pat):
        return any(True for _ in self.calls(pat))

    def params(self):
        return sorted(set(t.name for t in self.walk() if t.op == "param"))


def show(t, depth=0):
    if not isinstance(t, T):
        return repr(t)
    if depth > 12:
        return "..."
    op = t.op
    if op == "param":
        return "param%s" % (t.name,)
    if op == "const":
        return "const %r" % (t.name,)
    if op == "static":
        return "static %s" % short(t.name)
    if op == "call":
        return "%s(%s)" % (short(t.name), ", ".join(show(a, depth + 1) for a in t.args))
    if op == "field":
        return "%s.%s" % (show(t.args[0], depth + 1), t.name)
    if op == "variant":
        return "(%s as %s)" % (show(t.args[0], depth + 1), t.name)
    if op == "agg":
        return "%s{%s}" % (short(str(t.name)), ", ".join(show(a, depth + 1) for a in t.args))
    if op == "fld":
        return "%s: %s" % (t.name, show(t.args[0], depth + 1))
    if op in ("binop", "unop", "cast"):
        return "%s(%s)" % (t.name, ", ".join(show(a, depth + 1) for a in t.args))
    if op == "mut":
        return "mut(%s; %s)" % (show(t.args[0], depth + 1), "; ".join(show(a, depth + 1) for a in t.args[1:]))
    if op == "part":
        return "part%s[%s] := %s" % (t.name, show(t.args[0], depth + 1), show(t.args[1], depth + 1))
    if op == "selfmut":
        return "self%s%s" % ("." + t.name if t.name else "", "[%s]" % show(t.args[0], depth + 1) if t.args else "")
    if op in ("tryok", "tryerr"):
        return "%s(%s)" % (op, show(t.args[0], depth + 1))
    if op == "phi":
        return "phi(%s)" % ", ".join(show(a, depth + 1) for a in t.args)
    if op == "index":
        return "%s[%s]" % (show(t.args[0], depth + 1), show(t.args[1], depth + 1))
    if op == "discr":
        return "discr(%s)" % show(t.args[0], depth + 1)
    if op == "repeat":
        return "[%s; %s]" % (show(t.args[0], depth + 1), t.name)
    return "%s:%s(%s)" % (op, t.name, ", ".join(show(a, depth + 1) for a in t.args))


def callee_name(c):
    """Canonical instantiated name of a call terminator's callee (resolved when possible)."""
    if "indirect" in c:
        return "(indirect)"
    return decode_typenum(c.get("resolved_inst") or c["inst"])


def callee_def(c):
    """Generic (uninstantiated) definition path: resolved impl item when known, else the trait item."""
    if "indirect" in c:
        return "(indirect)"
    return decode_typenum(c.get("resolved") or c["def"])


def callee_trait_def(c):
    if "indirect" in c:
        return "(indirect)"
    return decode_typenum(c["def"])


class BodyView:
    """Def-use view of one MIR body and backward term construction."""

    def __init__(self, facts, body):
        self.facts = facts
        self.body = body
        self.id = body["id"]
        self.cfg = CFG(body)
        self.nargs = body["arg_count"]
        self.defs = defaultdict(list)      # local -> list of (kind, block, idx, payload)
        self.mutborrows = defaultdict(list)  # local -> list of (block, idx, dest_local)
        self.pnames = {}
        for n in body["names"]:
            if not n["place"]["p"] and 1 <= n["place"]["l"] <= self.nargs:
                self.pnames[n["place"]["l"]] = n["name"]
        self.lnames = {}
        for n in body["names"]:
            if not n["place"]["p"]:
                self.lnames[n["place"]["l"]] = n["name"]
        self.calls = []  # (block index, terminator)
        for bi in sorted(self.cfg.reach):
            b = body["blocks"][bi]
            for si, st in enumerate(b["stmts"]):
                if st["k"] == "assign":
                    pl = st["place"]
                    if not pl["p"]:
                        self.defs[pl["l"]].append(("assign", bi, si, st["rv"]))
                    else:
                        self.defs[pl["l"]].append(("partial", bi, si, st))
                    rv = st["rv"]
                    if rv["k"] == "ref" and rv["bk"] == "mut":
                        self.mutborrows[rv["place"]["l"]].append((bi, si, pl["l"] if not pl["p"] else None, rv["place"]))
            t = b["term"]
            if t["k"] == "call":
                self.calls.append((bi, t))
                d = t["dest"]
                if not d["p"]:
                    self.defs[d["l"]].append(("call", bi, None, t))
                else:
                    self.defs[d["l"]].append(("partial_call", bi, None, t))
        self._memo = {}
        self._visiting = set()

    # -------------------------------------------------------------- term construction
    def local_ty(self, l):
        return decode_typenum(self.body["locals"][l]["ty"])

    def op_term(self, op):
        k = op["k"]
        if k in ("copy", "move"):
            return self.place_term(op["place"])
        if k == "const":
            return self.const_term(op)
        return T("unknown", k)

    def const_term(self, op):
        if "str" in op:
            return T("const", op["str"], meta={"ty": op["ty"]})
        if "bytes" in op:
            return T("const", bytes(op["bytes"]), meta={"ty": op["ty"]})
        if "int" in op:
            return T("const", op["int"], meta={"ty": op["ty"]})
        if "promoted" in op:
            pid = "%s::promoted[%d]" % (op["promoted_of"], op["promoted"])
            pb = self.facts.bodies.get(pid)
            if pb is not None:
                return view(self.facts, pb).return_term()
            return T("unknown", "promoted")
        if "static" in op:
            sb = self.facts.bodies.get(op["static"])
            if sb is not None:
                t = view(self.facts, sb).return_term()
                if t.op == "const":
                    return T("const", t.name, meta={"static": op["static"]})
            return T("static", op["static"])
        if "fn" in op:
            return T("const", "fn " + decode_typenum(op["fn_inst"]))
        if "closure" in op:
            return T("closure", op["closure"])
        if "uneval" in op:
            ub = self.facts.bodies.get(op["uneval"])
            if ub is not None:
                return view(self.facts, ub).return_term()
            return T("const", "uneval " + op["uneval_inst"])
        if "param" in op:
            return T("const", "constparam " + op["param"])
        if op.get("zst"):
            return T("const", "zst " + decode_typenum(op["ty"]))
        return T("const", decode_typenum(op["disp"]))

    def place_term(self, pl):
        t = self.local_term(pl["l"])
        for pr in pl["p"]:
            k = pr["k"]
            if k == "deref":
                continue
            if k == "field":
                if pr.get("adt") in ("alloc::boxed::Box", "core::ptr::unique::Unique", "core::ptr::non_null::NonNull"):
                    continue   # `**boxed`: the Box's internal pointer fields are not a projection of the content
                t = mk_field(t, pr.get("name", str(pr["i"])), pr.get("adt"))
            elif k == "downcast":
                t = T("variant", pr["variant"], (t,))
            elif k == "index":
                t = T("index", None, (t, self.local_term(pr["l"])))
            elif k == "cidx":
                t = T("index", None, (t, T("const", (-1 if pr["from_end"] else 1) * pr["offset"])))
            elif k == "subslice":
                t = T("subslice", (pr["from"], pr["to"], pr["from_end"]), (t,))
            else:
                t = T("proj", k, (t,))
        return t

    def local_term(self, l):
        if l in self._memo:
            return self._memo[l]
        if l in self._visiting:
            return T("cycle", l)
        self._visiting.add(l)
        try:
            t = self._local_term(l)
        finally:
            self._visiting.discard(l)
        self._memo[l] = t
        return t

    def _local_term(self, l):
        full = [d for d in self.defs.get(l, []) if d[0] in ("assign", "call")]
        partial = [d for d in self.defs.get(l, []) if d[0] in ("partial", "partial_call")]
        base = None
        if 1 <= l <= self.nargs:
            base = T("param", l, meta={"pname": self.pnames.get(l), "ty": self.local_ty(l)})
            if not full and not partial and not self.mutborrows.get(l):
                return base
        terms = []
        if base is not None:
            terms.append(base)
        for d in full:
            if d[0] == "assign":
                terms.append(self.rv_term(d[3], (d[1], d[2])))
            else:
                terms.append(self.call_term(d[3], d[1]))
        if not terms:
            if partial:
                # aggregate built field by field (tuples, structs)
                flds = []
                for d in partial:
                    if d[0] == "partial":
                        st = d[3]
                        flds.append(T("fld", _proj_name(st["place"]), (self.rv_term(st["rv"], (d[1], d[2])),)))
                    else:
                        flds.append(T("fld", _proj_name(d[3]["dest"]), (self.call_term(d[3], d[1]),)))
                return T("agg", "(by parts)", flds)
            return T("unknown", "undef _%d" % l)
        t = terms[0] if len(terms) == 1 else T("phi", None, terms)
        muts = []
        for (bi, si, dest, place) in self.mutborrows.get(l, []):
            if dest is None:
                muts.append(T("unknown", "&mut escapes"))
                continue
            found = self._mutators(dest, _place_suffix(place), 0)
            if not found:
                muts.append(T("unknown", "&mut escapes"))
            muts.extend(found)
        for d in partial:
            if d[0] == "partial":
                st = d[3]
                muts.append(T("fld", _proj_name(st["place"]), (self.rv_term(st["rv"], (d[1], d[2])),)))
        if muts:
            return T("mut", None, [t] + muts)
        return t

    _PROPAGATE = re.compile(r"core::convert::Into::into$|core::convert::From::from$|core::ops::deref::DerefMut::deref_mut$|core::convert::AsMut::as_mut$|"
                            r"core::ops::index::IndexMut::index_mut$|core::borrow::BorrowMut::borrow_mut$|as_mut_slice$|core::slice::<impl \\[T\\]>::iter_mut$")

    def _mutators(self, borrow_local, path, depth):
        """Calls that mutate through the &mut borrow held in `borrow_local`; calls that merely convert or
        narrow the borrow (into, deref_mut, index_mut) are followed and recorded in the selfmut path."""
        out = []
        if depth > 4:
            return [T("unknown", "&mut chain too deep")]
        for (cb, ct) in self._users_of(borrow_local):
            td = callee_trait_def(ct["callee"])
            others = [self.op_term(a) for a in ct["args"] if not (a["k"] in ("copy", "move") and not a["place"]["p"] and a["place"]["l"] in self._alias_set(borrow_local))]
            if self._PROPAGATE.search(td) and not ct["dest"]["p"]:
                sub = path
                if td.endswith("index_mut") and others:
                    sub = path + "[" + show(others[0]) + "]"
                    sub_t = others[0]
                inner = self._mutators(ct["dest"]["l"], sub, depth + 1)
                if td.endswith("index_mut") and others:
                    inner = [T(m.op, m.name, [T("selfmut", path, (others[0],)) if (isinstance(a, T) and a.op == "selfmut") else a for a in m.args], m.meta) if m.op == "call" else m for m in inner]
                out.extend(inner)
                continue
            out.append(T("call", callee_name(ct["callee"]), [T("selfmut", path)] + others,
                         meta={"def": callee_def(ct["callee"]), "tdef": td, "block": cb, "body": self.id, "ln": ct["ln"],
                               "local": ct["callee"].get("resolved_local", ct["callee"].get("local", False))}))
        return out

    def _alias_set(self, l):
        alias = {l}
        changed = True
        while changed:
            changed = False
            for x, ds in self.defs.items():
                if x in alias:
                    continue
                for d in ds:
                    if d[0] == "assign":
                        rv = d[3]
                        src = None
                        if rv["k"] == "use" and rv["op"]["k"] in ("copy", "move"):
                            src = rv["op"]["place"]
                        elif rv["k"] == "ref":
                            src = rv["place"]
                        elif rv["k"] == "cast" and rv["op"]["k"] in ("copy", "move"):
                            src = rv["op"]["place"]
                        if src is not None and src["l"] in alias and all(p["k"] == "deref" for p in src["p"]):
                            alias.add(x)
                            changed = True
        return alias

    def _users_of(self, l):
        """Calls that take local l (a &mut borrow temp) as an argument, following trivial reborrow copies."""
        out = []
        alias = {l}
        changed = True
        while changed:
            changed = False
            for x, ds in self.defs.items():
                if x in alias:
                    continue
                for d in ds:
                    if d[0] == "assign":
                        rv = d[3]
                        src = None
                        if rv["k"] == "use" and rv["op"]["k"] in ("copy", "move"):
                            src = rv["op"]["place"]
                        elif rv["k"] == "ref":
                            src = rv["place"]
                        elif rv["k"] == "cast" and rv["op"]["k"] in ("copy", "move"):
                            src = rv["op"]["place"]
                        if src is not None and src["l"] in alias and all(p["k"] == "deref" for p in src["p"]):
                            alias.add(x)
                            changed = True
        for (bi, t) in self.calls:
            for a in t["args"]:
                if a["k"] in ("copy", "move") and a["place"]["l"] in alias and not a["place"]["p"]:
                    out.append((bi, t))
                    break
        return out

    def rv_term(self, rv, where=None):
        k = rv["k"]
        if k == "use":
            return self.op_term(rv["op"])
        if k in ("ref", "copy_for_deref", "rawptr"):
            return self.place_term(rv["place"])
        if k == "cast":
            ck = rv["ck"]
            inner = self.op_term(rv["op"])
            if ck.startswith("PointerCoercion") or ck in ("PtrToPtr", "Transmute", "Subtype"):
                return inner
            return T("cast", "%s->%s" % (ck, decode_typenum(rv["ty"])), (inner,))
        if k == "binop":
            return T("binop", rv["op"], (self.op_term(rv["l"]), self.op_term(rv["r"])))
        if k == "unop":
            return T("unop", rv["op"], (self.op_term(rv["x"]),))
        if k == "discriminant":
            return T("discr", None, (self.place_term(rv["place"]),))
        if k == "aggregate":
            ak = rv["ak"]
            if ak == "adt":
                flds = [T("fld", n, (self.op_term(f),)) for n, f in zip(rv["field_names"], rv["fields"])]
                return T("agg", "%s::%s" % (decode_typenum(rv["adt"]), rv["variant"]), flds, meta={"inst": decode_typenum(rv["adt_inst"])})
            if ak == "closure":
                return T("closure", rv["closure"], [self.op_term(f) for f in rv["fields"]])
            if ak in ("array", "tuple"):
                return T("agg", "(%s)" % ak, [T("fld", str(i), (self.op_term(f),)) for i, f in enumerate(rv["fields"])])
            return T("agg", "(%s)" % ak, [self.op_term(f) for f in rv["fields"]])
        if k == "repeat":
            return T("repeat", rv.get("count", rv.get("count_param", rv.get("count_disp"))), (self.op_term(rv["op"]),))
        return T("unknown", k)

    def call_term(self, t, block):
        c = t["callee"]
        args = [self.op_term(a) for a in t["args"]]
        if "indirect" in c:
            return T("call", "(indirect)", [self.op_term(c["indirect"])] + args, meta={"block": block, "body": self.id, "ln": t["ln"], "def": "(indirect)", "tdef": "(indirect)"})
        return T("call", callee_name(c), args,
                 meta={"def": callee_def(c), "tdef": callee_trait_def(c), "local": c.get("resolved_local", c.get("local", False)),
                       "gargs": [decode_typenum(g) for g in c.get("gargs", [])], "block": block, "body": self.id, "ln": t["ln"]})

    def return_term(self):
        return self.local_term(0)

    # -------------------------------------------------------------- queries
    def find_calls(self, pat, field="name"):
        """(block, terminator) of calls whose callee (instantiated name or def) matches the regex."""
        out = []
        for bi, t in self.calls:
            c = t["callee"]
            names = [callee_name(c), callee_def(c), callee_trait_def(c)]
            if any(re.search(pat, n) for n in names):
                out.append((bi, t))
        return out

    def line(self, block):
        return self.body["blocks"][block]["term"]["ln"]

    def file(self):
        return self.facts.rel(self.body["file"])


def _is_local_op(a, l):
    return a["k"] in ("copy", "move") and a["place"]["l"] == l and not a["place"]["p"]


def _proj_name(pl):
    out = []
    for pr in pl["p"]:
        if pr["k"] == "field":
            out.append(pr.get("name", str(pr["i"])))
        elif pr["k"] == "deref":
            continue
        elif pr["k"] == "downcast":
            out.append("as " + str(pr["variant"]))
        else:
            out.append(pr["k"])
    return ".".join(out)


def _place_suffix(pl):
    return _proj_name(pl)


def mk_field(base, name, adt=None):
    """field projection with simplification over aggregates."""
    b = base
    if b.op == "phi" and b.args and all(isinstance(x, T) for x in b.args):
        alts = []
        for x in b.args:
            f = mk_field(x, name, adt)
            if f not in alts:
                alts.append(f)
        return alts[0] if len(alts) == 1 else T("phi", None, alts)
    if b.op == "variant" and b.args and b.args[0].op == "phi":
        # ((phi of Option-like aggregates) as Some).0 : only the alternatives of that variant contribute
        alts = []
        for x in b.args[0].args:
            if isinstance(x, T) and x.op == "agg" and str(x.name).endswith("::" + str(b.name)):
                f = mk_field(x, name, adt)
                if f not in alts:
                    alts.append(f)
        if alts:
            return alts[0] if len(alts) == 1 else T("phi", None, alts)
    if b.op == "agg":
        for f in b.args:
            if isinstance(f, T) and f.op == "fld" and f.name == name:
                return f.args[0]
    if b.op == "mut" and b.args and b.args[0].op == "agg":
        # later partial writes win
        for m in reversed(b.args[1:]):
            if m.op == "fld" and m.name == name:
                return m.args[0]
        inner = mk_field(b.args[0], name, adt)
        return inner
    return T("field", name, (b,), meta={"adt": adt})


_views = {}


def view(facts, body):
    key = (id(facts), body["id"])
    v = _views.get(key)
    if v is None:
        v = BodyView(facts, body)
        _views[key] = v
    return v


# ------------------------------------------------------------------ normalisation / inlining
# external calls that preserve the *content* of their first argument (trusted table, E3)
TRANSPARENT_DEFS = [
    r"^core::convert::AsRef::as_ref$", r"^core::ops::deref::Deref::deref$", r"^core::ops::deref::DerefMut::deref_mut$",
    r"^core::borrow::Borrow::borrow$", r"^core::convert::Into::into$", r"^core::convert::From::from$",
    r"^core::clone::Clone::clone$", r"^alloc::borrow::ToOwned::to_owned$", r"^alloc::string::ToString::to_string$",
    r"^alloc::slice::<impl \[T\]>::to_vec$", r"^alloc::string::String::as_str$", r"^alloc::string::String::as_bytes$",
    r"^core::str::<impl str>::as_bytes$", r"^alloc::vec::Vec::<T, A>::as_slice$", r"^alloc::vec::Vec::<T, A>::as_mut_slice$",
    r"^generic_array::GenericArray::<T, N>::as_slice$", r"^generic_array::GenericArray::<T, N>::from_slice$",
    r"^generic_array::GenericArray::<T, N>::clone_from_slice$",
    r"^core::hint::must_use$", r"^core::convert::AsMut::as_mut$", r"^alloc::str::<impl str>::to_owned$",
    r"^alloc::string::String::into_bytes$", r"^core::array::<impl \[T; N\]>::as_slice$",
    r"^<[^>]* as core::convert::(From|Into)<[^>]*>>::(from|into)$",
]
_TR = [re.compile(p) for p in TRANSPARENT_DEFS]
# external trait impl items (resolved names) of the same traits
_TR_RESOLVED = re.compile(r"<impl core::(convert::AsRef|ops::deref::Deref|ops::deref::DerefMut|borrow::Borrow|convert::Into|convert::From|clone::Clone|convert::AsMut)<?.*>::(as_ref|deref|deref_mut|borrow|into|from|clone|as_mut)$|<impl alloc::borrow::ToOwned for .*>::to_owned$|<impl alloc::string::ToString for .*>::to_string$|<impl alloc::string::SpecToString for .*>::spec_to_string$")


def is_transparent_external(t):
    if t.op != "call":
        return False
    if t.meta.get("local"):
        return False
    d = t.meta.get("tdef") or ""
    if any(p.search(d) for p in _TR):
        return True
    d2 = t.meta.get("def") or ""
    if any(p.search(d2) for p in _TR):
        return True
    return bool(_TR_RESOLVED.search(d2))


class Normalizer:
    """Inlines crate-local callees (bounded) and erases content-preserving calls."""

    def __init__(self, facts, depth=4, keep=()):
        self.facts = facts
        self.depth = depth
        self.keep = [re.compile(k) for k in keep]   # local callees that must stay symbolic
        self._memo = {}

    def norm(self, t, depth=None):
        if depth is None:
            depth = self.depth
        key = (t, depth)
        if key in self._memo:
            return self._memo[key]
        r = self._norm(t, depth)
        self._memo[key] = r
        return r

    def _norm(self, t, depth):
        if not isinstance(t, T):
            return t
        if t.op in ("param", "const", "static", "unknown", "cycle"):
            return t
        args = [self.norm(a, depth) if isinstance(a, T) else a for a in t.args]
        if t.op == "field":
            b = args[0]
            # (x? value): (Try::branch(X) as Continue).0  ->  tryok(X);  Break -> tryerr(X)
            if b.op == "variant" and b.name in ("Continue", "Break") and b.args and b.args[0].op == "call" and \
                    re.search(r"core::ops::try_trait::Try::branch$", b.args[0].meta.get("tdef", "")):
                if b.name == "Continue":
                    return mk_tryok(b.args[0].args[0])
                return T("tryerr", None, (b.args[0].args[0],))
            # checked arithmetic: (a +/-/* b with overflow flag).0 -> plain binop
            if b.op == "binop" and b.name.endswith("WithOverflow") and t.name == "0":
                return T("binop", b.name[:-len("WithOverflow")], b.args)
            # (Some(x) as Some).0 over a known aggregate
            if b.op == "variant" and b.args and b.args[0].op == "agg" and str(b.args[0].name).endswith("::" + str(b.name)):
                return mk_field(b.args[0], t.name, t.meta.get("adt"))
            return mk_field(b, t.name, t.meta.get("adt"))
        if t.op == "variant":
            return T("variant", t.name, args, t.meta)
        if t.op == "mut":
            # copy_from_slice(&mut base.<path>, S) is an assignment of S's content to that part
            base = args[0]
            rest = []
            for m in args[1:]:
                if m.op == "call" and re.search(r"core::slice::<impl \[T\]>::copy_from_slice$", m.meta.get("tdef", "")) and len(m.args) == 2 and m.args[0].op == "selfmut":
                    path = m.args[0].name
                    if m.args[0].args:
                        # narrowed by index_mut(range): a partial write of that range
                        rest.append(T("part", path, (m.args[0].args[0], m.args[1])))
                        continue
                    if path == "":
                        base = m.args[1]
                        rest = []
                        continue
                    rest.append(T("fld", path, (m.args[1],)))
                else:
                    rest.append(m)
            if not rest:
                return base
            return T("mut", None, [base] + rest, t.meta)
        if t.op == "tryok" and args and isinstance(args[0], T):
            return mk_tryok(args[0])
        if t.op == "call":
            if is_transparent_external(t) and args:
                return args[0]
            d = t.meta.get("def")
            if t.meta.get("local") and depth > 0 and d in self.facts.bodies and not any(k.search(d) for k in self.keep):
                cb = self.facts.bodies[d]
                cv = view(self.facts, cb)
                if not cv.cfg.has_loop() and len(cb["blocks"]) <= 40:
                    rt = cv.return_term()
                    if not any(x.op in ("cycle",) for x in rt.walk()):
                        sub = substitute(rt, args)
                        return self.norm(sub, depth - 1)
            return T("call", t.name, args, t.meta)
        return T(t.op, t.name, args, t.meta)


def drop_calls(t, pat):
    """replace every call whose name / trait def matches `pat` by its first argument (deep)"""
    if not isinstance(t, T):
        return t
    args = [drop_calls(a, pat) if isinstance(a, T) else a for a in t.args]
    if t.op == "call" and args and (re.search(pat, t.name) or re.search(pat, t.meta.get("tdef", ""))):
        return args[0]
    if t.op in ("tryok",) and args and isinstance(args[0], T):
        pass
    return T(t.op, t.name, args, t.meta)


def mk_tryok(x0):
    """value of `x0?` on the continuing path; (a.checked_sub(b).ok_or(e))? is a - b there"""
    x = x0
    g = 0
    while x.op == "call" and re.search(r"core::option::Option::<T>::(ok_or|ok_or_else)$|core::result::Result::<T, E>::map_err$", x.meta.get("tdef", "")) and x.args and g < 4:
        x = x.args[0]
        g += 1
    if x.op == "call" and re.search(r"^core::num::<impl usize>::checked_(add|sub)$", x.meta.get("tdef", "")) and len(x.args) == 2:
        return T("binop", "Sub" if x.meta["tdef"].endswith("sub") else "Add", x.args)
    return T("tryok", None, (x0,))


def substitute(t, args):
    if not isinstance(t, T):
        return t
    if t.op == "param":
        i = t.name - 1
        if 0 <= i < len(args):
            return args[i]
        return t
    if not t.args:
        return t
    return T(t.op, t.name, [substitute(a, args) if isinstance(a, T) else a for a in t.args], t.meta)


# ------------------------------------------------------------------ `?` sites and comparisons
def try_sites(v):
    """Recognise `x?`: call Try::branch -> switch on discriminant -> Continue / Break arms.

    Returns a list of dicts: branch_block, operand (term of the value `?` is applied to), switch_block,
    cont (success successor), brk (failure successor), value (local receiving the Continue payload)."""
    out = []
    blocks = v.body["blocks"]
    for bi, t in v.calls:
        if not re.search(r"core::ops::try_trait::Try::branch$", callee_trait_def(t["callee"])):
            continue
        dest = t["dest"]["l"]
        sb = t["target"]
        if sb is None:
            continue
        # follow gotos to the switch
        guard = 0
        while blocks[sb]["term"]["k"] == "goto" and guard < 5:
            sb = blocks[sb]["term"]["target"]
            guard += 1
        st = blocks[sb]["term"]
        if st["k"] != "switch":
            continue
        cont = brk = None
        for val, bb in st["targets"]:
            if val == 0:
                cont = bb
            elif val == 1:
                brk = bb
        if cont is None:
            cont = st["otherwise"]
        if brk is None:
            brk = st["otherwise"]
        out.append({"branch_block": bi, "operand": v.op_term(t["args"][0]), "switch_block": sb, "cont": cont, "brk": brk,
                    "cf_local": dest, "ln": t["ln"]})
    return out


def bool_switches(v):
    """All SwitchInt terminators on a bool / integer with the term of the discriminant.

    Returns dicts: block, term, targets {value: bb}, otherwise."""
    out = []
    for bi in sorted(v.cfg.reach):
        t = v.body["blocks"][bi]["term"]
        if t["k"] != "switch":
            continue
        out.append({"block": bi, "term": v.op_term(t["discr"]), "targets": {val: bb for val, bb in t["targets"]}, "otherwise": t["otherwise"],
                    "ty": t["discr_ty"], "ln": t["ln"]})
    return out


def truth_edges(sw):
    """For a bool switch: (true_target, false_target)."""
    f = sw["targets"].get(0, sw["otherwise"])
    tr = sw["otherwise"] if 0 in sw["targets"] else sw["targets"].get(1, sw["otherwise"])
    if 1 in sw["targets"]:
        tr = sw["targets"][1]
    return tr, f


EQ_CALLS = [
    (r"core::cmp::PartialEq::eq$", True), (r"core::cmp::PartialEq::ne$", False),
]


def as_equality(t, norm=None):
    """If boolean term t is an (in)equality test, return (lhs, rhs, positive, kind) where positive means
    `t is true <=> lhs == rhs`.  Recognised: PartialEq::eq/ne, BinaryOp Eq/Ne, Not(..),
    Result::is_ok / is_err over ring::constant_time::verify_slices_are_equal, subtle ct_eq."""
    pos = True
    guard = 0
    while guard < 10:
        guard += 1
        if t.op == "unop" and t.name == "Not":
            pos = not pos
            t = t.args[0]
            continue
        if t.op == "binop" and t.name in ("Eq", "Ne"):
            return t.args[0], t.args[1], pos if t.name == "Eq" else not pos, "binop"
        if t.op == "call":
            td = t.meta.get("tdef", "")
            if re.search(r"core::cmp::PartialEq::eq$", td):
                return t.args[0], t.args[1], pos, "PartialEq " + t.name
            if re.search(r"core::cmp::PartialEq::ne$", td):
                return t.args[0], t.args[1], not pos, "PartialEq " + t.name
            if re.search(r"core::result::Result::<T, E>::is_ok$", td) or re.search(r"core::result::Result::<T, E>::is_err$", td):
                inner = t.args[0]
                ok = bool(re.search(r"is_ok$", td))
                if inner.op == "call" and re.search(r"ring::(deprecated_)?constant_time::verify_slices_are_equal$", inner.meta.get("tdef", "")):
                    return inner.args[0], inner.args[1], pos if ok else not pos, "ring verify_slices_are_equal"
                return None
            if re.search(r"subtle::ConstantTimeEq::ct_eq$", td):
                return t.args[0], t.args[1], pos, "subtle ct_eq"
            if re.search(r"core::convert::Into::into$|core::convert::From::from$", td) and t.args:
                t = t.args[0]
                continue
        return None
    return None


# ------------------------------------------------------------------ writes (E4)
def field_writes(v):
    """Writes through places that name a struct field: direct assignments and &mut borrows of the field.

    Returns list of dicts: adt, field, kind ('assign' | 'mutborrow' | 'call_dest'), block, ln, detail."""
    out = []
    for bi in sorted(v.cfg.reach):
        b = v.body["blocks"][bi]
        for si, st in enumerate(b["stmts"]):
            if st["k"] != "assign":
                continue
            for pr in st["place"]["p"]:
                if pr["k"] == "field" and pr.get("adt", "").startswith("crate::"):
                    out.append({"adt": pr["adt"], "field": pr["name"], "kind": "assign", "block": bi, "ln": st["ln"], "rv": st["rv"], "place": st["place"]})
            rv = st["rv"]
            if rv["k"] in ("ref", "rawptr") and rv.get("bk", "mut") == "mut":
                for pr in rv["place"]["p"]:
                    if pr["k"] == "field" and pr.get("adt", "").startswith("crate::"):
                        users = v._users_of(st["place"]["l"]) if not st["place"]["p"] else []
                        out.append({"adt": pr["adt"], "field": pr["name"], "kind": "mutborrow", "block": bi, "ln": st["ln"], "place": rv["place"],
                                    "users": [callee_name(t["callee"]) for _, t in users], "user_defs": [callee_trait_def(t["callee"]) for _, t in users]})
            if rv["k"] == "use" and rv["op"]["k"] == "move":
                # moving a field out of a struct behind a reference is impossible without mem::take; moving out of an owned struct is a consume
                pass
        t = b["term"]
        if t["k"] == "call":
            for pr in t["dest"]["p"]:
                if pr["k"] == "field" and pr.get("adt", "").startswith("crate::"):
                    out.append({"adt": pr["adt"], "field": pr["name"], "kind": "call_dest", "block": bi, "ln": t["ln"], "place": t["dest"]})
    return out


def call_graph(facts):
    """caller body id -> set of callee body ids (crate-local, resolved), closures and promoted consts included."""
    g = defaultdict(set)
    for bid, b in facts.bodies.items():
        for blk in b["blocks"]:
            if blk["cleanup"]:
                continue
            t = blk["term"]
            if t["k"] == "call":
                c = t["callee"]
                if "indirect" not in c:
                    d = c.get("resolved") or c["def"]
                    if d in facts.bodies:
                        g[bid].add(d)
                for a in t["args"]:
                    if a["k"] == "const" and "closure" in a and a["closure"] in facts.bodies:
                        g[bid].add(a["closure"])
                    if a["k"] == "const" and "promoted" in a:
                        pid = "%s::promoted[%d]" % (a["promoted_of"], a["promoted"])
                        if pid in facts.bodies:
                            g[bid].add(pid)
            for st in blk["stmts"]:
                if st["k"] != "assign":
                    continue
                rv = st["rv"]
                ops = []
                if rv["k"] == "aggregate":
                    if rv["ak"] == "closure" and rv["closure"] in facts.bodies:
                        g[bid].add(rv["closure"])
                    ops = rv["fields"]
                elif rv["k"] in ("use", "cast"):
                    ops = [rv["op"]]
                for a in ops:
                    if a["k"] == "const":
                        if "closure" in a and a["closure"] in facts.bodies:
                            g[bid].add(a["closure"])
                        if "promoted" in a:
                            pid = "%s::promoted[%d]" % (a["promoted_of"], a["promoted"])
                            if pid in facts.bodies:
                                g[bid].add(pid)
                        if "fn" in a and a["fn"] in facts.bodies:
                            g[bid].add(a["fn"])
    return g


def reachable_bodies(facts, roots, graph=None):
    g = graph or call_graph(facts)
    seen = set()
    stack = list(roots)
    while stack:
        x = stack.pop()
        if x in seen:
            continue
        seen.add(x)
        stack.extend(g.get(x, ()))
    return seen


_rev_cache = {}


def only_reached_from(facts, x, roots):
    """True when body x is one of `roots` or a non-public helper / closure all of whose callers (transitively) are: code that can
    only run as part of those entry points"""
    k = id(facts)
    if k not in _rev_cache:
        g = call_graph(facts)
        rev = {}
        for a, bs_ in g.items():
            for b_ in bs_:
                rev.setdefault(b_, set()).add(a)
        _rev_cache[k] = rev
    rev = _rev_cache[k]
    roots = set(roots)

    def rec(y, seen):
        if y in roots:
            return True
        if y in seen:
            return True
        seen.add(y)
        b_ = facts.bodies.get(y)
        if b_ is None or (b_.get("vis") == "pub" and "{closure" not in y):
            return False
        cs = rev.get(y, set())
        return bool(cs) and all(rec(c_, seen) for c_ in cs)
    return rec(x, set())
