"""Strings with separator structure ("a.b.c") for the abstract interpreter.

A string that is taken apart at a separator character is viewed as a list of N >= 1 segments, none of which contains the
separator.  The segment count is the same symbol the `split(sep).collect()` model uses (`len(parts0)`), and segment i is the same
value (`parts0[i]`), so that code which parses a token with `split_once` / `contains` / prefix slicing establishes the same facts
and compares the same values as code which collects the segments into a vector.

  Segs value:   Seq(kind="str", attrs={"segs": (parts name, i, j)})   - segments i..=j of the base string, j == None: up to the last
Operations: split_once(sep) / contains(sep) / find(sep).is_some() on such a value (or on a plain opaque string, which becomes the
base), len(), and prefix slicing `base[..k]` where k is the length of the first m segments with their separators."""
import re

from .absint import Aff, BoolV, Ptr, Seq, StrV, Struct, Sym, Top, UNIT, none, some, LEN_MAX
from . import models as MD
from .models import ret, deref

NEW = []


def smodel(pat):
    def deco(f):
        NEW.append((re.compile(pat), f))
        return f
    return deco


def _sep_of(I, st, v):
    x = I.resolve(st, v)
    if isinstance(x, Aff) and x.is_const():
        return chr(x.const)
    x = deref(I, st, v)
    if isinstance(x, StrV) and isinstance(x.s, str) and len(x.s) == 1:
        return x.s
    return None


def _nsym(parts):
    return "len(%s)" % parts


def seg(parts, i):
    return Seq("%s[%d]" % (parts, i), Aff.sym("len(%s[%d])" % (parts, i)), kind="str", attrs={"segs": (parts, i, i)})


def tail(st, parts, i, base_len):
    """segments i.. of the base; a single segment when the count is known to be i + 1"""
    lo, hi = st.bounds.get(_nsym(parts), (1, LEN_MAX))
    if hi == i + 1:
        return seg(parts, i)
    ln = base_len
    for k in range(i):
        ln = ln.sub(Aff.sym("len(%s[%d])" % (parts, k))).sub(Aff(1))
    return Seq("%s[%d..]" % (parts, i), ln, kind="str", attrs={"segs": (parts, i, None), "base_len": base_len})


def as_segs(I, st, v, sep):
    """(parts name, i, j, base_len) for a separable string, allocating a base for a plain opaque string; None otherwise"""
    x = deref(I, st, v)
    if not isinstance(x, Seq) or x.kind != "str":
        return None
    if "segs" in x.attrs:
        p, i, j = x.attrs["segs"]
        if st.facts.get(("segsep", p)) != sep:
            return None
        return p, i, j, x.attrs.get("base_len", x.length)
    if x.chunks is not None or x.elems is not None or x.attrs.get("b64_of") is not None:
        return None
    key = ("segsbase", x.name)
    p = st.facts.get(key)
    if p is None:
        n = st.facts.get("nsplit", 0)
        st.facts["nsplit"] = n + 1
        p = "parts%d" % n
        st.facts[key] = p
        st.facts[("segsep", p)] = sep
        st.facts[("segsof", p)] = x.name
        st.bounds.setdefault(_nsym(p), (1, LEN_MAX))
        # the segments lie side by side in one string: the lengths of any distinct segments add up to at most its length
        st.sumle["len(%s[" % p] = LEN_MAX
    elif st.facts.get(("segsep", p)) != sep:
        return None
    return p, 0, None, x.length


def _fork_more(I, st, parts, i):
    """[(state, True)] when there is a separator after segment i (count >= i + 2), [(state, False)] when segment i is the last"""
    n = Aff.sym(_nsym(parts))
    return MD.fork_bool(I, st, I.compare(st, "Ge", n, Aff(i + 2)))


@smodel(r"^core::str::<impl str>::split_once$")
def m_split_once(I, st, info, args, depth):
    sep = _sep_of(I, st, args[1])
    if sep is None:
        return None
    sg = as_segs(I, st, args[0], sep)
    if sg is None:
        return None
    p, i, j, bl = sg
    if j is not None:
        if j == i:
            return ret(st, none())
        return None
    out = []
    for s2, more in _fork_more(I, st, p, i):
        if more:
            out.append((s2, "return", some(Struct("(tuple)", None, {"0": seg(p, i), "1": tail(s2, p, i + 1, bl)}))))
        else:
            out.append((s2, "return", none()))
    return out


@smodel(r"^core::str::<impl str>::(contains|find)$")
def m_contains(I, st, info, args, depth):
    sep = _sep_of(I, st, args[1])
    if sep is None:
        return None
    x = deref(I, st, args[0])
    if not (isinstance(x, Seq) and "segs" in x.attrs):
        return None
    p, i, j = x.attrs["segs"]
    if st.facts.get(("segsep", p)) != sep:
        return None
    is_find = info["tdef"].endswith("find")
    if j is not None and j == i:
        return ret(st, none() if is_find else BoolV(False))
    if j is not None:
        return None
    out = []
    for s2, more in _fork_more(I, st, p, i):
        if is_find:
            out.append((s2, "return", some(Aff.sym("len(%s[%d])" % (p, i))) if more else none()))
        else:
            out.append((s2, "return", BoolV(more)))
    return out


@smodel(r"^core::ops::index::Index::index$|^core::str::<impl str>::get$")
def m_prefix(I, st, info, args, depth):
    """base[..k] / base[k..] where k is the length of the first m segments and their separators"""
    nm = info["name"]
    if not re.search(r"for str>|<str as|String as|<impl str>::get", nm):
        return None
    x = deref(I, st, args[0])
    if not (isinstance(x, Seq) and x.kind == "str"):
        return None
    p = st.facts.get(("segsbase", x.name))
    if p is None:
        return None
    rk, a, b = MD.range_parts(I, st, I.resolve(st, args[1]))
    if rk not in ("RangeTo", "RangeFrom"):
        return None
    k = I.resolve(st, b if rk == "RangeTo" else a)
    if not isinstance(k, Aff):
        return None
    # k == sum_{t < m} (len(parts[t]) + 1)  for some m
    m = k.const
    want = {"len(%s[%d])" % (p, t): 1 for t in range(m)} if m >= 0 else None
    if want is None or k.terms != want:
        return None
    lo, hi = st.bounds.get(_nsym(p), (1, LEN_MAX))
    is_get = "get" in info["tdef"]
    if lo < m + 1:
        # the m-th separator may not exist: the offset may exceed the string (or fall inside a segment)
        return None
    if rk == "RangeTo":
        chunks = []
        for t in range(m):
            chunks.append(("arg", seg(p, t)))
            chunks.append(("lit", st.facts.get(("segsep", p), ".")))
        val = Seq("%s[..%d]." % (p, m), k, None, chunks, kind="str")
    else:
        val = tail(st, p, m, x.length)
    return ret(st, some(val) if is_get else val)


@smodel(r"^core::iter::traits::iterator::Iterator::next$")
def m_split_next(I, st, info, args, depth):
    """raw.split(sep) pulled with next(): the i-th call yields segment i when the string has more than i segments; the segment count
    and the segments are the ones `split(sep).collect()` names"""
    p = I.resolve(st, args[0])
    x = deref(I, st, args[0])
    if not (isinstance(x, Struct) and x.adt == "str::Split" and "pos" in x.fields and x.fields["how"].s in ("split", "splitn")):
        return None
    limit = None
    if x.fields["how"].s == "splitn":
        lim = x.fields.get("limit")
        if not (isinstance(lim, Aff) and lim.is_const() and lim.const >= 1):
            return None
        limit = lim.const
    sep = _sep_of(I, st, x.fields["sep"])
    if sep is None or not isinstance(p, Ptr):
        return None
    sg = as_segs(I, st, x.fields["src"], sep)
    if sg is None or sg[1] != 0 or sg[2] is not None:
        return None
    parts = sg[0]
    i = x.fields["pos"].const
    if i < 0:
        return ret(st, none())      # exhausted

    def advance(s2, pos):
        I.store_to(s2, p, Struct("str::Split", None, dict(x.fields, pos=Aff(pos))))
    out = []
    n = Aff.sym(_nsym(parts))
    if limit is not None and i >= limit:
        return ret(st, none())
    for s2, more in MD.fork_bool(I, st, I.compare(st, "Ge", n, Aff(i + 1))):
        if more and limit is not None and i == limit - 1:
            # the last item splitn yields: everything from segment i on (one segment exactly when the string has no more than `limit`)
            advance(s2, -1)
            out.append((s2, "return", some(tail(s2, parts, i, sg[3]))))
        elif more:
            advance(s2, i + 1)
            out.append((s2, "return", some(seg(parts, i))))
        else:
            advance(s2, -1)
            out.append((s2, "return", none()))
    return out


def _chunks_of(I, st, v):
    x = deref(I, st, v)
    if isinstance(x, StrV) and isinstance(x.s, str):
        return [("lit", x.s)], Aff(len(x.s))
    if isinstance(x, Seq) and x.kind == "str" and x.chunks is not None:
        flat = []
        for c in x.chunks:
            inner = deref(I, st, c[1]) if c[0] == "arg" else None
            if isinstance(inner, Seq) and inner.chunks is not None:
                sub = _chunks_of(I, st, c[1])
                if sub is None:
                    return None
                flat.extend(sub[0])
            elif isinstance(inner, StrV) and isinstance(inner.s, str):
                flat.append(("lit", inner.s))
            else:
                flat.append(c)
        out = []
        for c in flat:
            if c[0] == "lit" and c[1] == "":
                continue
            if c[0] == "lit" and out and out[-1][0] == "lit":
                out[-1] = ("lit", out[-1][1] + c[1])
            else:
                out.append(c)
        return out, x.length
    return None


def _piece_len(I, st, c):
    if c[0] == "lit":
        return Aff(len(c[1]))
    inner = deref(I, st, c[1]) if c[0] == "arg" else None
    if isinstance(inner, Seq) and isinstance(inner.length, Aff):
        return inner.length
    return Aff.sym("len(%s)" % MD.describe(I, st, c[1]) if c[0] == "arg" else "len(?)")


def _rest(I, st, chunks, total, name):
    if all(c[0] == "lit" for c in chunks):
        return StrV("".join(c[1] for c in chunks))
    ln = Aff(0)
    for c in chunks:
        ln = ln.add(_piece_len(I, st, c))
    return Seq(name, ln, None, list(chunks), kind="str")


@smodel(r"^core::str::<impl str>::strip_prefix$")
def m_strip_prefix(I, st, info, args, depth):
    """`text.strip_prefix(p)` on a text pieced together from literal and symbolic pieces ("{V}.{P}."): a literal pattern is decided on
    a literal first piece; a symbolic pattern against a symbolic first piece is equal to it (the piece is removed), a proper prefix of
    it (a non-empty remainder of the piece stays in front) or not a prefix at all.  Pieces that render a version / purpose marker do
    not contain the separator '.', which the header table rule (C07.R3) establishes for the markers themselves."""
    ch = _chunks_of(I, st, args[0])
    if ch is None:
        return None
    chunks, total = ch
    pc = I.resolve(st, args[1])
    pat = deref(I, st, args[1])
    if isinstance(pc, Aff) and pc.is_const() and "char" in info["name"]:
        pat = StrV(chr(pc.const))
    base = MD.describe(I, st, args[0])
    if isinstance(pat, StrV) and isinstance(pat.s, str):
        t = pat.s
        if t == "":
            return ret(st, some(_rest(I, st, chunks, total, base)))
        if not chunks:
            return ret(st, none())
        c0 = chunks[0]
        if c0[0] == "lit":
            if c0[1].startswith(t):
                rest = [("lit", c0[1][len(t):])] + chunks[1:]
                rest = [c for c in rest if not (c[0] == "lit" and c[1] == "")]
                return ret(st, some(_rest(I, st, rest, total, "%s[%d..]" % (base, len(t)))))
            if len(c0[1]) >= len(t) or len(chunks) == 1:
                return ret(st, none())
            return None
        inner = deref(I, st, c0[1]) if c0[0] == "arg" else None
        if t.startswith(".") and isinstance(inner, (Seq, Sym)) and getattr(inner, "attrs", {}).get("nonempty_nodot"):
            return ret(st, none())
        return None
    if not isinstance(pat, (Seq, Sym)) or not chunks:
        return None
    c0 = chunks[0]
    if c0[0] == "lit":
        # a symbolic pattern against literal text: it is one of the text's prefixes, or none of them
        lit = c0[1]
        dotfree = isinstance(pat, Seq) and "segs" in pat.attrs and pat.attrs["segs"][1] == pat.attrs["segs"][2] \
            and st.facts.get(("segsep", pat.attrs["segs"][0])) in lit
        cands = []
        for k in range(len(lit), -1, -1):
            if dotfree and st.facts.get(("segsep", pat.attrs["segs"][0])) in lit[:k]:
                continue
            cands.append(k)
        if len(chunks) > 1 and cands and cands[0] == len(lit):
            return None     # the pattern may reach into the next, symbolic piece
        out = []
        cur = st
        for k in cands:
            nxt = None
            for s2, r in MD.str_eq(I, cur, args[1], StrV(lit[:k])):
                if r:
                    rest = ([("lit", lit[k:])] if lit[k:] else []) + chunks[1:]
                    out.append((s2, "return", some(_rest(I, s2, rest, total, "%s[%d..]" % (base, k)))))
                else:
                    nxt = s2
            if nxt is None:
                return out
            cur = nxt
        out.append((cur, "return", none()))
        return out
    first = deref(I, st, c0[1])
    if not isinstance(first, (Seq, Sym)):
        return None
    da, db = MD.describe(I, st, args[1]), MD.describe(I, st, c0[1])
    out = []
    s_eq = st.clone()
    s_eq.cond.append("%s == %s" % (da, db))
    s_eq.events.append(("equal", da, db))
    out.append((s_eq, "return", some(_rest(I, s_eq, chunks[1:], total, "%s[after %s]" % (base, db)))))
    s_pre = st.clone()
    s_pre.cond.append("%s is a proper prefix of %s" % (da, db))
    s_pre.events.append(("notequal", da, db))
    # a version / purpose marker (C07.R3: the markers are dot-free) or a segment of a text split at '.' has no '.' inside
    nodot = db in ("V", "P") or isinstance(first, Seq) and "segs" in first.attrs and first.attrs["segs"][1] == first.attrs["segs"][2] \
        and st.facts.get(("segsep", first.attrs["segs"][0])) == "."
    sfx = Seq("%s[len(%s)..]" % (db, da), Aff.sym("len(%s[len(%s)..])" % (db, da)), kind="str", attrs={"nonempty_nodot": True} if nodot else {})
    s_pre.bounds["len(%s[len(%s)..])" % (db, da)] = (1, LEN_MAX)
    out.append((s_pre, "return", some(_rest(I, s_pre, [("arg", sfx)] + chunks[1:], total, "%s[len(%s)..]" % (base, da)))))
    st.cond.append("%s is not a prefix of %s" % (da, db))
    st.events.append(("notequal", da, db))
    out.append((st, "return", none()))
    return out


def install():
    MD.MODELS[:] = [(p, f) for p, f in NEW] + [m for m in MD.MODELS if not (m[1].__module__ == __name__)]


install()
