"""Common check harness: violations, known findings, evidence, replay reports."""
import json
import os
import sys
import time

VERIF = os.path.dirname(os.path.dirname(os.path.abspath(__file__)))


class Violation:
    def __init__(self, rule, where, construct, msg, file=None, line=None, extra=None):
        self.rule = rule            # e.g. "C03.R1"
        self.where = where          # function def path / item / configuration (no line numbers)
        self.construct = construct  # short stable description of the offending construct
        self.msg = msg
        self.file = file
        self.line = line
        self.extra = extra or {}

    @property
    def key(self):
        return "%s|%s|%s" % (self.rule, self.where, self.construct)

    def to_json(self):
        return {"rule": self.rule, "where": self.where, "construct": self.construct, "key": self.key, "message": self.msg,
                "file": self.file, "line": self.line, "extra": self.extra}


class Result:
    """What a property module returns."""

    def __init__(self, prop, level):
        self.prop = prop
        self.level = level
        self.violations = []
        self.instances = {}      # rule -> list of instance descriptions (strings / dicts)
        self.floors = {}         # rule -> minimal number of instances (counted by hand on the pinned tree)
        self.notes = []
        self.assumptions = []
        self.trusted = []
        self.explanation = ""
        self.samples = []
        self.obligations = 0
        self.discharged = 0
        self.checker_cmd = ""
        self.extra = {}

    def inst(self, rule, desc):
        self.instances.setdefault(rule, []).append(desc)

    def floor(self, rule, n):
        self.floors[rule] = n

    def violate(self, rule, where, construct, msg, file=None, line=None, extra=None):
        v = Violation(rule, where, construct, msg, file, line, extra)
        # de-duplicate by key
        if all(x.key != v.key for x in self.violations):
            self.violations.append(v)
        return v

    def oblige(self, ok=True, n=1):
        self.obligations += n
        if ok:
            self.discharged += n


def load_known():
    p = os.path.join(VERIF, "known_findings.json")
    try:
        with open(p) as fh:
            d = json.load(fh)
    except OSError:
        return {}
    out = {}
    for f in d.get("findings", []):
        if f.get("status") == "known" and "key" in f:
            out[f["key"]] = f
    return out


def finish(res, tier, t0, seed=0):
    """Apply floors and known findings, print, write evidence and reports, return exit code."""
    prop = res.prop
    # floors: fail closed when a rule matched fewer instances than counted on the pinned tree
    for rule, n in sorted(res.floors.items()):
        got = len(res.instances.get(rule, []))
        if got < n:
            res.violate(rule, "(rule instances)", "floor", "rule %s matched %d instances, expected at least %d - an anchor of the rule disappeared (fail closed)" % (rule, got, n))
    known = load_known()
    new = []
    kf = []
    for v in res.violations:
        if v.key in known and known[v.key].get("property") == prop:
            kf.append((v, known[v.key]))
        else:
            new.append(v)
    rdir = os.path.join(os.environ.get("PV_EVIDENCE_DIR") + "_reports" if os.environ.get("PV_EVIDENCE_DIR") else os.path.join(VERIF, "reports"), prop)
    os.makedirs(rdir, exist_ok=True)
    for fn in os.listdir(rdir):
        try:
            os.remove(os.path.join(rdir, fn))
        except OSError:
            pass
    for v, k in kf:
        print("KNOWN-FINDING: property=%s %s [%s]" % (prop, k.get("what", v.msg), v.key))
    for i, v in enumerate(new):
        path = os.path.join(rdir, "%d.json" % i)
        with open(path, "w") as fh:
            json.dump({"property": prop, "tier": tier, **v.to_json()}, fh, indent=1)
        loc = ""
        if v.file:
            loc = " at %s:%s" % (v.file, v.line)
        print("%s %s: %s%s -- %s" % (v.rule, v.where, v.construct, loc, v.msg))
        print("VIOLATION property=%s replay=%s" % (prop, path))
    wall = time.time() - t0
    n_inst = sum(len(x) for x in res.instances.values())
    cov = {
        "explanation": res.explanation,
        "rule_instances": {r: len(x) for r, x in sorted(res.instances.items())},
        "rule_floors": res.floors,
        "instances_total": n_inst,
        "samples": (res.samples or [x for r in sorted(res.instances) for x in res.instances[r][:2]])[:40],
        "trusted_base": res.trusted,
        "known_findings_printed": [v.key for v, _ in kf],
        "notes": res.notes,
    }
    cov.update(res.extra)
    if res.level == "proof":
        failed = res.obligations - res.discharged
        if failed and not new and kf:
            # every failed obligation belongs to a listed known finding (printed as KNOWN-FINDING above): they are
            # reported separately and are not part of the proof claim
            cov["obligations_failed_under_known_findings"] = failed
            cov["obligations"] = res.discharged
        else:
            cov["obligations"] = res.obligations
        cov["discharged"] = res.discharged
        cov["checker_cmd"] = res.checker_cmd or ("./check %s --tier %s" % (prop, tier))
    ev = {
        "property_id": prop,
        "tier": tier,
        "seed": seed,
        "level": res.level,
        "coverage": cov,
        "assumptions": res.assumptions,
        "wall_s": round(wall, 2),
        "violations": len(new),
    }
    evdir = os.environ.get("PV_EVIDENCE_DIR") or os.path.join(VERIF, "evidence")
    os.makedirs(evdir, exist_ok=True)
    with open(os.path.join(evdir, prop + ".json"), "w") as fh:
        json.dump(ev, fh, indent=1)
    print("%s %s: %d rule instances, %d violation(s), %d known finding(s), %.1fs" % (prop, tier, n_inst, len(new), len(kf), wall))
    return 1 if new else 0
