"""Finding: one evaluated rule instance (shared by the rule modules)."""


class Finding:
    def __init__(self, rule, ok, where, construct, msg, file=None, line=None, desc=None):
        self.rule, self.ok, self.where, self.construct, self.msg, self.file, self.line = rule, ok, where, construct, msg, file, line
        self.desc = desc or construct
