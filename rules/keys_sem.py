"""Key admission: which caller-supplied keys the typed key constructors take.

The only key constructor with a gate is `PasetoAsymmetricPublicKey::<V3, Public>::try_from(&Key<49>)`: the specification (Version3.md) requires
a v3 public key to be a compressed P-384 point, i.e. SEC1 tag byte 0x02 (even y) or 0x03 (odd y) followed by the 48-byte x coordinate.  The
constructor is interpreted with a symbolic first byte; the set of tag values on its accepting and refusing paths must be exactly {2, 3} and its
complement - refusing tag 3 turns away every second valid key (tokens signed with it can never be verified), admitting another tag lets a
non-compressed encoding through to the verifier."""
import re

from . import absint as A
from . import mir as M
from . import models as MD
from .protocol_base import Finding

SEC1_COMPRESSED = frozenset((2, 3))


def _admitted(st, sym):
    lo, hi = st.bounds.get(sym, (0, 255))
    excl = set(st.facts.get(("excl", sym), ()))
    return set(t for t in range(max(lo, 0), min(hi, 255) + 1) if t not in excl)


def v3_public_key_admission(facts, rule):
    bs = [b for bid, b in facts.bodies.items()
          if b.get("impl_trait", "").startswith("core::convert::TryFrom") and re.search(r"PasetoAsymmetricPublicKey<'a, .*V3, .*Public>", b.get("impl_self", "")) and b.get("name") == "try_from" and "{closure" not in bid]
    if len(bs) != 1:
        return [Finding(rule, False, "PasetoAsymmetricPublicKey::<V3, Public>::try_from", "anchor missing", "expected one TryFrom constructor of the v3 public key, found %d" % len(bs))]
    b = bs[0]
    v = M.view(facts, b)
    file, line = v.file(), b["line"]
    # each of the 256 values of the first byte in turn (a concrete byte, the 48 coordinate bytes symbolic): exact for comparisons, ranges,
    # patterns, masks and table lookups alike
    acc, ref = set(), set()
    for t in range(256):
        I = A.Interp(facts, MD.MODELS)
        st = A.State()
        elems = [A.Aff(t, ty="u8")] + [A.Sym("x%d" % i) for i in range(48)]
        key = A.Struct("crate::core::key::keys::Key", None, {"0": A.Seq("public_key", A.Aff(49), elems, kind="array")})
        outs = I.run(b, [A.Ptr(st.new_cell(key))], st)
        und = [o for o in outs if o.kind not in ("return",) or o.state.unmodelled or any("undecided" in n for n in o.state.notes)]
        kinds = set()
        for o in outs:
            r = I.resolve(o.state, o.value)
            kinds.add(r.variant if isinstance(r, A.Struct) and r.variant in ("Ok", "Err") else "?")
        if und or not outs or "?" in kinds or len(kinds) != 1:
            o = und[0] if und else None
            why = "first byte %d: " % t + ("outcomes %s" % sorted(kinds) if o is None else "%s %s; unmodelled %s; when [%s]" % (o.kind, o.value if o.kind != "return" else "", o.state.unmodelled[:2], " & ".join(o.state.cond)[-160:]))
            return [Finding(rule, None, b["id"], "v3 public key constructor not decided by the abstract interpreter", why, file, line)]
        (acc if kinds == {"Ok"} else ref).add(t)
    out = []
    lost = sorted(SEC1_COMPRESSED & ref)
    extra = sorted(acc - SEC1_COMPRESSED)
    out.append(Finding(rule, not lost, b["id"], "valid compressed P-384 keys are accepted",
                       "a key whose SEC1 tag byte is %s is refused: every valid v3 public key starts with 0x02 (even y) or 0x03 (odd y), tokens signed with the refused half can never be verified" % lost,
                       file, line, "v3 public key constructor accepts every key with SEC1 tag 2 and 3 (tag values on refusing paths: the other 254)"))
    out.append(Finding(rule, not extra, b["id"], "only compressed P-384 points are accepted",
                       "a key whose first byte is %s is accepted: the specification admits compressed points (tag 2 / 3) only" % (extra[:6],),
                       file, line, "v3 public key constructor refuses every first byte other than 2 and 3"))
    return out
