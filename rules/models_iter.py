"""Concrete collections and lazy iterators for the abstract interpreter.

A *concrete* collection has a known, finite list of entries whose members may themselves be symbolic (a map with the
entries {"a": expected_a, "c": expected_c}; an array of pieces; the range 0..8).  Iterating such a collection is done
faithfully: adaptors (map, filter, enumerate, ...) are lazy, terminal operations (next, for_each, try_for_each, fold, all,
any, find, collect, ...) pull element by element and interpret the closures they are given, forking on symbolic results.
How a function is *written* (for loop, iterator chain, helper functions) then makes no difference to what is observed:
the calls it makes, their arguments and its result.

Values
  MapV   Struct("MapV",  {"entries": Seq(elems=[tuple(key, value)..]), "name": StrV})
  IterV  Struct("IterV", {"items": Seq(elems=[..]), "pos": Aff, "ops": Seq(elems=[op..]), "byref": BoolV})
         op = Struct("op", {"k": StrV(kind), "f": closure / None, "n": Aff})
All models here return None when their receiver is not one of these values, so that the older models keep deciding
symbolic sequences."""
import re

from .absint import (Aff, BoolV, FnV, Ptr, Seq, StrV, Struct, Sym, SymBool, Top, UNIT, err, none, ok, some)
from . import mir as M
from . import models as MD
from .models import model, ret, deref, bool_forks, str_key

NEW = []


def imodel(pat):
    def deco(f):
        NEW.append((re.compile(pat), f))
        return f
    return deco


# ------------------------------------------------------------------ constructors
def mapv(name, entries):
    """entries: list of (key Val, value Val)"""
    return Struct("MapV", None, {"entries": Seq(name + ".entries", Aff(len(entries)), [Struct("(tuple)", None, {"0": k, "1": v}) for k, v in entries], kind="vec"), "name": StrV(name)})


def is_map(v):
    return isinstance(v, Struct) and v.adt == "MapV"


def is_iter(v):
    return isinstance(v, Struct) and v.adt == "IterV"


def iterv(items, byref=False, ops=None, pos=0, pairs=False):
    """pairs: the items are map entries; by reference they are yielded as a tuple of references (&K, &V)"""
    return Struct("IterV", None, {"items": Seq("items", Aff(len(items)), list(items), kind="vec"), "pos": Aff(pos), "ops": Seq("ops", Aff(len(ops or [])), list(ops or []), kind="vec"),
                                  "byref": BoolV(byref), "pairs": BoolV(pairs)})


def _op(kind, f=None, n=0):
    return Struct("op", None, {"k": StrV(kind), "f": f if f is not None else UNIT, "n": Aff(n)})


depth_guard = {}


def as_iter(I, st, v):
    """IterV view of v (IterV itself, a MapV, a SliceIter over known elements, a Seq with known elements, a constant range) or None"""
    p = I.resolve(st, v)
    x = deref(I, st, v)
    if is_iter(x):
        return x
    if is_map(x):
        byref = isinstance(p, Ptr)
        return iterv(_entries(x), byref=byref, pairs=True)
    if isinstance(x, Struct) and x.adt == "SliceIter":
        sq = x.fields["seq"]
        return iterv(sq.elems[x.fields["pos"].const:], byref=True)
    if isinstance(x, Seq) and x.elems is not None and x.kind in ("vec", "array", "bytes", "slice"):
        return iterv(x.elems, byref=isinstance(p, Ptr))
    if isinstance(x, Struct) and x.adt.startswith("crate::") and not depth_guard.get("unroll"):
        # a crate-local iterator type: its own `next` is interpreted until it yields None - when every step is deterministic (a counter
        # with a known start), the items it yields are known
        nb = [b for b in I.facts.bodies.values() if b.get("name") == "next" and (b.get("impl_trait") or "").startswith("core::iter::traits::iterator::Iterator")
              and re.match(re.escape(x.adt) + r"(<|$)", b.get("impl_self") or "")]
        if len(nb) == 1:
            depth_guard["unroll"] = True
            try:
                cell = st.new_cell(x)
                items = []
                for _i in range(65):
                    outs = list(I._call_body(st, nb[0], [Ptr(cell)], 1))
                    if len(outs) != 1 or outs[0][1] != "return" or outs[0][0] is not st:
                        import os
                        if os.environ.get("PV_DEBUG_ITER"):
                            print("UNROLL stop", len(outs), [(o[1], o[0] is st) for o in outs], [o[0].cond[-2:] for o in outs])
                        items = None
                        break
                    r = I.resolve(st, outs[0][2])
                    if isinstance(r, Struct) and r.variant == "None":
                        break
                    if not (isinstance(r, Struct) and r.variant == "Some"):
                        items = None
                        break
                    items.append(r.fields["0"])
                else:
                    items = None
            finally:
                depth_guard.pop("unroll", None)
            if items is not None:
                return iterv(items)
    if isinstance(x, Struct) and x.adt.endswith("ops::range::Range") and "start" in x.fields:
        a, b = I.resolve(st, x.fields["start"]), I.resolve(st, x.fields["end"])
        if isinstance(a, Aff) and isinstance(b, Aff) and a.is_const() and b.is_const() and b.const - a.const <= 64:
            return iterv([Aff(i, ty=a.ty) for i in range(a.const, b.const)])
    return None


def _entries(m):
    return list(m.fields["entries"].elems)


def _same_key(I, st, a, b):
    """True / False / None (unknown) for key equality"""
    ka, kb = str_key(I, st, a), str_key(I, st, b)
    if ka[0] == "const" and kb[0] == "const":
        return ka[1] == kb[1]
    if ka == kb and ka[0] == "sym":
        return True
    return None


def _store_iter(I, st, ptr, it):
    if isinstance(ptr, Ptr):
        g = 0
        # the iterator object may sit behind a &mut chain
        while isinstance(ptr, Ptr) and isinstance(I.resolve(st, I.load(st, ptr)), Ptr) and g < 4:
            ptr = I.resolve(st, I.load(st, ptr))
            g += 1
        I.store_to(st, ptr, it)


# ------------------------------------------------------------------ pulling
def pull(I, st, it, depth):
    """one step of a lazy iterator: list of (state, kind, item-or-None, iterator after the step)  kind: 'item' | 'end' | 'panic' ..."""
    items = it.fields["items"].elems
    ops = it.fields["ops"].elems
    pos = it.fields["pos"].const
    byref = it.fields["byref"].b
    out = []
    work = [(st, pos, list(ops))]
    while work:
        s0, p, ops0 = work.pop()
        if p >= len(items):
            out.append((s0, "end", None, _with(it, p, ops0)))
            continue
        raw = items[p]
        if byref and it.fields.get("pairs", BoolV(False)).b and isinstance(raw, Struct) and "1" in raw.fields:
            val = Struct("(tuple)", None, {"0": Ptr(s0.new_cell(raw.fields["0"]), ()), "1": Ptr(s0.new_cell(raw.fields["1"]), ())})
        else:
            val = Ptr(s0.new_cell(raw), ()) if byref and not isinstance(I.resolve(s0, raw), Ptr) else raw
        # run the element through the adaptor chain
        conts = [(s0, val, 0, list(ops0), True)]
        while conts:
            s1, v1, oi, ops1, alive = conts.pop()
            if oi >= len(ops1):
                out.append((s1, "item", v1, _with(it, p + 1, ops1)))
                continue
            op = ops1[oi]
            k = op.fields["k"].s
            f = op.fields["f"]
            if k == "map":
                for s2, kind, r in I.call_value(s1, f, [v1], depth):
                    if kind != "return":
                        out.append((s2, kind, r, _with(it, p + 1, ops1)))
                    else:
                        conts.append((s2, r, oi + 1, ops1, True))
            elif k in ("filter", "skip_while", "take_while"):
                arg = Ptr(s1.new_cell(v1), ())
                for s2, kind, r in I.call_value(s1, f, [arg], depth):
                    if kind != "return":
                        out.append((s2, kind, r, _with(it, p + 1, ops1)))
                        continue
                    for s3, t in bool_forks(I, s2, r, "iterator predicate"):
                        if k == "filter":
                            if t:
                                conts.append((s3, v1, oi + 1, ops1, True))
                            else:
                                work.append((s3, p + 1, ops1))
                        elif k == "take_while":
                            if t:
                                conts.append((s3, v1, oi + 1, ops1, True))
                            else:
                                out.append((s3, "end", None, _with(it, len(items), ops1)))
                        else:
                            if t:
                                work.append((s3, p + 1, ops1))
                            else:
                                ops2 = list(ops1)
                                ops2[oi] = _op("id")
                                conts.append((s3, v1, oi + 1, ops2, True))
            elif k == "filter_map":
                for s2, kind, r in I.call_value(s1, f, [v1], depth):
                    if kind != "return":
                        out.append((s2, kind, r, _with(it, p + 1, ops1)))
                        continue
                    for s3, o in MD.as_enum(I, s2, r, "core::option::Option"):
                        if o.variant == "Some":
                            conts.append((s3, o.fields.get("0"), oi + 1, ops1, True))
                        else:
                            work.append((s3, p + 1, ops1))
            elif k == "inspect":
                arg = Ptr(s1.new_cell(v1), ())
                for s2, kind, r in I.call_value(s1, f, [arg], depth):
                    if kind != "return":
                        out.append((s2, kind, r, _with(it, p + 1, ops1)))
                    else:
                        conts.append((s2, v1, oi + 1, ops1, True))
            elif k == "enumerate":
                n = op.fields["n"].const
                ops2 = list(ops1)
                ops2[oi] = _op("enumerate", n=n + 1)
                conts.append((s1, Struct("(tuple)", None, {"0": Aff(n), "1": v1}), oi + 1, ops2, True))
            elif k == "skip":
                n = op.fields["n"].const
                if n > 0:
                    ops2 = list(ops1)
                    ops2[oi] = _op("skip", n=n - 1)
                    work.append((s1, p + 1, ops2))
                else:
                    conts.append((s1, v1, oi + 1, ops1, True))
            elif k == "take":
                n = op.fields["n"].const
                if n <= 0:
                    out.append((s1, "end", None, _with(it, len(items), ops1)))
                else:
                    ops2 = list(ops1)
                    ops2[oi] = _op("take", n=n - 1)
                    conts.append((s1, v1, oi + 1, ops2, True))
            elif k in ("id", "cloned", "copied"):
                conts.append((s1, deref(I, s1, v1) if k != "id" and isinstance(I.resolve(s1, v1), Ptr) else v1, oi + 1, ops1, True))
            else:
                s1.unmodelled.append("iterator adaptor " + k)
                out.append((s1, "item", Top("adaptor " + k), _with(it, p + 1, ops1)))
    return out


def _with(it, pos, ops):
    return Struct("IterV", None, {"items": it.fields["items"], "pos": Aff(pos), "ops": Seq("ops", Aff(len(ops)), list(ops), kind="vec"), "byref": it.fields["byref"],
                                  "pairs": it.fields.get("pairs", BoolV(False))})


def drain(I, st, it, depth, step, init, limit=64):
    """terminal operations: fold-like traversal.  step(state, acc, item) -> list of (state, 'cont'|'stop'|other kind, acc-or-value)
    returns list of (state, kind, acc) with kind 'done' (exhausted), 'stop' (short-circuited) or a panic / abort kind"""
    out = []
    work = [(st, it, init, 0)]
    while work:
        s0, it0, acc, n = work.pop()
        if n > limit:
            s0.notes.append("undecided: iterator longer than the unrolling limit")
            out.append((s0, "done", acc))
            continue
        for s1, kind, item, it1 in pull(I, s0, it0, depth):
            if kind == "end":
                out.append((s1, "done", acc))
            elif kind != "item":
                out.append((s1, kind, item))
            else:
                for s2, k2, a2 in step(s1, acc, item):
                    if k2 == "cont":
                        work.append((s2, it1, a2, n + 1))
                    else:
                        out.append((s2, k2, a2))
    return out


SUBSEQ = None     # (interp, state, seq, a, b) -> the slice seq[a..b] under its canonical name (set by rules/psai.py); default below


def _subseq(I, st, sq, a, b):
    if SUBSEQ is not None:
        return SUBSEQ(I, st, sq, a, b)
    if a == Aff(0) and b == sq.length:
        return sq
    return Seq("%s[%r..%r]" % (sq.name, a, b), b.sub(a), kind=sq.kind)


@imodel(r"^core::str::<impl str>::bytes$")
def m_str_bytes(I, st, info, args, depth):
    """the bytes of a text, traversed by value: the same byte sequence"""
    x = deref(I, st, args[0])
    return ret(st, x) if isinstance(x, (StrV, Seq)) else None


def _cursor(x):
    return isinstance(x, Struct) and x.adt == "ByteCursor"


@imodel(r"^core::iter::traits::collect::IntoIterator::into_iter$")
def m_cursor_new(I, st, info, args, depth):
    """an opaque byte array of known length traversed by value (`digest.into_iter()`): a cursor over it; `by_ref().take(n).collect()`
    cuts the next n bytes off, `collect()` the rest"""
    if info["def"] in I.facts.bodies:
        return None
    x = deref(I, st, args[0])
    if isinstance(x, Seq) and x.elems is None and x.chunks is None and x.kind in ("array", "bytes") and x.length.is_const() and not x.attrs.get("top") \
            and not isinstance(I.resolve(st, args[0]), Ptr) and re.search(r"GenericArray<|\[u8; ", info["name"]):
        return ret(st, Struct("ByteCursor", None, {"seq": x, "pos": Aff(0), "take": Aff(-1), "of": UNIT}))
    return None


@imodel(r"^core::iter::traits::iterator::Iterator::(by_ref|take|collect)$|^core::iter::traits::collect::FromIterator::from_iter$")
def m_cursor_ops(I, st, info, args, depth):
    k = info["tdef"].split("::")[-1]
    p = I.resolve(st, args[0])
    x = deref(I, st, args[0])
    if not _cursor(x):
        return None
    if k == "by_ref":
        return ret(st, args[0])
    if k == "take":
        n = I.resolve(st, args[1])
        if not (isinstance(n, Aff) and n.is_const()) or x.fields["take"].const >= 0:
            return None
        # `cursor.by_ref().take(n)`: remembers where the cursor lives so that drawing from it advances the cursor
        return ret(st, Struct("ByteCursor", None, {"seq": x.fields["seq"], "pos": x.fields["pos"], "take": n, "of": p if isinstance(p, Ptr) else UNIT}))
    sq, pos, take = x.fields["seq"], x.fields["pos"], x.fields["take"].const
    owner = x.fields["of"]
    if isinstance(owner, Ptr):
        cur = deref(I, st, owner)
        if _cursor(cur):
            pos = cur.fields["pos"]
    end = sq.length if take < 0 else Aff(min(pos.const + take, sq.length.const))
    out = _subseq(I, st, sq, pos, end)
    if isinstance(owner, Ptr) and _cursor(deref(I, st, owner)):
        cur = deref(I, st, owner)
        I.store_to(st, owner, Struct("ByteCursor", None, dict(cur.fields, pos=end)))
    elif isinstance(p, Ptr):
        I.store_to(st, p, Struct("ByteCursor", None, dict(x.fields, pos=end)))
    return ret(st, out)


# ------------------------------------------------------------------ sources
@imodel(r"^core::iter::traits::collect::IntoIterator::into_iter$|^core::option::Option::<T>::(iter|iter_mut)$|^std::collections::hash::map::HashMap::<K, V, S(, A)?>::(iter|iter_mut|into_iter|drain)$|^core::slice::<impl \[T\]>::iter$|^alloc::vec::Vec::<T, A>::(iter|drain)$|^serde_json::map::Map::<.*>::(iter|into_iter)$")
def m_into_iter(I, st, info, args, depth):
    if info["def"] in I.facts.bodies:
        return None
    x = deref(I, st, args[0])
    if is_iter(x):
        return ret(st, x)
    if "core::option::Option<" in info["name"].split(" as ")[0] or (isinstance(x, Struct) and x.adt == "core::option::Option") or (isinstance(x, Sym) and x.attrs.get("adt") == "core::option::Option"):
        # an Option as a zero- or one-element sequence
        byref = isinstance(I.resolve(st, args[0]), Ptr)
        return [(s2, "return", iterv([v.fields["0"]] if v.variant == "Some" else [], byref=byref)) for s2, v in MD.as_enum(I, st, args[0], "core::option::Option")]
    if is_map(x):
        byref = isinstance(I.resolve(st, args[0]), Ptr) or info["tdef"].endswith("::iter") or info["tdef"].endswith("::iter_mut")
        return ret(st, iterv(_entries(x), byref=False if not byref else True, pairs=True))
    if isinstance(x, Seq) and x.elems is not None and x.kind in ("vec", "array", "bytes", "slice") and info["tdef"].endswith("IntoIterator::into_iter"):
        # by value or by reference is a matter of the receiver's type (`[T; N]` / `Vec<T>` yield values, `&[T; N]` / `&Vec<T>` / `&[T]` references)
        m_ = re.match(r"^<(.*?) as core::iter::traits::collect::IntoIterator>::into_iter$", info["name"])
        selfty = m_.group(1) if m_ else (info.get("gargs") or [""])[0]
        if selfty:
            return ret(st, iterv(x.elems, byref=selfty.startswith("&")))
    return None


@imodel(r"^std::collections::hash::map::HashMap::<K, V, S(, A)?>::(keys|values|into_keys|into_values)$|^serde_json::map::Map::<.*>::(keys|values)$")
def m_keys(I, st, info, args, depth):
    x = deref(I, st, args[0])
    if not is_map(x):
        return None
    which = "0" if "keys" in info["tdef"] else "1"
    byref = not info["tdef"].split("::")[-1].startswith("into_")
    return ret(st, iterv([e.fields[which] for e in _entries(x)], byref=byref))


def materialise(I, st, it, depth):
    """the items a lazy iterator yields, as a list, when drawing it to its end is deterministic (one path, no failure); None otherwise"""
    outs = drain(I, st, it, depth, lambda s, a, item: [(s, "cont", a + [item])], [])
    if len(outs) != 1 or outs[0][1] != "done" or outs[0][0] is not st:
        return None
    return outs[0][2]


def _as_seq(I, st, v, depth):
    """a sequence value for what `v` yields when traversed: a lazy iterator drawn to its end, or the (possibly opaque) sequence itself"""
    x = deref(I, st, v)
    if isinstance(x, StrV) or (isinstance(x, Seq) and not x.attrs.get("top") and not (x.elems is not None and any(isinstance(deref(I, st, e_), (Seq, StrV, Struct)) for e_ in x.elems))):
        return x
    it = as_iter(I, st, v)
    if it is not None:
        items = materialise(I, st, it, depth)
        if items is None:
            return None
        items = [deref(I, st, i_) if it.fields["byref"].b and isinstance(I.resolve(st, i_), Ptr) else i_ for i_ in items]
        return Seq("items", Aff(len(items)), items, kind="bytes" if all(isinstance(I.resolve(st, i_), (Aff, MD.Bits)) for i_ in items) else "vec")
    return None


@imodel(r"^core::array::<impl \[T; N\]>::map$")
def m_array_map(I, st, info, args, depth):
    """[a, b, c].map(f): the array of the results, in order (when every call has one outcome)"""
    x = deref(I, st, args[0])
    if not (isinstance(x, Seq) and x.elems is not None):
        return None
    out = []
    for e in x.elems:
        rs = list(I.call_value(st, args[1], [e], depth))
        if len(rs) != 1 or rs[0][1] != "return" or rs[0][0] is not st:
            return None
        out.append(rs[0][2])
    return ret(st, Seq("mapped@%d" % info["ln"], Aff(len(out)), out, kind="array"))


@imodel(r"^core::iter::traits::iterator::Iterator::(flat_map|flatten)$")
def m_flat_map(I, st, info, args, depth):
    """every item is turned into a sequence (by the closure, or is one already); the result is those sequences one after the other"""
    k = info["tdef"].split("::")[-1]
    outer = _as_seq(I, st, args[0], depth)
    if outer is None or outer.elems is None:
        return None
    chunks, ln = [], Aff(0)
    byref = isinstance(deref(I, st, args[0]), Seq) or (is_iter(deref(I, st, args[0])) and deref(I, st, args[0]).fields["byref"].b)
    for e in outer.elems:
        v = e
        if k == "flat_map":
            arg = Ptr(st.new_cell(e), ()) if byref and not isinstance(I.resolve(st, e), Ptr) else e
            rs = list(I.call_value(st, args[1], [arg], depth))
            if len(rs) != 1 or rs[0][1] != "return" or rs[0][0] is not st:
                return None
            v = rs[0][2]
        sq = _as_seq(I, st, v, depth)
        if sq is None:
            return None
        c, l = MD.seq_chunks(I, st, sq)
        chunks += c
        ln = ln.add(l)
    return ret(st, Seq("flat_map@%d" % info["ln"], ln, None, chunks, kind="vec"))


# ------------------------------------------------------------------ adaptors
ADAPT = r"^core::iter::traits::iterator::Iterator::(map|filter|filter_map|enumerate|skip|take|skip_while|take_while|inspect|cloned|copied|by_ref|peekable|fuse)$"


@imodel(ADAPT)
def m_adapt(I, st, info, args, depth):
    k = info["tdef"].split("::")[-1]
    it = as_iter(I, st, args[0])
    if it is None and k in ("cloned", "copied", "fuse") and isinstance(deref(I, st, args[0]), (Seq, StrV)):
        return ret(st, deref(I, st, args[0]))     # an opaque element sequence traversed by value: the same elements
    if it is None:
        return None
    if k in ("by_ref", "fuse"):
        return ret(st, args[0] if k == "by_ref" else it)
    if k == "peekable":
        return None
    n = 0
    f = None
    if k in ("skip", "take"):
        nv = I.resolve(st, args[1])
        if not (isinstance(nv, Aff) and nv.is_const()):
            return None
        n = nv.const
    elif k in ("map", "filter", "filter_map", "skip_while", "take_while", "inspect"):
        f = args[1]
    ops = list(it.fields["ops"].elems) + [_op(k, f, n)]
    return ret(st, _with(it, it.fields["pos"].const, ops))


@imodel(r"^core::iter::traits::iterator::Iterator::(chain|zip|rev)$|^core::iter::traits::double_ended::DoubleEndedIterator::rev$")
def m_adapt2(I, st, info, args, depth):
    k = info["tdef"].split("::")[-1]
    it = as_iter(I, st, args[0])
    if it is None and k == "chain":
        # two opaque element sequences (slice.iter() is modelled by the slice itself): the chained traversal is their concatenation
        a, b = deref(I, st, args[0]), deref(I, st, args[1])
        okv = lambda x: (isinstance(x, Seq) and not x.attrs.get("top")) or (isinstance(x, Sym) and not x.attrs.get("adt"))
        if okv(a) and okv(b) and (isinstance(a, Seq) or isinstance(b, Seq)):
            c1, l1 = MD.seq_chunks(I, st, a)
            c2, l2 = MD.seq_chunks(I, st, b)
            return ret(st, Seq("chain", l1.add(l2), None, c1 + c2, kind="vec"))
    if k == "chain" and (it is None or it.fields["ops"].elems or as_iter(I, st, args[1]) is None or as_iter(I, st, args[1]).fields["ops"].elems):
        # a lazy side with adaptors still pending, or an opaque side: each side as the sequence it yields, one after the other
        a, b = _as_seq(I, st, args[0], depth), _as_seq(I, st, args[1], depth)
        if a is not None and b is not None:
            c1, l1 = MD.seq_chunks(I, st, a)
            c2, l2 = MD.seq_chunks(I, st, b)
            return ret(st, Seq("chain", l1.add(l2), None, c1 + c2, kind="vec"))
        return None
    if it is None or it.fields["ops"].elems:
        return None
    items = it.fields["items"].elems[it.fields["pos"].const:]
    if k == "rev":
        return ret(st, iterv(list(reversed(items)), byref=it.fields["byref"].b))
    other = as_iter(I, st, args[1])
    if other is None or other.fields["ops"].elems or other.fields["byref"].b != it.fields["byref"].b:
        return None
    oitems = other.fields["items"].elems[other.fields["pos"].const:]
    if k == "chain":
        return ret(st, iterv(items + oitems, byref=it.fields["byref"].b))
    if k == "zip" and not it.fields["byref"].b:
        return ret(st, iterv([Struct("(tuple)", None, {"0": a, "1": b}) for a, b in zip(items, oitems)]))
    return None


# ------------------------------------------------------------------ terminals
@imodel(r"^core::iter::traits::iterator::Iterator::next$")
def m_next(I, st, info, args, depth):
    p = I.resolve(st, args[0])
    x = deref(I, st, args[0])
    if not is_iter(x):
        return None
    out = []
    for s1, kind, item, it1 in pull(I, st, x, depth):
        _store_iter(I, s1, p, it1)
        if kind == "end":
            out.append((s1, "return", none()))
        elif kind == "item":
            out.append((s1, "return", some(item)))
        else:
            out.append((s1, kind, item))
    return out


def _finish(outs, done, stop=None):
    res = []
    for s, k, a in outs:
        if k == "done":
            res.append((s, "return", done(s, a)))
        elif k == "stop":
            res.append((s, "return", (stop or done)(s, a)))
        else:
            res.append((s, k, a))
    return res


@imodel(r"^core::iter::traits::iterator::Iterator::(for_each|try_for_each|fold|try_fold|all|any|find|find_map|position|count|last|collect|nth)$|^core::iter::traits::collect::FromIterator::from_iter$|^core::iter::traits::collect::Extend::extend$")
def m_terminal(I, st, info, args, depth):
    k = info["tdef"].split("::")[-1]
    recv = args[1] if k == "extend" else args[0]
    it = as_iter(I, st, recv)
    if it is None:
        return None
    p = I.resolve(st, recv)
    if k == "for_each":
        def step(s, acc, item):
            return [(s2, "cont" if kind == "return" else kind, acc if kind == "return" else v) for s2, kind, v in I.call_value(s, args[1], [item], depth)]
        return _finish(drain(I, st, it, depth, step, UNIT), lambda s, a: UNIT)
    if k in ("try_for_each", "try_fold"):
        f = args[1] if k == "try_for_each" else args[2]
        init = UNIT if k == "try_for_each" else args[1]

        def step(s, acc, item):
            res = []
            for s2, kind, v in I.call_value(s, f, [item] if k == "try_for_each" else [acc, item], depth):
                if kind != "return":
                    res.append((s2, kind, v))
                    continue
                adt = "core::result::Result" if "Result<" in info["name"] or True else "core::option::Option"
                rv = deref(I, s2, v)
                if isinstance(rv, Struct) and rv.adt == "core::option::Option":
                    adt = "core::option::Option"
                for s3, e in MD.as_enum(I, s2, v, adt):
                    if e.variant in ("Ok", "Some"):
                        res.append((s3, "cont", e.fields.get("0", UNIT)))
                    else:
                        res.append((s3, "stop", e))
            return res
        wrap_ok = ok
        return _finish(drain(I, st, it, depth, step, init), lambda s, a: wrap_ok(a), lambda s, a: a)
    if k == "fold":
        def step(s, acc, item):
            return [(s2, "cont" if kind == "return" else kind, v) for s2, kind, v in I.call_value(s, args[2], [acc, item], depth)]
        return _finish(drain(I, st, it, depth, step, args[1]), lambda s, a: a)
    if k in ("all", "any"):
        want = k == "any"

        def step(s, acc, item):
            res = []
            for s2, kind, v in I.call_value(s, args[1], [item], depth):
                if kind != "return":
                    res.append((s2, kind, v))
                    continue
                for s3, t in bool_forks(I, s2, v, "predicate in any/all"):
                    res.append((s3, "stop" if t == want else "cont", BoolV(want)))
            return res
        return _finish(drain(I, st, it, depth, step, BoolV(not want)), lambda s, a: BoolV(not want), lambda s, a: BoolV(want))
    if k in ("find", "position"):
        def step(s, acc, item):
            res = []
            arg = Ptr(s.new_cell(item), ()) if k == "find" else item
            for s2, kind, v in I.call_value(s, args[1], [arg], depth):
                if kind != "return":
                    res.append((s2, kind, v))
                    continue
                for s3, t in bool_forks(I, s2, v, "predicate in find"):
                    if t:
                        res.append((s3, "stop", some(item) if k == "find" else some(acc)))
                    else:
                        res.append((s3, "cont", acc.add(Aff(1)) if k == "position" else acc))
            return res
        return _finish(drain(I, st, it, depth, step, Aff(0)), lambda s, a: none(), lambda s, a: a)
    if k == "find_map":
        def step(s, acc, item):
            res = []
            for s2, kind, v in I.call_value(s, args[1], [item], depth):
                if kind != "return":
                    res.append((s2, kind, v))
                    continue
                for s3, o in MD.as_enum(I, s2, v, "core::option::Option"):
                    res.append((s3, "stop" if o.variant == "Some" else "cont", o if o.variant == "Some" else acc))
            return res
        return _finish(drain(I, st, it, depth, step, UNIT), lambda s, a: none(), lambda s, a: a)
    if k in ("count", "last", "nth"):
        if k == "nth":
            return None
        def step(s, acc, item):
            return [(s, "cont", acc.add(Aff(1)) if k == "count" else some(item))]
        return _finish(drain(I, st, it, depth, step, Aff(0) if k == "count" else none()), lambda s, a: a)
    if k in ("collect", "from_iter", "extend"):
        def step(s, acc, item):
            return [(s, "cont", acc + [item])]
        outs = drain(I, st, it, depth, step, [])
        target = info["name"]
        res = []
        for s, kind, acc in outs:
            if kind != "done":
                res.append((s, kind, acc))
                continue
            if k == "extend":
                dst_p = I.resolve(s, args[0])
                dst = deref(I, s, args[0])
                if is_map(dst) and all(isinstance(deref(I, s, x), Struct) for x in acc):
                    m2 = dst
                    for x in acc:
                        t = deref(I, s, x)
                        m2 = map_insert(I, s, m2, t.fields.get("0"), t.fields.get("1"))
                    if isinstance(dst_p, Ptr):
                        I.store_to(s, dst_p, m2)
                    res.append((s, "return", UNIT))
                elif isinstance(dst, Seq) and dst.elems is not None and isinstance(dst_p, Ptr):
                    I.store_to(s, dst_p, Seq(dst.name, dst.length.add(Aff(len(acc))), dst.elems + acc, None, dst.attrs, dst.kind))
                    res.append((s, "return", UNIT))
                elif isinstance(dst, Seq) and isinstance(dst_p, Ptr) and not dst.attrs.get("top"):
                    # a buffer known piece by piece: the yielded elements are its next piece
                    c1, l1 = MD.seq_chunks(I, s, dst)
                    I.store_to(s, dst_p, Seq("vec", l1.add(Aff(len(acc))), None, c1 + ([("elems", list(acc))] if acc else []), kind="vec"))
                    res.append((s, "return", UNIT))
                else:
                    return None
                continue
            is_map_target = re.search(r"collect::<(std::collections::hash::map::HashMap|serde_json::map::Map|std::collections::btree::map::BTreeMap)<|as core::iter::traits::collect::FromIterator<\(", target) is not None
            if is_map_target and all(isinstance(deref(I, s, x), Struct) and "1" in deref(I, s, x).fields for x in acc):
                m2 = mapv("collected@%d" % info["ln"], [])
                for x in acc:
                    t = deref(I, s, x)
                    m2 = map_insert(I, s, m2, t.fields.get("0"), t.fields.get("1"))
                res.append((s, "return", m2))
            else:
                res.append((s, "return", Seq("collected@%d" % info["ln"], Aff(len(acc)), list(acc), kind="vec")))
        return res
    return None


@imodel(r"^core::array::from_fn$")
def m_array_from_fn(I, st, info, args, depth):
    """std::array::from_fn::<T, N, _>(f) = [f(0), f(1), .., f(N - 1)]"""
    n = None
    for g in (info.get("gargs") or []):
        if re.fullmatch(r"\d+(_usize)?", str(g)):
            n = int(str(g).split("_")[0])
    if n is None:
        m = re.search(r"from_fn::<[^,]+, (\d+),", info["name"])
        n = int(m.group(1)) if m else None
    if n is None or n > 64:
        return None
    work = [(st, [])]
    out = []
    for i in range(n):
        nxt = []
        for s, acc in work:
            for s2, kind, v in I.call_value(s, args[0], [Aff(i, ty="usize")], depth):
                if kind != "return":
                    out.append((s2, kind, v))
                else:
                    nxt.append((s2, acc + [I.resolve(s2, v)]))
        work = nxt
    for s, acc in work:
        out.append((s, "return", Seq("array@%d" % info["ln"], Aff(n), acc, kind="array")))
    return out


@imodel(r"^alloc::slice::<impl \[T\]>::concat$|^alloc::slice::Concat::concat$")
def m_concat(I, st, info, args, depth):
    """[a, b, ..].concat(): the pieces one after the other"""
    x = deref(I, st, args[0])
    if not (isinstance(x, Seq) and x.elems is not None):
        return None
    evs = [deref(I, st, e) for e in x.elems]
    if evs and all(isinstance(ev, StrV) and isinstance(ev.s, str) for ev in evs):
        return ret(st, StrV("".join(ev.s for ev in evs)))        # known texts: the known concatenation
    chunks, ln = [], Aff(0)
    for e in x.elems:
        ev = deref(I, st, e)
        if not isinstance(ev, (Seq, StrV)):
            return None
        c, l = MD.seq_chunks(I, st, ev)
        if isinstance(ev, Seq) and ev.chunks is None and ev.elems is None:
            c = [("arg", ev)]       # an opaque piece is kept as the value it is (what it was made from stays attached)
        chunks += c
        ln = ln.add(l)
    kind = "str" if all(isinstance(deref(I, st, e), StrV) or getattr(deref(I, st, e), "kind", "") == "str" for e in x.elems) and x.elems else "vec"
    return ret(st, Seq("concat", ln, None, chunks, kind=kind))


@imodel(r"^alloc::slice::<impl \[T\]>::join$|^alloc::slice::Join::join$")
def m_join(I, st, info, args, depth):
    """[a, b, ..].join(sep): the pieces with the separator between neighbours (texts and byte strings)"""
    x = deref(I, st, args[0])
    sep = deref(I, st, args[1]) if len(args) > 1 else None
    pc = I.resolve(st, args[1]) if len(args) > 1 else None
    if isinstance(pc, Aff) and pc.is_const():
        sep = StrV(chr(pc.const))
    if not (isinstance(x, Seq) and x.elems is not None and isinstance(sep, (StrV, Seq))):
        return None
    evs = [deref(I, st, e) for e in x.elems]
    if all(isinstance(ev, StrV) and isinstance(ev.s, str) for ev in evs + [sep]):
        return ret(st, StrV(sep.s.join(ev.s for ev in evs)))
    chunks, ln = [], Aff(0)
    for i, ev in enumerate(evs):
        if not isinstance(ev, (Seq, StrV)):
            return None
        for piece in ([sep] if i else []) + [ev]:
            c, l = MD.seq_chunks(I, st, piece)
            if isinstance(piece, Seq) and piece.chunks is None and piece.elems is None:
                c = [("arg", piece)]
            chunks += c
            ln = ln.add(l)
    return ret(st, Seq("joined", ln, None, chunks, kind="str"))


# ------------------------------------------------------------------ concrete maps
def map_insert(I, st, m, k, v):
    ents = _entries(m)
    out = []
    replaced = False
    for e in ents:
        same = _same_key(I, st, e.fields["0"], k)
        if same is True:
            out.append(Struct("(tuple)", None, {"0": e.fields["0"], "1": v}))
            replaced = True
        else:
            if same is None:
                st.notes.append("undecided: map keys %r / %r may coincide" % (e.fields["0"], k))
            out.append(e)
    if not replaced:
        out.append(Struct("(tuple)", None, {"0": k, "1": v}))
    return Struct("MapV", None, {"entries": Seq(m.fields["entries"].name, Aff(len(out)), out, kind="vec"), "name": m.fields["name"]})


def map_get(I, st, m, k):
    """(entry or None, decided?)"""
    unknown = False
    for e in _entries(m):
        same = _same_key(I, st, e.fields["0"], k)
        if same is True:
            return e, True
        if same is None:
            unknown = True
    return None, not unknown


MAPT = r"std::collections::hash::map::HashMap::<K, V, S(, A)?>|serde_json::map::Map::<alloc::string::String, serde_json::value::Value>|std::collections::hash::set::HashSet::<T, S(, A)?>"


@imodel(r"^(%s)::(get|contains_key|contains|len|is_empty|insert|remove|get_mut|clear)$" % MAPT)
def m_map_ops(I, st, info, args, depth):
    p = I.resolve(st, args[0])
    m = deref(I, st, args[0])
    if not is_map(m):
        return None
    op = info["tdef"].split("::")[-1]
    if op == "len":
        return ret(st, Aff(len(_entries(m))))
    if op == "is_empty":
        return ret(st, BoolV(not _entries(m)))
    if op == "clear":
        if isinstance(p, Ptr):
            I.store_to(st, p, mapv(m.fields["name"].s, []))
        st.events.append(("map_clear", m.fields["name"].s))
        return ret(st, UNIT)
    k = args[1]
    e, decided = map_get(I, st, m, k)
    if not decided:
        st.notes.append("undecided: lookup of %r in %s" % (deref(I, st, k), m.fields["name"].s))
    if op in ("contains_key", "contains"):
        return ret(st, BoolV(e is not None))
    if op in ("get", "get_mut"):
        if e is None:
            return ret(st, none())
        return ret(st, some(Ptr(st.new_cell(e.fields["1"]), ())))
    if op == "insert":
        m2 = map_insert(I, st, m, deref(I, st, k) if not isinstance(deref(I, st, k), Struct) else k, args[2] if len(args) > 2 else UNIT)
        if isinstance(p, Ptr):
            I.store_to(st, p, m2)
        st.events.append(("map_insert", m.fields["name"].s, str_key(I, st, k), e is not None))
        if "HashSet" in info["tdef"]:
            return ret(st, BoolV(e is None))
        return ret(st, some(e.fields["1"]) if e is not None else none())
    if op == "remove":
        ents = [x for x in _entries(m) if x is not e]
        if isinstance(p, Ptr):
            I.store_to(st, p, Struct("MapV", None, {"entries": Seq(m.fields["entries"].name, Aff(len(ents)), ents, kind="vec"), "name": m.fields["name"]}))
        st.events.append(("map_remove", m.fields["name"].s, str_key(I, st, k), e is not None))
        if "HashSet" in info["tdef"]:
            return ret(st, BoolV(e is not None))
        return ret(st, some(e.fields["1"]) if e is not None else none())
    return None


@imodel(r"^(%s)::entry$" % MAPT)
def m_map_entry(I, st, info, args, depth):
    m = deref(I, st, args[0])
    if not is_map(m):
        return None
    return ret(st, Struct("EntryV", None, {"map": I.resolve(st, args[0]), "key": args[1]}))


@imodel(r"^(std::collections::hash::map|serde_json::map)::Entry::<.*>::(or_insert|or_insert_with|or_insert_with_key|or_default|key)$")
def m_entry_ops(I, st, info, args, depth):
    """entry(k).or_insert(v) / .or_insert_with(f): an occupied entry keeps its value, a vacant one receives the new value"""
    en = deref(I, st, args[0])
    if not (isinstance(en, Struct) and en.adt == "EntryV"):
        return None
    op = info["tdef"].split("::")[-1]
    p, k = en.fields["map"], en.fields["key"]
    if op == "key":
        return ret(st, Ptr(st.new_cell(k), ()))
    m = deref(I, st, p)
    if not is_map(m):
        return None
    e, decided = map_get(I, st, m, k)
    if not decided:
        st.notes.append("undecided: lookup of %r in %s" % (deref(I, st, k), m.fields["name"].s))
    st.events.append(("map_entry", m.fields["name"].s, str_key(I, st, k), e is not None))
    if e is not None:
        return ret(st, Ptr(st.new_cell(e.fields["1"]), ()))
    if op == "or_insert":
        vals = [(st, "return", args[1])]
    elif op == "or_default":
        return None
    else:
        vals = I.call_value(st, args[1], [k] if op == "or_insert_with_key" else [], depth)
    out = []
    for s2, kind, v in vals:
        if kind != "return":
            out.append((s2, kind, v))
            continue
        m_now = deref(I, s2, p)
        kk = deref(I, s2, k)
        m2 = map_insert(I, s2, m_now, kk if not isinstance(kk, Struct) else k, v)
        if isinstance(p, Ptr):
            I.store_to(s2, p, m2)
        out.append((s2, "return", Ptr(s2.new_cell(v), ())))
    return out


@imodel(r"^core::ops::index::Index::index$")
def m_map_index(I, st, info, args, depth):
    m = deref(I, st, args[0])
    if not is_map(m):
        return None
    e, decided = map_get(I, st, m, args[1])
    out = []
    for s2, okk in MD.site(I, st, info, "HashMap index", True if e is not None else False, "the key is present in the map (guard with contains_key / use get)"):
        if okk:
            out.append((s2, "return", Ptr(s2.new_cell(e.fields["1"]), ())))
        else:
            out.append((s2, "panic", ("HashMap index", info["fn"], info["ln"])))
    return out


@imodel(r"^(std::collections::hash::(map::HashMap|set::HashSet)::<.*>::(new|with_capacity)|<std::collections::hash::map::HashMap<K, V, S> as core::default::Default>::default|serde_json::map::Map::<.*>::(new|with_capacity))$")
def m_map_new(I, st, info, args, depth):
    if not getattr(I, "concrete_maps", False):
        return None
    return ret(st, mapv("map@%d" % info["ln"], []))


def install():
    """new models take precedence over the older ones (they decline - return None - unless their receiver is concrete)"""
    names = set(f.__name__ for _p, f in NEW)
    MD.MODELS[:] = [(p, f) for p, f in NEW] + [m for m in MD.MODELS if not (m[1].__module__ == __name__)]


install()
