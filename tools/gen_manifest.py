#!/usr/bin/env python3
"""Regenerates /verif/MANIFEST.json from the table below (claimed checks) - properties without a check module go to not_applicable."""
import json
import os

V = os.path.dirname(os.path.dirname(os.path.abspath(__file__)))
props = [json.loads(l) for l in open(os.path.join(V, "properties.jsonl"))]

CLAIMS = {
    "C01": ("other", "4.C01", "sibling agreement encrypt/decrypt + wrapper plumbing over MIR provenance terms (rustc_private driver)",
            "Decides the structural necessary conditions of the round trip (layout, key split, cipher, PAE agreement, plumbing through all three layers, builder state kept across builds); does not decide cipher involution or UTF-8/JSON round trips.",
            "trusted: stream ciphers are involutions, AEAD decrypt inverts encrypt, serde_json/UTF-8 round trips; rustc MIR is faithful"),
    "C02": ("other", "4.C02", "sibling agreement sign/verify + wrapper plumbing over MIR provenance terms",
            "Decides layout / PAE / algorithm agreement between sign and verify and the plumbing; signature scheme correctness is trusted.",
            "trusted: verify(sign(m)) for valid key pairs in ring / ed25519-dalek / p384"),
    "C03": ("proof", "4.C03", "CFG dominance (must-pass-through) + provenance terms over MIR",
            "Ordering proof on the CFG: every Ok exit and every plaintext use of the 8 consumers is reachable only through the success edge of the authentication check; compared tag is whole; returned content is the authenticated content; claims only after authentication; one strict base64 engine. Obligations are counted and all must be discharged.",
            "trusted: MAC/signature unforgeability, base64 URL_SAFE_NO_PAD strictness, ring verify_slices_are_equal semantics"),
    "C04": ("other", "4.C04", "provenance terms (whole key into the authenticator) + CFG gating",
            "Decides that the caller's whole key keys the authenticator that gates success, at every layer; that another key fails is PRF/unforgeability (trusted).",
            "trusted: HKDF/BLAKE2b are PRFs, signatures unforgeable"),
    "C05": ("other", "4.C05", "must-pass-through on parse_raw_token + footer provenance in all 16 PAE sites + carrier identity",
            "Decides the footer gate (4-segment tokens only through the equal edge of a full-length comparison with the expected footer, absent == empty), that the caller's expected footer is under every authenticator, the segment text, and the plumbing.",
            "trusted: MAC strength; ring verify_slices_are_equal; base64 injective"),
    "C06": ("other", "4.C06", "provenance terms + field-read (non-interference) analysis over MIR",
            "Decides that the assertion is the last authenticated component on both sides, never reaches the token text except below the fixed-length tag/signature, is carried unchanged, forwarded by all wrappers, and only settable for v3/v4.",
            "trusted: MAC strength; PAE length prefixing (checked by C08.R7)"),
    "C07": ("other", "4.C07", "must-pass-through on parse_raw_token + constant tables + call-site terms",
            "Decides the header gate (both components compared on every accepting path), that each consumer checks its own version/purpose first, the marker/header string tables, and that the protocol's own header is under every authenticator.",
            "trusted: MAC strength; split('.') segments contain no '.'"),
    "C08": ("other", "4.C08", "skeleton vs transcribed specification tables + abstract interpretation of format_token / PAE",
            "Decides agreement of the implementation's skeleton (PAE lists, nonce derivation, key split constants, layout, primitives by type) with tables transcribed from the specification; byte-exactness of primitives is trusted.",
            "trusted: primitives are byte-exact; the transcription in rules/protocol.py"),
    "C09": ("proof", "4.C09", "path-sensitive abstract interpretation (affine / interval length domain) of the consumers' MIR with a panic-site inventory",
            "Every panic-capable site reachable from untrusted text (MIR asserts, indexing, split_at, copy_from_slice, from_slice, unwrap/expect, assert_eq!, explicit panics) is an obligation discharged from dominating guards and type-level lengths on every path; unknown external callees are findings. All obligations must be discharged.",
            "trusted: SAFE table of dependency functions (do not panic); blake2 / hmac / chacha key-length contracts; lengths <= isize::MAX"),
    "C10": ("other", "4.C10", "provenance terms: fresh CSPRNG draw per build, whole buffer, all bytes on the wire",
            "Decides freshness by construction; the statistical statement over histories of an OS CSPRNG is not decidable statically.",
            "trusted: ring SystemRandom is a CSPRNG"),
    "C11": ("proof", "4.C11", "CFG/term check of the registration + finite-partition abstract interpretation of the validator closure's MIR",
            "Behaviour table of the default exp validator over an exhaustive partition of (JSON value class x time order); every class is an obligation and must get the required verdict; plus registration on every path and plumbing down to claim_validators.",
            "trusted: time's RFC 3339 parser and instant ordering; serde_json accessors; models in rules/models.py"),
    "C12": ("proof", "4.C12", "CFG/term check of the registration + finite-partition abstract interpretation of the validator closure's MIR",
            "Same as C11 for nbf with the direction reversed.",
            "trusted: time's RFC 3339 parser and instant ordering; serde_json accessors; models in rules/models.py"),
    "C13": ("other", "4.C13", "provenance terms of the defaults + abstract interpretation of verify_ready_to_build + who-writes over functions reachable from build",
            "Decides: defaults from one now (+1h), exp removed iff acknowledged and at build time, acknowledgement only set never cleared, build order, and that building never drains / caches builder state (defaults persist across builds). Rendered values are not decided.",
            "trusted: time crate rendering; HashMap semantics"),
    "C14": ("other", "4.C14", "constant tables + per-impl serialisation shape + abstract interpretation of set_claim over the JSON partition + term of the payload entry closure",
            "Decides the structural conditions of claim fidelity: registered keys, one-entry serialisation, storage under the claim's key (last wins), unwrapping exactly the one-entry map, no transformation at build time, parser returns the parsed payload unmodified. serde_json value round trips are trusted.",
            "trusted: serde_json round trips JSON values; HashMap::insert replaces"),
    "C15": ("other", "4.C15", "CFG must-pass-through inside verify_claims' loop + who-writes over functions reachable from parse",
            "Decides that every expectation is visited, that an iteration without validator completes only through not-null and JSON-equal edges on the authenticated payload, failing edges end in Err, and that parsing changes no parser state.",
            "trusted: serde_json Value equality / indexing; HashMap iteration"),
    "C16": ("other", "4.C16", "CFG dominance (validators only after authentication) + must-pass-through inside verify_claims + registration plumbing terms",
            "Decides: validators are invoked only in verify_claims, only on the Ok value of the authenticating call, with (key, &json[key]); verdict via `?`; every registered validator (with or without expected claim) runs before success; registration replaces.",
            "trusted: HashMap iteration visits each key once"),
    "C18": ("other", "4.C18", "constant table + abstract interpretation of the reserved-key check and of all CustomClaim / time-claim constructors",
            "Decides: reserved table = the 7 registered keys; check is exact on the unmodified key and gates all three constructor forms which store the given key; time constructors accept iff iso8601::datetime accepts and keep the value verbatim. The acceptance set of iso8601 is trusted.",
            "trusted: iso8601::datetime acceptance set; slice contains / str equality exact"),
    "C17": ("proof", "4.C17", "abstract interpretation of set_claim / verify_ready_to_build + who-writes (monotone flag invariant) + CFG dominance in the 8 build methods",
            "The history quantifier is discharged by an invariant (flag set <=> a key was inserted twice; flag set => build fails first) whose preservation by every method is checked; all obligations must be discharged.",
            "trusted: HashSet::insert semantics; get_key purity for user-defined claims"),
    "C19": ("proof", "4.C19", "type checker as oracle over a generated compile-fail / compile-pass matrix + closed-world impl-header audit over the driver's facts",
            "Every generated mixing program must be rejected by rustc inside its function with a type / bound / method error and every matching twin must type-check; the audit covers all programs: every way to obtain or consume a key type is in a frozen table. All obligations must be discharged.",
            "trusted: rustc; coherence (the crate's impl set is closed)"),
    "C20": ("proof", "4.C20", "type checker as oracle over the feature lattice (cargo check of a generated client) + cfg lint + API-growth comparison of driver facts",
            "Every configuration of the tier is type-checked (quick: singletons, pairs, full set, specials; thorough: all 255 subsets x 3 layers); obligations = configurations + cfg predicates + api items, all must be discharged. The run-time clause (round trips) is not decided.",
            "trusted: rustc/cargo; the generated smoke client stands for client code"),
}

checks = []
na = []
for p in props:
    pid = p["id"]
    mod = os.path.join(V, "rules", "props", pid.lower() + ".py")
    if pid in CLAIMS and os.path.exists(mod):
        cat, ref, tech, text, note = CLAIMS[pid]
        checks.append({
            "property_id": pid,
            "quick_cmd": "./check %s --tier quick" % pid,
            "thorough_cmd": "./check %s --tier thorough" % pid,
            "evidence_file": "/verif/evidence/%s.json" % pid,
            "replay_cmd_template": "./check explain {path}",
            "engine": "pvfacts+rules",
            "level_claimed": {"category": cat, "text": text, "design_ref": "DESIGN.md section " + ref},
            "level_note": note,
            "technique": "static analysis: " + tech,
        })
    else:
        na.append({"property_id": pid, "reason": "check not yet built in this round (planned static rule set: DESIGN.md section 4)"})

m = {
    "version": 1,
    "setup_cmd": "./check setup",
    "hooks": {"guard": "rusty_paseto_verif", "enable": "none needed: the analysis reads the unmodified crate (no instrumentation commits)",
              "baseline_off_cmd": "cd /repo && cargo test --workspace --no-fail-fast --offline", "source_commits": [], "add_only": True},
    "engines": [
        {"name": "pvfacts", "path": "driver/", "serves_properties": sorted(CLAIMS), "kind_free_text": "rustc_private MIR/HIR fact extractor (RUSTC_WORKSPACE_WRAPPER under cargo +nightly check)"},
        {"name": "rules", "path": "rules/", "serves_properties": sorted(CLAIMS), "kind_free_text": "Python rule engine: CFG dominance, provenance terms, who-writes, constant tables, abstract interpretation"},
        {"name": "typecheck-oracle", "path": "rules/props/c20.py", "serves_properties": ["C19", "C20"], "kind_free_text": "rustc type checker as oracle over generated programs / feature configurations"},
    ],
    "checks": checks,
    "not_applicable": na,
    "notes": "Genuine defects repaired in /repo as fix: commits are listed in known_findings.json (fixed entries); one known finding (C20, cfg-gated variants of the exhaustive public enum PasetoError).",
}
json.dump(m, open(os.path.join(V, "MANIFEST.json"), "w"), indent=1)
print("checks:", [c["property_id"] for c in checks], "na:", [n["property_id"] for n in na])
